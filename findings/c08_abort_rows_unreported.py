"""C08 / C11 (observation on the unchanged code, found with the fault ops of the `results` suite):
one EDQUOT on the append-open of processed_results.csv for the SECOND node file of a collection round
aborts process_results(); the rows of the FIRST node file are already in processed_results.csv (their
node file is deleted) but are returned by no process_results() call, now or later: HpcSubmitter.
_update_completed_jobs never sees them as newly completed (their jobs stay SUBMITTED in the status, jobs
blocked by them are never released).  No row is lost on disk (C11's statement); C08's "reported to exactly
one round" is quantified over interleavings, not over I/O errors.  The same happens when the submitter is
killed anywhere between the first os.remove of a round and the status update.
Run: PYTHONPATH=/repo /venv/bin/python findings/c08_abort_rows_unreported.py
Same history in the suite: corpus/results/20_fault_open_aborts_round.json"""
import builtins, errno, shutil, tempfile
from pathlib import Path
import jade.jobs.results_aggregator as ra
from jade.result import Result
RA = ra.ResultsAggregator
out = Path(tempfile.mkdtemp(prefix="jadeverif-unrep-"))
(out / "results").mkdir()
RA.create(out)
RA.append(out, Result("j1", 0, "finished", 1.5, 1700000000.5, None), batch_id=1)
RA.append(out, Result("j2", 0, "finished", 1.5, 1700000000.5, None), batch_id=2)
n = [0]
def failing_open(file, mode="r", *a, **k):
    if "a" in mode and str(file).endswith("processed_results.csv"):
        n[0] += 1
        if n[0] == 2:
            raise OSError(errno.EDQUOT, "Disk quota exceeded", str(file))
    return builtins.open(file, mode, *a, **k)
ra.open = failing_open
try:
    print("round 1 returned", [r.name for r in RA.load(out).process_results()])
except OSError as e:
    print("round 1 raised", e)
del ra.open
print("node files left:", sorted(p.name for p in (out / "results").glob("*.csv")), "markers:", sorted(p.name for p in out.rglob("*.lock")))
print("processed_results.csv holds", [r.name for r in RA.list_results(out)])
print("round 2 returned", [r.name for r in RA.load(out).process_results()])
print("processed_results.csv holds", [r.name for r in RA.list_results(out)])
shutil.rmtree(out)
