"""CANDIDATE (not in known_findings.json; the `resubmit` mode of the system suite does not generate it):
`resubmit-jobs --no-failed --successful` reruns a job with cancel_on_blocking_job_failure although a blocker of it
has a FAILED result that is not rerun.  j0 fails, j1 succeeds, j2 (flagged, blocked by j0 and j1) is canceled in the
first run.  The resubmission selects j1 (successful) and, as its dependent, j2; prepare_for_resubmission writes
blocked_by(j2) = blockers within the rerun set = {j1}, so the failed j0 is no longer looked at: j2 is started and
finishes with 0, while evaluating the graph with the results on record (C04) cancels it.
Runs the real submit-jobs / run-jobs / try-submit-jobs / resubmit-jobs callbacks under harness/vcluster.py.
Run: PYTHONPATH=/repo PYTHONHASHSEED=0 /venv/bin/python findings/candidate_resubmit_flagged_job_runs.py"""
import os, sys, json
V = os.path.dirname(os.path.dirname(os.path.abspath(__file__)))
sys.path.insert(0, V + "/harness"); sys.path.insert(0, os.environ.get("JADE_SRC", "/repo"))
os.environ.setdefault("JADE_REGISTRY", V + "/.jade-registry.json")
import importlib
S = importlib.import_module("suites.system")
from common import scratch_dir
g = {"batchSize": 1, "timeBased": False, "tryAdd": True, "wallSec": 6000, "procs": 1, "dryRun": False}
sc = {"jobs": [{"id": 0, "group": 0, "est": 5, "blockers": [], "cancel": False, "rc": 1, "rcs": [1, 1]},      # A fails
               {"id": 1, "group": 0, "est": 5, "blockers": [], "cancel": False, "rc": 0, "rcs": [0, 0]},      # S ok
               {"id": 2, "group": 0, "est": 5, "blockers": [0, 1], "cancel": True, "rc": 0, "rcs": [0, 0]}],  # C flagged, blocked by A and S
      "groups": [g], "maxNodes": 2, "cpus": 2, "regroups": [], "resub": {"times": 1, "regroupProb": 0, "lose": False}}
class R(S.Run):
    def next_resubmit(self, st):
        if self.resubs:
            return False
        self.apply(["spawn", "resubmit", False, False, True, None])    # --no-failed --no-missing --successful
        return True
with scratch_dir("corner-") as d:
    run = R({"op": "system.trace", "sc": sc, "mode": "resubmit", "seed": 5}, str(d))
    out = run.run()
    for e in run.vc.trace:
        if e[1] in ("prepare", "start", "row", "summary", "sbatch"):
            print(e)
    print("results.json:", [(r["name"], r["return_code"], r["status"]) for r in run.results["results"]])
    print("checks:", out["obs"]["checks"])
