"""C15 observations on the real pipeline driver (outside the property's quantifier; none is a violation of C15).

 (a) A failed stage submission is not rolled back: when the auto-config command (or run_submit_jobs) of stage k fails,
     `submit-next-stage --stage-num=k` raises ExecutionError AFTER pipeline.json was rewritten with stage_num = k and the
     reported return code.  Repeating the call is refused ("expected stage_num k+1"); a (manual) call for stage k+1 is
     accepted although stage k never ran.  The caller (_handle_completion of stage k-1) ignores the command's exit code.
 (b) After completion, `--stage-num=n+2` passes the stage test and dies with IndexError instead of InvalidParameter.
 (c) API only: PipelineManager.submit_next_stage(1) (no return code) on a running pipeline asserts only its argument and
     re-submits the CURRENT stage.  Not reachable from the CLI (`submit` refuses an existing directory, `--return-code`
     is required).
Run: cd /verif && PYTHONPATH=/repo JADE_REGISTRY=/tmp/x.json /venv/bin/python findings/f115_pipeline_failed_stage.py"""
import json, logging, os, shutil, sys, tempfile
from pathlib import Path
logging.disable(logging.CRITICAL)
os.environ.setdefault("USER", "u")
import jade.utils.run_command as rc
import jade.jobs.pipeline_manager as pm
from jade.jobs.pipeline_manager import PipelineManager
from jade.cli.pipeline import pipeline
from jade.extensions.generic_command import GenericCommandConfiguration, GenericCommandParameters

d = Path(tempfile.mkdtemp(prefix="f115-"))
cwd = os.getcwd()
os.chdir(d)
fail_autoconfig = set()
submitted = []


class Stub:
    @staticmethod
    def run_submit_jobs(config, output, pipeline_stage_num=None, **kw):
        submitted.append(pipeline_stage_num)
        return 0


class FakeSub:
    PIPE = -1

    @staticmethod
    def call(cmd, **kw):
        k = int(cmd[1])
        if k in fail_autoconfig:
            return 3
        c = GenericCommandConfiguration()
        c.add_job(GenericCommandParameters(command="true", name=f"s{k}"))
        c.dump(f"config-stage{k}.json")
        return 0


pm.JobSubmitter = Stub
rc.subprocess = FakeSub


def cli(*argv):
    out, err = sys.stdout, sys.stderr
    sys.stdout = sys.stderr = open(os.devnull, "w")
    try:
        pipeline.main(list(argv), standalone_mode=False)
        r = "returned"
    except SystemExit as e:
        r = f"exit {e.code}"
    except Exception as e:  # noqa
        r = f"{type(e).__name__}: {e}"
    finally:
        sys.stdout, sys.stderr = out, err
    c = json.loads((d / "out" / "pipeline.json").read_text())
    print(f"  jade pipeline {' '.join(argv[:1] + argv[2:])}: {r}\n      -> stage_num={c['stage_num']} is_complete={c['is_complete']} "
          f"return_codes={[s['return_code'] for s in c['stages']]} submitted={submitted}")


try:
    cli("create", "-l", "-c", "pipeline.json", "-a", "autoconfig 1", "-a", "autoconfig 2", "-a", "autoconfig 3")
except FileNotFoundError:
    pass
print("(a) auto-config of stage 2 fails")
cli("submit", "pipeline.json", "-o", "out")
fail_autoconfig.add(2)
cli("submit-next-stage", "out", "--stage-num=2", "--return-code=0")
fail_autoconfig.clear()
cli("submit-next-stage", "out", "--stage-num=2", "--return-code=0")
cli("submit-next-stage", "out", "--stage-num=3", "--return-code=0")
print("(b) after completion")
cli("submit-next-stage", "out", "--stage-num=4", "--return-code=0")
cli("submit-next-stage", "out", "--stage-num=5", "--return-code=0")
cli("submit-next-stage", "out", "--stage-num=4", "--return-code=0")
print("(c) API-level restart of a running pipeline")
shutil.rmtree(d / "out")
del submitted[:]
cli("submit", "pipeline.json", "-o", "out")
cli("submit-next-stage", "out", "--stage-num=2", "--return-code=0")
PipelineManager.load("out").submit_next_stage(1)
print(f"  PipelineManager.load('out').submit_next_stage(1) -> submitted={submitted}")
os.chdir(cwd)
shutil.rmtree(d, ignore_errors=True)
