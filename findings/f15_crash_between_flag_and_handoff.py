"""C15 observations on the UNCHANGED code, met by the system-level pipeline suite (harness/suites/syspipe.py).
Neither contradicts the order / count clauses of C15; both are about what "match what happened" and "the pipeline completes"
can mean, so they are reported, not hidden (the oracle's scope is marked at the places named below).

 (a) A crash between `mark_complete` and the hand-off strands the pipeline for good.
     `JobSubmitter._handle_completion` first writes is_complete=true into the stage's cluster_config.json and only then
     starts `jade pipeline submit-next-stage <dir> --stage-num=k+1 --return-code=rc`.  If the completing submitter dies in
     between (SIGKILL, node loss, wall-time of the batch whose node runs that try-submit-jobs), the stage is flagged complete
     and nothing will ever issue the hand-off again: every later `jade try-submit-jobs <stage dir>` answers "All jobs are
     already finished" (the dead process even keeps the submitter role, so it answers "Another node is already the
     submitter"), pipeline.json stays at stage k with return_code null, stage k+1 is never configured or submitted and the
     pipeline is never marked complete.  The only way out is to type the internal command by hand.
     Oracle scope: `handoff.missing` in Run.final_checks skips a flagged stage whose flagging process was killed;
     `progress.incomplete` is only claimed for runs without kills.
     (The same window exists inside the hand-off process: killed after it wrote stage_num=k+1 to pipeline.json and before
     run_submit_jobs, stage k+1 is current but has no submission and a repeated command is refused - "expected stage_num
     k+2" - cf. findings/f115_pipeline_failed_stage.py (a).)

 (b) A stage whose jobs FAILED hands over return code 0.
     The code handed over is the Status of the completion (`Status.GOOD` unless a job has NO result): jobs that ran and exited
     non-zero, or were canceled because a blocker failed, do not make it non-zero; their counts are only in the stage's
     results.json.  `jade pipeline status` / pipeline.json therefore show return_code 0 for a stage in which every job failed.
     Oracle scope: `expected_rc` in syspipe.py = 0 iff every job of the stage has a recorded result (what the code
     documents), NOT "0 iff no failed or missing job".

Run: cd /verif && PYTHONPATH=/repo JADE_REGISTRY=/tmp/f15-registry.json /venv/bin/python findings/f15_crash_between_flag_and_handoff.py
(real `jade pipeline create/submit`, run_submit_jobs, jade-internal run-jobs, try-submit-jobs, submit-next-stage under
harness/vpipeline.py; only sbatch/squeue/job processes/config commands are faked).  Exit code 0; prints what happened."""
import json
import os
import sys
from pathlib import Path

V = Path(__file__).resolve().parent.parent
sys.path.insert(0, str(V / "harness"))
os.environ.setdefault("JADE_REGISTRY", "/tmp/f15-registry.json")

from common import scratch_dir  # noqa: E402
from suites.syspipe import GID, Run  # noqa: E402

SHOW = ("spawn", "sbatch", "startbatch", "start", "jobexit", "summary", "stagecomplete", "nextstage", "pcall", "pserialize", "autoconfig",
        "stagesubmit", "kill", "procexit")


def stage(k, rcs):
    jobs = [{"id": GID * k + i, "group": 0, "est": 10, "blockers": [], "cancel": False, "rc": rc} for i, rc in enumerate(rcs)]
    return {"jobs": jobs, "groups": [{"batchSize": 2, "timeBased": False, "tryAdd": False, "wallSec": 3600, "procs": 2, "dryRun": False}],
            "maxNodes": 2}


def show(run, since=0):
    for e in run.vc.trace[since:]:
        if e[1] in SHOW:
            data = [str(x).replace(run.vc.pdir, "<P>") for x in e[2:]]
            if e[1] in ("nextstage", "autoconfig", "stagesubmit"):
                data = data[:3]
            print("   ", e[0], e[1], *[d[:110] for d in data])


def until(run, cond):
    """deterministic fair schedule (Run.det_op), until cond(run) or nothing can move"""
    while not cond(run) and len(run.ops) < 2000:
        menu = run.menu()
        if not menu:
            if not run.at_quiescence():
                return False
            continue
        run.apply(run.det_op(menu))
    return cond(run)


def at_handoff(run):
    return [p for p in run.vc.live() if p.at == ("EXT", "jade pipeline submit-next-stage")]


# ---------------------------------------------------------------------------------------------------------------- (a)
print("== (a) two stages; the submitter that completes stage 1 is killed after mark_complete, before it starts the hand-off")
case = {"op": "syspipe.trace", "sc": {"stages": [stage(1, [0, 0]), stage(2, [0])], "cpus": 4, "cfgMode": "commands"}, "mode": "faults", "seed": 1}
with scratch_dir("f15a-") as d:
    run = Run(case, str(d))

    def driver(run):
        run.apply(["spawn", "psubmit"])
        assert until(run, at_handoff), "no hand-off reached"
        p = at_handoff(run)[0]
        run.msg = f"   process {p.pid} ({p.kind}) is about to start the hand-off; flag of stage 1 on disk: {run.vc.stage_flag(1)} -> kill"
        run.faults.append("kill")
        run.apply(["kill", p.pid])
        until(run, lambda r: False)                   # everything else runs to its end
        n = len(run.vc.trace)
        for attempt in (1, 2):
            run.apply(["spawn", "trysubmit", 1])      # what the user can do: try-submit-jobs on the stage
            until(run, lambda r: False)
        run.user_tail = n
    res = run.run(driver)          # (stdout is redirected while the simulation is installed)
    show(run)
    print(run.msg)
    print("   stage 1 flagged complete:", run.vc.stage_flag(1), "| pipeline.json:", run.vc.pipeline_view(), "| stages submitted:", run.submitted)
    print("   stage 2 directory exists:", os.path.exists(run.vc.stage_dir(2)))
    print("   oracle (kills are outside its progress claim):", res["obs"]["checks"] or "silent", "| note:", res["obs"]["note"])
    ok_a = run.vc.stage_flag(1) is True and run.vc.pipeline_view()["stage_num"] == 1 and run.submitted == [1]
    print("   => stranded:", ok_a)

# ---------------------------------------------------------------------------------------------------------------- (b)
print("== (b) two stages; BOTH jobs of stage 1 exit with code 7")
case = {"op": "syspipe.trace", "sc": {"stages": [stage(1, [7, 7]), stage(2, [0])], "cpus": 4, "cfgMode": "commands"}, "mode": "plain", "seed": 1}
with scratch_dir("f15b-") as d:
    run = Run(case, str(d))

    def driver(run):
        run.apply(["spawn", "psubmit"])
        until(run, lambda r: False)
        run.results1 = json.load(open(os.path.join(run.vc.stage_dir(1), "results.json")))
    res = run.run(driver)
    for e in run.vc.trace:
        if e[1] == "nextstage":
            print("    hand-off:", "jade pipeline submit-next-stage", *e[3])
    print("   stage 1 results.json summary:", run.results1["results_summary"])
    print("   pipeline.json:", run.vc.pipeline_view())
    print("   oracle:", res["obs"]["checks"] or "silent")
