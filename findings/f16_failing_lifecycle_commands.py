"""C16 observations on the real code: what a FAILING lifecycle command does (stated as theorems
C16_failing_setup_stops / C16_failing_node_setup_aborts / C16_commands_transparent_*; by our reading not a violation of
C16 — the property speaks of *configuring* the commands — but reported, not hidden).

 (a) node_setup_command exits non-zero: `JobRunner.run_jobs` runs it through `check_run_command`, so the node raises
     ExecutionError BEFORE the queue runs: no job of the batch starts, no result row is written, the node teardown command
     does not run and — because the exception leaves `jade-internal run-jobs` — the node never runs `jade try-submit-jobs`.
     If it was the last active node nobody drives the submission any more; it sits incomplete until a user runs
     `jade try-submit-jobs <output>`, which then finds no active batch, reports ALL jobs of that batch as missing, runs the
     teardown command and flags the submission complete (return code 1).  The documentation says nothing about failing
     node commands.
 (b) setup_command exits non-zero: `submit_jobs` raises before anything is handed to the HPC (run_submit_jobs demotes in
     `finally`).  The cluster files exist and are incomplete, so a later `jade try-submit-jobs <output>` submits all batches
     although the setup command never succeeded (setup is not retried: `load` builds a non-new submitter).
 (c) teardown_command / node_teardown_command exit non-zero: logged, nothing else changes (results recorded, try-submit
     runs, flag set).

Run: cd /verif && PYTHONPATH=/repo JADE_REGISTRY=/tmp/x.json /venv/bin/python findings/f16_failing_lifecycle_commands.py
(replays the corpus witnesses corpus/lifecycle/failing_node_setup_aborts_batch.json and failing_setup_then_user_trysubmit.json
through harness/vcluster.py and prints the boundary events)."""
import json
import os
import sys
from pathlib import Path

V = Path(__file__).resolve().parent.parent
sys.path.insert(0, str(V / "harness"))
os.environ.setdefault("JADE_REGISTRY", "/tmp/f16-registry.json")

from common import scratch_dir  # noqa: E402
from suites.lifecycle import Run  # noqa: E402

SHOW = ("spawn", "hook", "sbatch", "startbatch", "start", "row", "summary", "markcomplete", "procexit", "round_begin", "round_end")
for name in ("failing_node_setup_aborts_batch", "failing_setup_then_user_trysubmit"):
    case = json.loads((V / "corpus" / "lifecycle" / f"{name}.json").read_text())
    print(f"== {name}: commands {sorted(case['sc']['lifecycle'])}, return codes {case['sc']['hook_rc']}")
    with scratch_dir("f16-") as d:
        run = Run(case, str(d))
        res = run.run()
        for e in run.vc.trace:
            if e[1] in SHOW:
                print("  ", e[0], e[1], *[str(x).replace(run.vc.out, "<out>") for x in e[2:]])
        print("   oracle:", res["obs"]["checks"] or "silent")
        try:
            r = json.load(open(os.path.join(run.vc.out, "results.json")))
            print("   results.json: missing_jobs =", r["missing_jobs"], "results =", [(x["name"], x["return_code"], x["status"]) for x in r["results"]])
        except OSError:
            print("   no results.json")
