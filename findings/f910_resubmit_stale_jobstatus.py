"""C10 (API level only): prepare_for_resubmission has no _check_versions up front and takes no lock.  A handle with a
current config copy but an out-of-date job-status copy rewrites cluster_config.json / config_version.txt and only then
raises JobStatusVersionMismatch.  Not reachable from resubmit-jobs, which loads both files under the lock right before.
Lean: Jade.C10.C10_prepareResubmit_jsStale_writes_config.
Run: PYTHONPATH=/repo JADE_REGISTRY=/tmp/x.json /venv/bin/python findings/f910_resubmit_stale_jobstatus.py"""
import sys, tempfile, shutil, logging
from pathlib import Path
logging.disable(logging.CRITICAL)
from jade.extensions.generic_command import GenericCommandConfiguration, GenericCommandParameters
from jade.models import HpcConfig, SubmitterParams
from jade.jobs.cluster import Cluster, JobStatusVersionMismatch, ConfigVersionMismatch

d = Path(tempfile.mkdtemp(prefix="f910-"))
try:
    params = SubmitterParams(hpc_config=HpcConfig(hpc_type="slurm", hpc={"account": "a"}))
    config = GenericCommandConfiguration()
    config.add_job(GenericCommandParameters(command="true", name="A"))
    config.add_job(GenericCommandParameters(command="true", name="B"))
    config.assign_default_submission_group(params)
    c0 = Cluster.create(str(d), config)
    jobs = {j.name: j for j in c0.job_status.jobs}
    c0.update_job_status([jobs["A"], jobs["B"]], [], [], set(), ["1"], 2)
    c0.update_job_status([], [], [], ["A", "B"], ["1"], 2)
    c0.mark_complete()
    c1, _ = Cluster.deserialize(str(d), deserialize_jobs=True)
    c1.complete_hpc_job_id("1")                       # bumps only the job-status version: c0's job-status copy is now stale
    files = ["cluster_config.json", "config_version.txt", "job_status.json", "job_status_version.txt"]
    before = {f: (d / f).read_bytes() for f in files}
    try:
        c0.prepare_for_resubmission({"A"}, {})
        raised = None
    except (JobStatusVersionMismatch, ConfigVersionMismatch) as e:
        raised = type(e).__name__
    changed = [f for f in files if before[f] != (d / f).read_bytes()]
    print("raised:", raised, "files changed by the rejected call:", changed)
    sys.exit(1 if (raised and changed) or not raised else 0)
finally:
    shutil.rmtree(d, ignore_errors=True)
