"""9.1 / C01: _make_batch returns an already-batched job as 'not checked' (double placement).
time-based, try-add-blocked, candidates [B(10, blocked by A), A(10), C(90)], walltime 100 min x 1 process.
Run: PYTHONPATH=/repo JADE_REGISTRY=/tmp/x.json /venv/bin/python findings/f91_make_batch.py"""
import sys, logging
logging.disable(logging.CRITICAL)
from jade.extensions.generic_command import GenericCommandConfiguration, GenericCommandParameters
from jade.models import HpcConfig, SubmitterParams, SubmissionGroup, Job, JobState
from jade.hpc.hpc_submitter import HpcSubmitter

params = SubmitterParams(hpc_config=HpcConfig(hpc_type="slurm", hpc={"account": "a", "walltime": "1:40:00"}),
                         time_based_batching=True, try_add_blocked_jobs=True, num_processes=1, per_node_batch_size=0)
config = GenericCommandConfiguration()
config.add_job(GenericCommandParameters(command="true", name="B", blocked_by={"A"}, estimated_run_minutes=10))
config.add_job(GenericCommandParameters(command="true", name="A", estimated_run_minutes=10))
config.add_job(GenericCommandParameters(command="true", name="C", estimated_run_minutes=90))
config.assign_default_submission_group(params)
group = config.submission_groups[0]
hs = HpcSubmitter.__new__(HpcSubmitter)
hs._config = config
avail = [Job(name=j.name, blocked_by=set(j.get_blocking_jobs()), state=JobState.NOT_SUBMITTED) for j in config.iter_jobs()]
placed = []
batches = []
for _ in range(5):
    if not avail:
        break
    sub, blk = [], []
    batch, avail = hs._make_batch(avail, group, sub, blk)
    batches.append([j.name for j in sub])
    placed += [j.name for j in sub]
print("batches:", batches)
dups = sorted({n for n in placed if placed.count(n) > 1})
print("placed twice:", dups)
sys.exit(1 if dups else 0)
