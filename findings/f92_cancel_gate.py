"""9.2 / C14: after cancel-jobs marked the submission canceled, a later try-submit-jobs still hands the
remaining jobs to the HPC.  3 independent jobs, per-node batch size 1, max_nodes 1.
Run: PYTHONPATH=/repo JADE_REGISTRY=/tmp/x.json /venv/bin/python findings/f92_cancel_gate.py"""
import sys, tempfile, shutil, logging, os, json
from pathlib import Path
logging.disable(logging.CRITICAL)
import jade.utils.run_command as rc
from jade.extensions.generic_command import GenericCommandConfiguration, GenericCommandParameters
from jade.models import HpcConfig, SubmitterParams
from jade.jobs.job_submitter import JobSubmitter
from jade.cli.cancel_jobs import cancel_jobs
from jade.cli.try_submit_jobs import try_submit_jobs
import jade.jobs.job_submitter as js

LOG = []
ACTIVE = {}
class FakePopen:
    n = 0
    def __init__(self, cmd, **kw):
        self.cmd = cmd; self.returncode = None
    def communicate(self):
        self.returncode = 0
        c = self.cmd[0]
        if c == "sbatch":
            FakePopen.n += 1
            ACTIVE[str(FakePopen.n)] = "PENDING"
            LOG.append(("sbatch", self.cmd[1]))
            return f"Submitted batch job {FakePopen.n}\n".encode(), b""
        if c == "squeue":
            return "".join(f"{i} {s}\n" for i, s in ACTIVE.items()).encode(), b""
        if c == "scancel":
            LOG.append(("scancel", self.cmd[1])); ACTIVE.pop(self.cmd[1], None)
        return b"", b""
class FakeSub:
    PIPE = -1; Popen = FakePopen
    @staticmethod
    def call(cmd, **kw):
        p = FakePopen(cmd); p.communicate(); return 0
rc.subprocess = FakeSub
os.environ.setdefault("USER", "u")
d = Path(tempfile.mkdtemp(prefix="f92-"))
try:
    params = SubmitterParams(hpc_config=HpcConfig(hpc_type="slurm", hpc={"account": "a"}), generate_reports=False,
                             resource_monitor_type="none", per_node_batch_size=1, max_nodes=1)
    config = GenericCommandConfiguration()
    for n in "ABC":
        config.add_job(GenericCommandParameters(command="true", name=n))
    config.assign_default_submission_group(params)
    js.JobSubmitter._save_repository_info = lambda self, registry: None
    JobSubmitter.run_submit_jobs(config, str(d))
    def call(cmd, *a):
        try:
            cmd.callback(*a)
        except SystemExit:
            pass
    call(cancel_jobs, str(d), False, False)
    marked = json.loads((d / "cluster_config.json").read_text())["is_canceled"]
    n_before = len([x for x in LOG if x[0] == "sbatch"])
    call(try_submit_jobs, str(d), False)
    call(try_submit_jobs, str(d), False)
    n_after = len([x for x in LOG if x[0] == "sbatch"])
    cfg = json.loads((d / "cluster_config.json").read_text())
    print("log:", LOG)
    print(f"is_canceled={marked}; sbatch calls before cancel: {n_before}, after: {n_after - n_before}; is_complete={cfg['is_complete']}")
    sys.exit(1 if n_after > n_before or not marked else 0)
finally:
    shutil.rmtree(d, ignore_errors=True)
