"""9.3 / C16: a configured node teardown command makes JobRunner.run_jobs raise AttributeError
after the jobs ran (so the node's try-submit-jobs never runs).
Run: PYTHONPATH=/repo JADE_REGISTRY=/tmp/x.json /venv/bin/python findings/f93_node_teardown.py"""
import os, sys, tempfile, shutil, logging
from pathlib import Path
logging.disable(logging.CRITICAL)
from jade.extensions.generic_command import GenericCommandConfiguration, GenericCommandParameters
from jade.models import HpcConfig, SubmitterParams, SubmissionGroup
from jade.jobs.job_runner import JobRunner
from jade.jobs.results_aggregator import ResultsAggregator

d = Path(tempfile.mkdtemp(prefix="f93-"))
try:
    marker = d / "teardown_ran"
    params = SubmitterParams(hpc_config=HpcConfig(hpc_type="local", hpc={}), resource_monitor_type="none", generate_reports=False, poll_interval=0)
    config = GenericCommandConfiguration(node_teardown_command=f"touch {marker}")
    config.add_job(GenericCommandParameters(command="true"))
    config.assign_default_submission_group(params)
    out = d / "out"
    os.makedirs(out)
    os.environ["JADE_MONITOR_INTERVAL"] = ""
    runner = JobRunner(config, str(out))
    try:
        runner.run_jobs(distributed_submitter=False, num_parallel_processes_per_node=1)
        err = None
    except Exception as e:
        err = e
    print("run_jobs raised:", repr(err), "teardown ran:", marker.exists())
    sys.exit(0 if err is None and marker.exists() else 1)
finally:
    shutil.rmtree(d, ignore_errors=True)
