"""9.4 / C20: ResourceMonitorAggregator reports a wrong minimum when samples increase.
Run: PYTHONPATH=/repo /venv/bin/python findings/f94_stats_min.py   (exit 1 = defect present)"""
import sys
from jade.resource_monitor import ResourceMonitorAggregator
from jade.models.submitter_params import ResourceMonitorStats

samples = [1.0, 2.0, 3.0]
it = iter([0.0] + samples)  # first call is the constructor's baseline read


class Agg(ResourceMonitorAggregator):
    def _get_stats(self):
        return {"cpu": {"cpu_percent": next(it)}}


a = Agg("t", ResourceMonitorStats(cpu=True, memory=False))
for _ in samples:
    a.update_resource_stats()
mn = a._summaries["minimum"]["cpu"]["cpu_percent"]
mx = a._summaries["maximum"]["cpu"]["cpu_percent"]
print("samples", samples, "reported min", mn, "max", mx)
sys.exit(0 if (mn == min(samples) and mx == max(samples)) else 1)
