"""9.5 and 9.6 / C13 (C10): resubmit-jobs
 (a) on an INCOMPLETE submission whose submitter role is held by another process: must refuse and
     leave every file as it was.  Defect: it demotes unconditionally -> other host: AssertionError under
     the cluster lock (lock file left behind); same host: silently takes the role away.
 (b) on a COMPLETE submission produced without reports (no events/ directory): must not fail after the
     results were erased with the submitter role left set forever.
Run: PYTHONPATH=/repo JADE_REGISTRY=/tmp/x.json /venv/bin/python findings/f95_f96_resubmit.py [a|b]"""
import sys, tempfile, shutil, logging, os, socket, json
from pathlib import Path
logging.disable(logging.CRITICAL)
import jade.utils.run_command as rc
import jade.jobs.cluster as cl
from jade.extensions.generic_command import GenericCommandConfiguration, GenericCommandParameters
from jade.models import HpcConfig, SubmitterParams
from jade.jobs.cluster import Cluster
from jade.jobs.job_submitter import JobSubmitter
from jade.jobs.results_aggregator import ResultsAggregator
from jade.result import Result
from jade.cli.resubmit_jobs import resubmit_jobs
from jade.enums import JobCompletionStatus

class FakePopen:
    def __init__(self, cmd, **kw):
        self.cmd = cmd; self.returncode = None
    def communicate(self):
        self.returncode = 0
        if self.cmd[0] == "sbatch":
            return b"Submitted batch job 77\n", b""
        return b"", b""
class FakeSub:
    PIPE = -1; Popen = FakePopen
    @staticmethod
    def call(cmd, **kw): return 0
rc.subprocess = FakeSub
os.environ.setdefault("USER", "u")
which = sys.argv[1] if len(sys.argv) > 1 else "ab"
bad = False

def make(d, complete):
    params = SubmitterParams(hpc_config=HpcConfig(hpc_type="slurm", hpc={"account": "a"}), generate_reports=False, resource_monitor_type="none")
    config = GenericCommandConfiguration()
    config.add_job(GenericCommandParameters(command="true", name="A"))
    config.add_job(GenericCommandParameters(command="false", name="B"))
    config.assign_default_submission_group(params)
    mgr = JobSubmitter.create(config, output=str(d))
    cluster = Cluster.create(str(d), mgr.config)
    ResultsAggregator.create(str(d))
    if complete:
        agg = ResultsAggregator.load(str(d))
        agg.append_result(Result("A", 0, JobCompletionStatus.FINISHED, 1.0, hpc_job_id="1"))
        agg.append_result(Result("B", 1, JobCompletionStatus.FINISHED, 1.0, hpc_job_id="1"))
        cluster.update_job_status(list(cluster.job_status.jobs), [], [], set(), ["1"], 2)
        cluster.update_job_status([], [], [], {"A", "B"}, [], 2)
        mgr._results = ResultsAggregator.list_results(str(d))
        mgr.write_results_summary("results.json", [])
        cluster.mark_complete()
        cluster.demote_from_submitter()
    return cluster

def snapshot(d):
    return {p.name: p.read_bytes() for p in sorted(Path(d).iterdir()) if p.is_file()}

if "a" in which:
    for other_host in (True, False):
        d = Path(tempfile.mkdtemp(prefix="f95-"))
        try:
            real = socket.gethostname
            cl.socket.gethostname = lambda: "login1"
            make(d, complete=False)          # login1 holds the submitter role, submission incomplete
            before = snapshot(d)
            cl.socket.gethostname = (lambda: "node7") if other_host else (lambda: "login1")
            try:
                resubmit_jobs.callback(str(d), True, True, False, None, False)
                out = "returned"
            except SystemExit as e:
                out = f"exit {e.code}"
            except BaseException as e:
                out = f"raised {type(e).__name__}"
            after = snapshot(d)
            changed = sorted(k for k in set(before) | set(after) if before.get(k) != after.get(k) and not k.endswith(".log"))
            print(f"(a) other_host={other_host}: {out}; files changed: {changed}")
            if out != "exit 1" or changed:
                bad = True
        finally:
            cl.socket.gethostname = real
            shutil.rmtree(d, ignore_errors=True)

if "b" in which:
    d = Path(tempfile.mkdtemp(prefix="f96-"))
    try:
        make(d, complete=True)
        assert not (d / "events").exists()
        try:
            resubmit_jobs.callback(str(d), True, True, False, None, False)
            out = "returned"
        except SystemExit as e:
            out = f"exit {e.code}"
        except BaseException as e:
            out = f"raised {type(e).__name__}: {e}"
        cfg = json.loads((d / "cluster_config.json").read_text())
        rows = (d / "processed_results.csv").read_text().strip().split("\n")[1:]
        print(f"(b) {out}; submitter field afterwards: {cfg['submitter']!r}; rows left: {[r.split(',')[0] for r in rows]}; is_complete={cfg['is_complete']}")
        if cfg["submitter"] is not None or out.startswith("raised"):
            bad = True
    finally:
        shutil.rmtree(d, ignore_errors=True)
sys.exit(1 if bad else 0)
