"""9.7 / C09: prepare_for_resubmission sets submitted_jobs = num_jobs - len(jobs_to_resubmit) even when unselected
never-submitted jobs exist (resubmit-jobs --no-missing after a canceled submission).  The unselected job stays NOT_SUBMITTED
but is counted as submitted; the next round submits it anyway and submitted_jobs exceeds num_jobs (show-status prints
not_submitted_jobs = -1).  Lean: Jade.ClusterStatus.prepareResubmit_unselected_breaks_statusInv /
prepareResubmit_then_submitted_exceeds_total.
Run: PYTHONPATH=/repo JADE_REGISTRY=/tmp/x.json /venv/bin/python findings/f97_resubmit_no_missing.py"""
import sys, tempfile, shutil, logging
from pathlib import Path
logging.disable(logging.CRITICAL)
from jade.extensions.generic_command import GenericCommandConfiguration, GenericCommandParameters
from jade.models import HpcConfig, SubmitterParams, JobState
from jade.jobs.cluster import Cluster

d = Path(tempfile.mkdtemp(prefix="f97-"))
try:
    params = SubmitterParams(hpc_config=HpcConfig(hpc_type="slurm", hpc={"account": "a"}))
    config = GenericCommandConfiguration()
    config.add_job(GenericCommandParameters(command="true", name="A"))
    config.add_job(GenericCommandParameters(command="true", name="B"))
    config.assign_default_submission_group(params)
    c0 = Cluster.create(str(d), config)
    jobs = {j.name: j for j in c0.job_status.jobs}
    c0.update_job_status([jobs["A"]], [], [], set(), ["1"], 2)      # A submitted
    c0.mark_canceled()                                              # cancel-jobs: B is never submitted
    c0.update_job_status([], [], [], {"A"}, [], 2)                  # A finishes (failed, say)
    c0.mark_complete()                                              # forced completion: no active HPC job ids
    c0.demote_from_submitter()
    c1, promoted = Cluster.deserialize(str(d), try_promote_to_submitter=True, deserialize_jobs=True)
    assert promoted
    c1.prepare_for_resubmission({"A"}, {})                          # resubmit-jobs --no-missing: only the failed job
    s = Cluster.deserialize(str(d), deserialize_jobs=True)[0].get_status_summary(include_jobs=True)
    states = [j["state"].value for j in s["job_status"]["jobs"]]
    submitted = s["num_jobs"] - s["not_submitted_jobs"]
    print("after prepare_for_resubmission: states", states, "submitted_jobs", submitted)
    jobs = {j.name: j for j in c1.job_status.jobs}
    c1.update_job_status([jobs["A"], jobs["B"]], [], [], set(), ["2"], 3)   # the next round submits every NOT_SUBMITTED job
    s2 = Cluster.deserialize(str(d), deserialize_jobs=True)[0].get_status_summary()
    print("after the next round:", s2)
    bad = submitted != sum(1 for x in states if x != "not_submitted") or s2["not_submitted_jobs"] < 0
    sys.exit(1 if bad else 0)
finally:
    shutil.rmtree(d, ignore_errors=True)
