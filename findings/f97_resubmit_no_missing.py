"""C13 / C09 (DESIGN 9.7): resubmit-jobs --no-missing on a completed submission that still holds a never-submitted job.

 (a) Three independent jobs; j0 failed, j1 succeeded, j2 was never submitted (the submission was canceled and then
     force-completed: all its unfinished jobs are "missing").  `resubmit-jobs --no-missing` selects only j0, yet
       * Cluster.prepare_for_resubmission writes submitted_jobs = num_jobs - |rerun set| = 2 although only j1 is
         submitted/done (status invariant `submitted_jobs = #(SUBMITTED or DONE)` false), and
       * the submit round that follows batches the unselected j2 together with j0 (config_batch_1 = [j0, j2]) and
         leaves submitted_jobs = 4 > num_jobs = 3.
     Lean: Jade.C13.noMissing_counters_witness (the negation, by `decide`), prepare_statusInv_iff (the exact
     characterisation: the invariants hold iff no never-submitted job is left outside the rerun set).
 (b) Observation, not a violation of C13's conjunction (nothing is erased): a --submission-groups-file that cannot be
     loaded raises after the promotion and before the try/finally; the submitter field stays set and every later
     resubmit-jobs dies on `assert promoted`.  Lean: groups_file_failure_keeps_role, held_role_blocks_resubmission.

Run: PYTHONPATH=/repo JADE_REGISTRY=/tmp/x.json /venv/bin/python findings/f97_resubmit_no_missing.py [a|b|ab]
Exit status 1 = the defect of part (a) is present (part (b) only prints)."""
import json
import logging
import os
import shutil
import sys
import tempfile
from pathlib import Path

logging.disable(logging.CRITICAL)
import jade.utils.run_command as rc  # noqa: E402
from jade.extensions.generic_command import GenericCommandConfiguration, GenericCommandParameters  # noqa: E402
from jade.models import HpcConfig, SubmitterParams, JobState  # noqa: E402
from jade.jobs.cluster import Cluster  # noqa: E402
from jade.jobs.job_submitter import JobSubmitter  # noqa: E402
from jade.jobs.results_aggregator import ResultsAggregator  # noqa: E402
from jade.result import Result  # noqa: E402
from jade.cli.resubmit_jobs import resubmit_jobs  # noqa: E402
from jade.enums import JobCompletionStatus  # noqa: E402


class FakePopen:
    def __init__(self, cmd, **kw):
        self.cmd = cmd
        self.returncode = None

    def communicate(self):
        self.returncode = 0
        if self.cmd[0] == "sbatch":
            return b"Submitted batch job 77\n", b""
        return b"", b""


class FakeSub:
    PIPE = -1
    Popen = FakePopen

    @staticmethod
    def call(cmd, **kw):
        return 0


rc.subprocess = FakeSub
os.environ.setdefault("USER", "u")
JobSubmitter._save_repository_info = lambda self, registry: None
which = sys.argv[1] if len(sys.argv) > 1 else "ab"


def make(d):
    """j0 failed, j1 ok, j2 never submitted; canceled, then complete"""
    params = SubmitterParams(hpc_config=HpcConfig(hpc_type="slurm", hpc={"account": "a"}), generate_reports=False,
                             resource_monitor_type="none", per_node_batch_size=2)
    config = GenericCommandConfiguration()
    for name in ("j0", "j1", "j2"):
        config.add_job(GenericCommandParameters(command="true", name=name))
    config.assign_default_submission_group(params)
    mgr = JobSubmitter.create(config, output=str(d))
    cluster = Cluster.create(str(d), mgr.config)
    agg = ResultsAggregator.create(str(d))
    agg.append_result(Result("j0", 1, JobCompletionStatus.FINISHED, 1.5, 1700000000.0, hpc_job_id="11"))
    agg.append_result(Result("j1", 0, JobCompletionStatus.FINISHED, 1.5, 1700000001.0, hpc_job_id="11"))
    jobs = list(cluster.job_status.jobs)
    cluster.update_job_status(jobs[:2], [], [], set(), ["11"], 2)      # j0, j1 submitted in batch 1
    cluster.update_job_status([], [], [], {"j0", "j1"}, [], 2)         # both collected
    cluster.mark_canceled()                                             # cancel-jobs: j2 is never submitted
    mgr._results = ResultsAggregator.list_results(str(d))
    mgr.write_results_summary("results.json", ["j2"])
    cluster.mark_complete()                                             # forced completion (no active HPC job)
    cluster.demote_from_submitter()


def run(d, *args):
    try:
        resubmit_jobs.callback(str(d), *args)
        return "returned"
    except SystemExit as e:
        return f"exit {e.code}"
    except BaseException as e:  # noqa
        return f"raised {type(e).__name__}"


bad = False
if "a" in which:
    d = Path(tempfile.mkdtemp(prefix="f97-"))
    try:
        make(d)
        seen = {}
        orig = JobSubmitter.submit_jobs

        def spy(self, cluster, force_local=False):
            cfg = json.loads((d / "cluster_config.json").read_text())
            js = json.loads((d / "job_status.json").read_text())
            seen["cfg"] = cfg
            seen["states"] = [(j["name"], j["state"]) for j in js["jobs"]]
            return orig(self, cluster, force_local=force_local)
        JobSubmitter.submit_jobs = spy
        try:
            out = run(d, True, False, False, None, False)        # --failed --no-missing --no-successful
        finally:
            JobSubmitter.submit_jobs = orig
        cfg = json.loads((d / "cluster_config.json").read_text())
        batch = [j["name"] for j in json.loads((d / "config_batch_2.json").read_text())["jobs"]] if (d / "config_batch_2.json").exists() else None
        states = seen.get("states")
        n_sub = sum(1 for _, s in states if s != "not_submitted")
        print(f"(a) {out}; state written by prepare_for_resubmission: {states}, submitted_jobs={seen['cfg']['submitted_jobs']} "
              f"(jobs submitted/done: {n_sub}), completed_jobs={seen['cfg']['completed_jobs']}")
        print(f"    batch created by the rerun: {batch}; afterwards submitted_jobs={cfg['submitted_jobs']} num_jobs={cfg['num_jobs']}")
        if seen["cfg"]["submitted_jobs"] != n_sub:
            print("    DEFECT: submitted_jobs does not count the SUBMITTED/DONE jobs")
            bad = True
        if batch and "j2" in batch:
            print("    DEFECT: the unselected, never-submitted job j2 is run by the rerun")
            bad = True
        if cfg["submitted_jobs"] > cfg["num_jobs"]:
            print("    DEFECT: submitted_jobs > num_jobs")
            bad = True
    finally:
        shutil.rmtree(d, ignore_errors=True)

if "b" in which:
    d = Path(tempfile.mkdtemp(prefix="f97b-"))
    try:
        make(d)
        g = d.parent / (d.name + "-groups.json")
        g.write_text("{not json")
        rows_before = (d / "processed_results.csv").read_bytes()
        out1 = run(d, True, True, False, str(g), False)
        sub1 = json.loads((d / "cluster_config.json").read_text())["submitter"]
        out2 = run(d, True, True, False, None, False)
        sub2 = json.loads((d / "cluster_config.json").read_text())["submitter"]
        same = (d / "processed_results.csv").read_bytes() == rows_before
        print(f"(b) malformed groups file: {out1}, submitter afterwards {sub1!r}, results untouched: {same}; "
              f"plain resubmit-jobs afterwards: {out2}, submitter {sub2!r}")
        g.unlink()
    finally:
        shutil.rmtree(d, ignore_errors=True)
sys.exit(1 if bad else 0)
