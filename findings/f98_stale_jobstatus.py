"""9.8 / C10: a handle with a current config version but an out-of-date job-status version gets
JobStatusVersionMismatch only AFTER cluster_config.json and config_version.txt were rewritten.
Run: PYTHONPATH=/repo JADE_REGISTRY=/tmp/x.json /venv/bin/python findings/f98_stale_jobstatus.py"""
import sys, tempfile, shutil, logging, os
from pathlib import Path
logging.disable(logging.CRITICAL)
from jade.extensions.generic_command import GenericCommandConfiguration, GenericCommandParameters
from jade.models import HpcConfig, SubmitterParams
from jade.jobs.cluster import Cluster, JobStatusVersionMismatch, ConfigVersionMismatch

d = Path(tempfile.mkdtemp(prefix="f98-"))
try:
    params = SubmitterParams(hpc_config=HpcConfig(hpc_type="slurm", hpc={"account": "a"}))
    config = GenericCommandConfiguration()
    config.add_job(GenericCommandParameters(command="true", name="A"))
    config.add_job(GenericCommandParameters(command="true", name="B"))
    config.assign_default_submission_group(params)
    c0 = Cluster.create(str(d), config)
    c0.update_job_status([c0.job_status.jobs[0]], [], [], set(), ["1"], 2)
    c0.demote_from_submitter()
    a, promoted = Cluster.deserialize(str(d), try_promote_to_submitter=True, deserialize_jobs=True)
    assert promoted
    b, _ = Cluster.deserialize(str(d), deserialize_jobs=True)   # loaded after a's promotion: same config version
    b.complete_hpc_job_id("1")                                    # bumps only the job-status version
    files = ["cluster_config.json", "config_version.txt", "job_status.json", "job_status_version.txt"]
    before = {f: (d / f).read_bytes() for f in files}
    try:
        a.update_job_status([], [], [], {"A"}, [], 2)
        raised = None
    except (JobStatusVersionMismatch, ConfigVersionMismatch) as e:
        raised = type(e).__name__
    after = {f: (d / f).read_bytes() for f in files}
    changed = [f for f in files if before[f] != after[f]]
    print("raised:", raised, "files changed by the rejected write:", changed)
    sys.exit(1 if (raised and changed) or not raised else 0)
finally:
    shutil.rmtree(d, ignore_errors=True)
