"""C19 observations (not failing the check; outside the quantifier / platform the check fixes).
Run: PYTHONPATH=/repo /venv/bin/python findings/f99_command_launch.py [a|b|c]   (exit 1 = behaviour present)

 a) `AsyncCliCommand.run` chooses POSIX splitting with `"win" not in sys.platform`.  "darwin" (macOS) and
    "cygwin" contain "win": there the command is split with posix=False, quotes stay in the arguments.
 b) The pydantic model strips leading/trailing whitespace of `command`.  A command that ends in an escaped
    space (`printf %s a\\ `) loses the space and keeps the backslash: alone it raises ValueError("No escaped
    character") on the compute node; with an append_* flag the backslash escapes the separator and the flag
    is glued to the user's last argument.
 c) Job names / output paths are interpolated unquoted (DESIGN 9.10): a name with a space yields two arguments.
"""
import os
import sys
import tempfile
import types

import jade.jobs.async_cli_command as acc
from jade.extensions.generic_command.generic_command_execution import GenericCommandExecution
from jade.extensions.generic_command.generic_command_parameters import GenericCommandParameters


class P:
    last = None

    def __init__(self, args, **kw):
        P.last = list(args)
        self.returncode = 0

    def poll(self):
        return 0


def argv_of(job, cmd, platform="linux"):
    d = tempfile.mkdtemp()
    os.makedirs(os.path.join(d, "job-stdio"))
    os.makedirs(os.path.join(d, "results"))
    saved = (acc.subprocess, acc.sys)
    acc.subprocess = types.SimpleNamespace(Popen=P, PIPE=-1)
    acc.sys = types.SimpleNamespace(platform=platform)
    try:
        c = acc.AsyncCliCommand(job, cmd, d, 1, True, None)
        try:
            c.run()
        except ValueError as e:
            return f"ValueError: {e}"
        c.is_complete()
        return P.last
    finally:
        acc.subprocess, acc.sys = saved


which = sys.argv[1] if len(sys.argv) > 1 else "abc"
present = False
if "a" in which:
    job = GenericCommandParameters(command="echo 'a b'", name="j", job_id=1)
    for plat in ("linux", "darwin", "cygwin"):
        got = argv_of(job, job.command, plat)
        print(f"a) sys.platform={plat!r}: echo 'a b' -> {got}")
        present |= got != ["echo", "a b"]
if "b" in which:
    job = GenericCommandParameters(command="printf %s a\\ ", name="j", job_id=1, append_job_name=True)
    print(f"b) configured 'printf %s a\\\\ ' is stored as {job.command!r}")
    print("   alone     ->", argv_of(job, job.command))
    cmd = GenericCommandExecution.generate_command(job, "/o/job-outputs", "c.json")
    got = argv_of(job, cmd)
    print("   with flag ->", got)
    present |= got != ["printf", "%s", "a ", "--jade-job-name=j"]
if "c" in which:
    job = GenericCommandParameters(command="echo", name="a b", job_id=1, append_job_name=True)
    got = argv_of(job, GenericCommandExecution.generate_command(job, "/o/job-outputs", "c.json"))
    print("c) name 'a b' ->", got)
    present |= got != ["echo", "--jade-job-name=a b"]
sys.exit(1 if present else 0)
