"""C11: a failure of the initial submitter while creating processed_results.csv (lock timeout / quota) leaves
a submission without the consolidated results file; the documented recovery (try-submit-jobs) then runs
normally, but the first collection creates the file WITHOUT a header line: the first collected result is
swallowed as the header and every later reader fails with KeyError('return_code') -> the submission can
never complete and that job's result is unreadable.
Run: PYTHONPATH=/repo JADE_REGISTRY=/tmp/x.json /venv/bin/python findings/f9c_missing_results_header.py"""
import sys, tempfile, shutil, logging
from pathlib import Path
logging.disable(logging.CRITICAL)
from jade.jobs.results_aggregator import ResultsAggregator
from jade.result import Result
from jade.enums import JobCompletionStatus

d = Path(tempfile.mkdtemp(prefix="f9c-"))
try:
    (d / "results").mkdir()
    # ResultsAggregator.create(output) never ran (the initial submit-jobs failed there).  A node writes results:
    ResultsAggregator.append(str(d), Result("j1", 0, JobCompletionStatus.FINISHED, 1.0, hpc_job_id="100"), batch_id=1)
    ResultsAggregator.append(str(d), Result("j2", 5, JobCompletionStatus.FINISHED, 1.0, hpc_job_id="100"), batch_id=1)
    # a submitter round collects them
    got = ResultsAggregator.load(str(d)).process_results()
    try:
        names = sorted(r.name for r in ResultsAggregator.list_results(str(d)))
        err = None
    except Exception as e:
        names, err = None, repr(e)
    print("collected", sorted(r.name for r in got), "; list_results ->", names, err)
    print("first line of processed_results.csv:", (d / "processed_results.csv").read_text().split("\n")[0])
    sys.exit(0 if names == ["j1", "j2"] else 1)
finally:
    shutil.rmtree(d, ignore_errors=True)
