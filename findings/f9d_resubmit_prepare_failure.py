"""C13 (also C09): a write failure inside Cluster.prepare_for_resubmission wedges the submission.

Two independent jobs, j0 succeeded, j1 failed, submission complete.  `resubmit-jobs` (default flags) selects j1,
erases its row from processed_results.csv, then prepare_for_resubmission mutates the in-memory config
(is_complete=False, is_canceled=False, submitted_jobs=1, completed_jobs=1) and fails at its first (`_serialize`) or
second (`_serialize_jobs`) write — an OSError such as a quota or filesystem error.  The `finally:
cluster.demote_from_submitter()` then serialises the already mutated config, while job_status.json still says that
both jobs are DONE.  Afterwards
  * every try-submit-jobs dies on `assert completed_jobs == num_jobs` in Cluster._are_all_jobs_complete (under the
    cluster lock), and
  * resubmit-jobs refuses (exit 1: "requires that the existing submission be complete"),
so the result of j1 is erased and no documented command can make progress: "results erased and no way forward".
The submitter role IS released (that part of the 5f4918d fix works).

Lean: Jade.C13.prepare_write_failure_witness (decide), failure_leaves_way_forward (every other failure point leaves
a way forward; this one is excluded by hypothesis).  Known finding key: resubmit.prepare_failure.wedged.

Run: PYTHONPATH=/repo JADE_REGISTRY=/tmp/x.json /venv/bin/python findings/f9d_resubmit_prepare_failure.py
Exit status 1 = defect present."""
import json
import logging
import os
import shutil
import sys
import tempfile
from pathlib import Path

logging.disable(logging.CRITICAL)
import jade.utils.run_command as rc  # noqa: E402
from jade.extensions.generic_command import GenericCommandConfiguration, GenericCommandParameters  # noqa: E402
from jade.models import HpcConfig, SubmitterParams  # noqa: E402
from jade.jobs.cluster import Cluster  # noqa: E402
from jade.jobs.job_submitter import JobSubmitter  # noqa: E402
from jade.jobs.results_aggregator import ResultsAggregator  # noqa: E402
from jade.result import Result  # noqa: E402
from jade.cli.resubmit_jobs import resubmit_jobs  # noqa: E402
from jade.cli.try_submit_jobs import try_submit_jobs  # noqa: E402
from jade.enums import JobCompletionStatus  # noqa: E402


class FakePopen:
    def __init__(self, cmd, **kw):
        self.cmd = cmd
        self.returncode = None

    def communicate(self):
        self.returncode = 0
        if self.cmd[0] == "sbatch":
            return b"Submitted batch job 77\n", b""
        return b"", b""


class FakeSub:
    PIPE = -1
    Popen = FakePopen

    @staticmethod
    def call(cmd, **kw):
        return 0


rc.subprocess = FakeSub
os.environ.setdefault("USER", "u")
JobSubmitter._save_repository_info = lambda self, registry: None


def make(d):
    params = SubmitterParams(hpc_config=HpcConfig(hpc_type="slurm", hpc={"account": "a"}), generate_reports=False,
                             resource_monitor_type="none")
    config = GenericCommandConfiguration()
    config.add_job(GenericCommandParameters(command="true", name="j0"))
    config.add_job(GenericCommandParameters(command="false", name="j1"))
    config.assign_default_submission_group(params)
    mgr = JobSubmitter.create(config, output=str(d))
    cluster = Cluster.create(str(d), mgr.config)
    agg = ResultsAggregator.create(str(d))
    agg.append_result(Result("j0", 0, JobCompletionStatus.FINISHED, 1.5, 1700000000.0, hpc_job_id="11"))
    agg.append_result(Result("j1", 1, JobCompletionStatus.FINISHED, 1.5, 1700000001.0, hpc_job_id="11"))
    cluster.update_job_status(list(cluster.job_status.jobs), [], [], set(), ["11"], 2)
    cluster.update_job_status([], [], [], {"j0", "j1"}, [], 2)
    mgr._results = ResultsAggregator.list_results(str(d))
    mgr.write_results_summary("results.json", [])
    cluster.mark_complete()
    cluster.demote_from_submitter()


def run(fn, *args):
    try:
        fn(*args)
        return "returned"
    except SystemExit as e:
        return f"exit {e.code}"
    except BaseException as e:  # noqa
        return f"raised {type(e).__name__}"


bad = False
for which in ("_serialize", "_serialize_jobs"):
    d = Path(tempfile.mkdtemp(prefix="f9d-"))
    try:
        make(d)
        orig = getattr(Cluster, which)

        def failing(self, reason, orig=orig):
            if reason == "prepare_for_resubmission":
                raise OSError(28, "No space left on device (injected)")
            return orig(self, reason)
        setattr(Cluster, which, failing)
        try:
            o1 = run(resubmit_jobs.callback, str(d), True, True, False, None, False)
        finally:
            setattr(Cluster, which, orig)
        cfg = json.loads((d / "cluster_config.json").read_text())
        js = json.loads((d / "job_status.json").read_text())
        rows = [l.split(",")[0] for l in (d / "processed_results.csv").read_text().strip().splitlines()[1:]]
        o2 = run(try_submit_jobs.callback, str(d), False)
        o3 = run(resubmit_jobs.callback, str(d), True, True, False, None, False)
        o4 = run(try_submit_jobs.callback, str(d), False)
        print(f"failure in Cluster.{which}: resubmit-jobs -> {o1}; rows left {rows}; submitter={cfg['submitter']!r} "
              f"is_complete={cfg['is_complete']} completed_jobs={cfg['completed_jobs']} submitted_jobs={cfg['submitted_jobs']} "
              f"job states {[j['state'] for j in js['jobs']]}")
        print(f"    then try-submit-jobs -> {o2}; resubmit-jobs -> {o3}; try-submit-jobs again -> {o4}")
        if "j1" not in rows and o2.startswith("raised") and o3 != "exit 0" and o4.startswith("raised"):
            print("    DEFECT: the result of j1 is erased and neither command can make progress")
            bad = True
    finally:
        shutil.rmtree(d, ignore_errors=True)
sys.exit(1 if bad else 0)
