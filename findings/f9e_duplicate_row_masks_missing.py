"""C11 / C12 (observation on the unchanged code, found by the system suite once the single fault of `faults` mode may
strike in ANY round, not mostly the first): a submitter that fails or dies inside ResultsAggregator._move_results
between the copy into processed_results.csv and os.remove(node file) leaves the rows in both places; the next round
stores them again (documented: duplicates are allowed after such a crash, no row is lost).  But
JobSubmitter._handle_completion only looks for missing jobs when len(results) != num_jobs: with ONE duplicate row and
ONE job that never produced a result the counts are equal, results.json says "missing_jobs": [] and the tallies add up
to num_jobs - the job that never ran is silently dropped (and the duplicated job is counted twice).
C11's statement is about double submission / order / rows on disk (all fine here); C12's "never silently dropped"
is quantified over batch failures, not over submitter failures.  The system model computes the missing list from the
jobs without a row, so model and code disagree on exactly these histories: `SystemSuite.diff` compares only the rows of
a summary (not the missing list) when the consolidated file holds a duplicate.
Run: PYTHONPATH=/repo /venv/bin/python findings/f9e_duplicate_row_masks_missing.py"""
import json, shutil, sys, tempfile
from pathlib import Path
sys.path.insert(0, str(Path(__file__).resolve().parent.parent / "harness"))
import jadeenv
from jade.jobs.job_submitter import JobSubmitter
from jade.jobs.results_aggregator import ResultsAggregator as RA
from jade.result import Result

out = Path(tempfile.mkdtemp(prefix="jadeverif-dupmiss-")) / "out"
out.mkdir()
sc = {"jobs": [{"id": k, "group": 0, "est": 1, "blockers": [], "cancel": False} for k in range(3)],
      "groups": [{"batchSize": 1, "timeBased": False, "tryAdd": False, "wallSec": 3600, "procs": None, "dryRun": False}], "maxNodes": None}
jadeenv.no_repo_info()
mgr = JobSubmitter.create(jadeenv.make_config(sc), str(out))
RA.create(out)
agg = RA.load(out)
# j0's rows were copied twice (crash between copy and removal, then the next round), j1 finished, j2 never ran
for name in ("j0", "j0", "j1"):
    agg.append_result(Result(name, 0, "finished", 1.5, 1700000000.5, None))


class Stub:                      # the parts of Cluster that _handle_completion touches
    class config:
        pipeline_stage_num = None

    def mark_complete(self):
        pass


status = mgr._handle_completion(Stub())
data = json.loads((out / "results.json").read_text())
print("rows on disk:", [r.name for r in RA.list_results(out)])
print("returned status:", status, " missing_jobs:", data["missing_jobs"], " summary:", data["results_summary"])
bad = "j2" not in data["missing_jobs"]
print("OBSERVATION: job j2 has no result and is NOT reported missing" if bad else "j2 is reported missing")
shutil.rmtree(out.parent)
sys.exit(1 if bad else 0)
