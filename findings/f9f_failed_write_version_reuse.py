"""C10: a Cluster handle whose version-file write FAILED keeps the bumped version number in memory; when another
process later writes that very number, the handle's out-of-date copy passes the version compare and overwrites it.

`_serialize` does `self._config.version += 1` and only then `_serialize_config_version()` (likewise `_serialize_jobs`).
If that write raises (OSError: quota exceeded, a hiccup of the shared filesystem) the exception reaches the caller,
nothing is on disk, and the in-memory `config.version` is one AHEAD of config_version.txt.  The handle is refused from
then on (its version differs from the file) - until any other process has performed exactly one config write: the file
then holds the number the failed handle has in memory, `_serialize` accepts the handle, and the newer
cluster_config.json is replaced by the failed handle's copy (here: the role is taken from under the new submitter).

Run: PYTHONPATH=/repo JADE_REGISTRY=/tmp/x.json /venv/bin/python findings/f9f_failed_write_version_reuse.py
exit 1 = the out-of-date handle was accepted (defect present), exit 0 = it was refused."""
import errno, json, logging, os, shutil, socket, sys, tempfile
from pathlib import Path
logging.disable(logging.CRITICAL)
from jade.extensions.generic_command import GenericCommandConfiguration, GenericCommandParameters
from jade.models import HpcConfig, SubmitterParams
from jade.jobs.cluster import Cluster, ConfigVersionMismatch

d = Path(tempfile.mkdtemp(prefix="f9f-"))
host = ["node1"]
socket.gethostname = lambda: host[0]


def clear_marker():
    f = d / Cluster.LOCK_FILE          # the deadlock marker JADE leaves after an exception under the lock
    if f.exists():
        f.unlink()


try:
    params = SubmitterParams(hpc_config=HpcConfig(hpc_type="slurm", hpc={"account": "a"}))
    config = GenericCommandConfiguration()
    config.add_job(GenericCommandParameters(command="true", name="A"))
    config.add_job(GenericCommandParameters(command="true", name="B"))
    config.assign_default_submission_group(params)
    a = Cluster.create(str(d), config)                      # node1 is the submitter; config version 1

    # 1. node1's demotion: the write of config_version.txt fails once (EDQUOT); the caller catches the error
    orig = Cluster._serialize_config_version
    def failing(self):
        Cluster._serialize_config_version = orig
        raise OSError(errno.EDQUOT, "Disk quota exceeded")
    Cluster._serialize_config_version = failing
    try:
        a.demote_from_submitter()
    except OSError as e:
        print("demote_from_submitter raised", type(e).__name__, "- in memory: version", a.config.version,
              "submitter", a.config.submitter, "| config_version.txt:", (d / "config_version.txt").read_text().strip())
    clear_marker()
    # 2. the handle is refused now (2 != 1): fine
    try:
        a.serialize("probe")
        print("unexpected: accepted")
    except ConfigVersionMismatch as e:
        print("serialize by the failed handle: ConfigVersionMismatch", e)
    clear_marker()
    # 3. another process writes the config once (status tooling, another node: any config write)
    host[0] = "node2"
    b, _ = Cluster.deserialize(str(d), deserialize_jobs=True)
    b.mark_canceled()                                       # config version 2 on disk, is_canceled = True
    before = json.loads((d / "cluster_config.json").read_text())
    print("disk after node2's write: version", before["version"], "is_canceled", before["is_canceled"], "submitter", before["submitter"])
    # 4. the failed handle (copy of version 1, never saw node2's write) writes again
    host[0] = "node1"
    try:
        a.serialize("retry")
        accepted = True
    except ConfigVersionMismatch as e:
        accepted = False
        print("refused:", e)
    after = json.loads((d / "cluster_config.json").read_text())
    print("disk after the failed handle's write: version", after["version"], "is_canceled", after["is_canceled"], "submitter", after["submitter"])
    lost = accepted and before["is_canceled"] and not after["is_canceled"]
    print("DEFECT: out-of-date handle accepted, node2's mark_canceled lost" if lost else "ok: refused")
    sys.exit(1 if lost else 0)
finally:
    shutil.rmtree(d, ignore_errors=True)
