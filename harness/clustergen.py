"""Case generators for the `cluster` suite (pure data; every random choice from `rng`).

A case: {"op": "cluster.run", "kind": …, "host": creator host, "breakStale": bool,
         "jobs": [{"blockers": [ids], "cancel": bool}], "ops": [op, …]}      (≤ 40 ops, ≤ 4 handles, ≤ 3 hosts)
ops: see `parseClusterOp` / `parseClusterTOp` in lean/Driver/Cluster.lean; `{"k": "crash", "op": <api op>, "after": k, "lockGone": b}`
kills the process performing `op` right before its (k+1)-th file write (see suites/cluster.py); with `"torn": true` it is killed
INSIDE that write: a version file is left EMPTY, for a data file the flag degenerates to the plain crash.

`{"k": "failWrite", "op": <api op>, "after": k}`: the (k+1)-th file write of the call raises OSError, the handle lives on;
`{"k": "stallBegin", "h": h, "op": <api op>, "after": k}` / `{"k": "stallEnd", "h": h}`: the call parks right before its (k+1)-th
file write, alive and inside its lock section, until `stallEnd` (`parseClusterFOp`).

`Sim` is a light-weight stand-in for a sequence of submitter rounds; it only serves to produce operation sequences that
respect the role protocol and carry well-formed `update_job_status` arguments (as HpcSubmitter.run produces them).  Whether
a run really respected the protocol is decided by the suite from the real return values, not by this module.
"""

MAX_OPS = 40


def gen_jobs(rng, nmax=6):
    n = rng.choice([1, 2, 2, 3, 3, 4, 4, 5, nmax])
    p = rng.choice([0, .2, .4, .6])
    order = list(range(n))
    rng.shuffle(order)
    pos = {j: i for i, j in enumerate(order)}
    jobs = []
    for k in range(n):
        blockers = sorted(b for b in range(n) if b != k and pos[b] < pos[k] and rng.random() < p)
        jobs.append({"blockers": blockers, "cancel": rng.random() < .5})
    return jobs


def upd(h, submitted=(), blocked=(), canceled=(), completed=(), hpcIds=(), batchIdx=1):
    return {"k": "update", "h": h, "submitted": list(submitted), "blocked": [{"j": j, "by": sorted(by)} for j, by in blocked],
            "canceled": list(canceled), "completed": list(completed), "hpcIds": list(hpcIds), "batchIdx": batchIdx}


class Sim:
    def __init__(self, rng, jobs, host, break_stale):
        self.rng = rng
        self.jobs = jobs
        self.n = len(jobs)
        self.state = ["n"] * self.n
        self.rem = [set(j["blockers"]) for j in jobs]
        self.failed = set()
        self.holder = 0
        self.mem_sub = {0: host}     # what each handle's in-memory submitter field says (host or None)
        self.hosts = {0: host}
        self.hpc = []
        self.batch = 1
        self.next_hpc = 100
        self.complete = False
        self.canceled = False
        self.break_stale = break_stale
        self.wedged = False
        self.ops = []

    def emit(self, op):
        self.ops.append(op)

    def free_slot(self):
        c = [h for h in range(4) if h != self.holder]
        return self.rng.choice(c)

    def distract(self):
        """operations of processes that do not hold the role"""
        r = self.rng.random()
        if r < .35:
            self.emit({"k": "read"})
        elif r < .6:
            h = self.free_slot()
            host = self.rng.randrange(3)
            self.emit({"k": "load", "h": h, "host": host, "promote": False, "jobs": self.rng.random() < .6})
            self.hosts[h] = host
            self.mem_sub[h] = self.hosts.get(self.holder) if self.holder is not None else None
        elif r < .85:
            self.try_promote_load()
        elif r < .93:
            c = [h for h in self.mem_sub if h != self.holder]
            if c:
                self.emit({"k": self.rng.choice(["deserializeJobs", "allComplete"]), "h": self.rng.choice(c)})
        else:
            # an old handle calls promote_to_submitter(): refused if its copy says "held", else (stale copy) a
            # version mismatch under the lock, which leaves the deadlock marker
            c = [h for h in self.mem_sub if h != self.holder]
            if c and self.holder is not None:
                h = self.rng.choice(c)
                self.emit({"k": "promote", "h": h})
                if self.mem_sub[h] is None:
                    self.mem_sub[h] = self.hosts[h]
                    self.marker_left()

    def marker_left(self):
        if self.break_stale:
            self.emit({"k": "breakMarker"})
        else:
            self.wedged = True

    def try_promote_load(self):
        h = self.free_slot()
        host = self.rng.randrange(3)
        self.emit({"k": "load", "h": h, "host": host, "promote": True, "jobs": True})
        self.hosts[h] = host
        if self.holder is None:
            self.holder = h
            self.mem_sub[h] = host
            return True
        self.mem_sub[h] = self.hosts[self.holder]
        return False

    def round(self, finish_p=.6, submit=True):
        """one submitter round by the current holder (which has the job status loaded)"""
        rng, h = self.rng, self.holder
        newly = [j for j in range(self.n) if self.state[j] == "s" and rng.random() < finish_p]
        for j in newly:
            if rng.random() < .35:
                self.failed.add(j)
        done_now = set(newly)
        canceled = []
        again = True
        while again:
            again = False
            for j in range(self.n):
                if self.state[j] == "n" and self.rem[j] and j not in canceled:
                    if self.jobs[j]["cancel"] and self.rem[j] & self.failed & done_now:
                        self.emit({"k": "memCancel", "h": h, "j": j})
                        canceled.append(j)
                        done_now.add(j)
                        self.failed.add(j)
                        again = True
                    elif self.rem[j] & done_now:
                        self.emit({"k": "memUnblock", "h": h, "j": j, "done": sorted(done_now)})
                        self.rem[j] -= done_now
        submitted, blocked = [], []
        if submit and not self.canceled:
            for j in range(self.n):
                if self.state[j] == "n" and j not in canceled:
                    if not self.rem[j] and rng.random() < .7:
                        submitted.append(j)
                    elif self.rem[j]:
                        blocked.append((j, set(self.rem[j])))
            # try-add-blocked: a blocked job goes into the same batch as all of its remaining blockers
            if rng.random() < .5:
                for j, by in list(blocked):
                    if by <= set(submitted) and rng.random() < .7:
                        submitted.append(j)
                        blocked.remove((j, by))
        if submitted:
            self.hpc = self.hpc + [self.next_hpc]
            self.next_hpc += 1
            self.batch += 1
        if rng.random() < .3 and self.hpc and not any(self.state[j] == "s" for j in range(self.n) if j not in newly):
            self.hpc = self.hpc[1:]
        completed = list(newly) + canceled
        rng.shuffle(completed)
        if completed or submitted or blocked or rng.random() < .3:
            self.emit(upd(h, submitted, blocked, canceled, completed, self.hpc, self.batch))
        for j in submitted:
            self.state[j] = "s"
            self.rem[j] = set()
        for j in completed:
            self.state[j] = "d"
            self.rem[j] = set()
        if rng.random() < .5:
            self.emit({"k": "allComplete", "h": h})
        alldone = all(s == "d" for s in self.state)
        nothing_active = not any(s == "s" for s in self.state)
        if not self.complete and (alldone or (nothing_active and (self.canceled or rng.random() < .1))):
            self.emit({"k": "markComplete", "h": h})
            self.complete = True
            if rng.random() < .12:
                # a second mark_complete: AssertionError under the lock
                self.emit({"k": "markComplete", "h": h})
                self.marker_left()

    def node_end(self):
        """a compute node finishes its batch: load+promote, complete_hpc_job_id, round, demote"""
        if self.hpc and self.rng.random() < .6:
            i = self.rng.randrange(len(self.hpc))
            self.emit({"k": "completeHpcId", "h": self.holder, "id": self.hpc[i]})
            self.hpc = self.hpc[:i] + self.hpc[i + 1:]

    def demote(self):
        self.emit({"k": "demote", "h": self.holder})
        self.mem_sub[self.holder] = None
        self.holder = None

    def resubmit(self, no_missing):
        rng, h = self.rng, self.holder
        cand = [j for j in range(self.n) if self.state[j] == "d" and (j in self.failed or rng.random() < .3)]
        missing = [j for j in range(self.n) if self.state[j] != "d"]
        sel = set(cand) | (set() if no_missing else set(missing))
        blockers = {}
        for _ in range(self.n):
            first = len(sel)
            for j in range(self.n):
                inter = set(self.jobs[j]["blockers"]) & sel
                if inter:
                    blockers[j] = inter
                    sel.add(j)
            if len(sel) == first:
                break
        self.emit({"k": "prepareResubmit", "h": h, "sel": sorted(sel), "blockers": [{"j": j, "by": sorted(b)} for j, b in sorted(blockers.items())]})
        for j in sel:
            self.state[j] = "n"
            self.rem[j] = set(blockers.get(j, set()))
            self.failed.discard(j)
        self.complete = False
        self.canceled = False


def protocol_ops(rng, jobs, host, break_stale, resubmit=False, budget=MAX_OPS):
    s = Sim(rng, jobs, host, break_stale)
    s.round(submit=True)
    while len(s.ops) < budget - 6 and not s.wedged:
        r = rng.random()
        if s.holder is None:
            if s.complete and resubmit and rng.random() < .7:
                if s.try_promote_load():
                    s.resubmit(no_missing=rng.random() < .4)
                    s.round(finish_p=0)
                    if rng.random() < .8:
                        s.demote()
                continue
            if s.complete and rng.random() < .5:
                s.distract()
                if rng.random() < .5:
                    break
                continue
            if r < .75:
                if s.try_promote_load():
                    if rng.random() < .4:
                        s.node_end()
                    if not s.complete:
                        s.round()
                    if rng.random() < .9:
                        s.demote()
            else:
                s.distract()
        else:
            if r < .3:
                s.distract()
            elif r < .45 and not s.canceled and not s.complete:
                s.emit({"k": "markCanceled", "h": s.holder})
                s.canceled = True
            elif r < .8:
                if not s.complete:
                    s.round()
                else:
                    s.demote()
            else:
                s.demote()
    return s.ops[:budget], s


def rand_update(rng, h, n):
    pick = lambda p: [j for j in range(n + (1 if rng.random() < .05 else 0)) if rng.random() < p]
    sub = pick(.3)
    if sub and rng.random() < .1:
        sub.append(sub[0])
    blk = [(j, sorted(b for b in range(n) if b != j and rng.random() < .4)) for j in pick(.2)]
    comp = pick(.3)
    can = [j for j in comp if rng.random() < .3] + ([rng.randrange(n)] if rng.random() < .1 else [])
    return upd(h, sub, blk, can, comp, [rng.randrange(100, 104) for _ in range(rng.randrange(3))], rng.randrange(1, 5))


def chaos_ops(rng, n, break_stale, length):
    ops = []
    kinds = ["load", "load", "promote", "demote", "update", "update", "markComplete", "markCanceled", "completeHpcId",
             "deserializeJobs", "allComplete", "prepareResubmit", "read", "breakMarker", "breakMarker", "forge", "rmCfg",
             "memCancel", "memUnblock"]
    for _ in range(length):
        k = rng.choice(kinds)
        h = rng.randrange(4)
        if k == "load":
            ops.append({"k": "load", "h": h, "host": rng.randrange(3), "promote": rng.random() < .5, "jobs": rng.random() < .7})
        elif k == "update":
            ops.append(rand_update(rng, h, n))
        elif k == "completeHpcId":
            ops.append({"k": k, "h": h, "id": rng.randrange(100, 104)})
        elif k == "prepareResubmit":
            sel = [j for j in range(n) if rng.random() < .5]
            ops.append({"k": k, "h": h, "sel": sel, "blockers": [{"j": j, "by": sorted(b for b in sel if b != j and rng.random() < .4)} for j in sel if rng.random() < .4]})
        elif k == "forge":
            if rng.random() < .25:
                ops.append({"k": rng.choice(["forgeCfgVer", "forgeJsVer"]), "n": rng.randrange(0, 8)})
        elif k == "rmCfg":
            if rng.random() < .15:
                ops.append({"k": "rmCfg"})
        elif k == "memCancel":
            ops.append({"k": k, "h": h, "j": rng.randrange(n + 1)})
        elif k == "memUnblock":
            ops.append({"k": k, "h": h, "j": rng.randrange(n + 1), "done": [j for j in range(n) if rng.random() < .5]})
        elif k in ("read", "breakMarker"):
            ops.append({"k": k})
        else:
            ops.append({"k": k, "h": h})
        if ops and rng.random() < .12 and ops[-1]["k"] in ("load", "promote", "demote", "update", "markComplete", "markCanceled",
                                                            "completeHpcId", "prepareResubmit"):
            ops[-1] = crash_of(rng, ops[-1])
    return ops


def stale_write(rng, h, n, sim):
    k = rng.choice(["update", "update", "markCanceled", "markComplete", "demote", "completeHpcId", "promote", "prepareResubmit"])
    if k == "update":
        if rng.random() < .5:
            subs = [j for j in range(n) if sim.state[j] == "n" and not sim.rem[j]][:2]
            return upd(h, subs, [], [], [], sim.hpc, sim.batch)
        return rand_update(rng, h, n)
    if k == "completeHpcId":
        return {"k": k, "h": h, "id": (sim.hpc or [100])[0]}
    if k == "prepareResubmit":
        return {"k": k, "h": h, "sel": [j for j in range(n) if rng.random() < .5], "blockers": []}
    return {"k": k, "h": h}


def crash_of(rng, inner, p_torn=.35):
    """the process performing `inner` is killed before its (k+1)-th file write; one lock section writes at most four files.
    With probability `p_torn` it is killed INSIDE that write ("torn"), mostly at a position where the unchanged code writes a
    version file (version file first, then data file; config pair before job-status pair): 0 = config_version.txt for every
    config writer (job_status_version.txt for complete_hpc_job_id, whose only pair is the job-status pair), 2 =
    job_status_version.txt for update / prepare_for_resubmission; sometimes 1 / 3 (a data file: degenerates to the plain crash)"""
    if rng.random() < p_torn:
        two_pairs = inner["k"] in ("update", "prepareResubmit")
        after = rng.choice([0, 0, 0, 2, 2, 1, 3] if two_pairs else [0, 0, 0, 0, 0, 1, 2])
        return {"k": "crash", "op": inner, "after": after, "lockGone": rng.random() < .7, "torn": True}
    return {"k": "crash", "op": inner, "after": rng.choice([0, 1, 1, 1, 1, 2, 2, 3]), "lockGone": rng.random() < .7}


def crash_case_ops(rng, jobs, host, brk):
    """A writer dies between the file writes of one lock hold; then OTHER handles act: one loaded long before (out of date
    by then), one loaded right before the crash (up to date until the dying writer's first write), and fresh ones."""
    n = len(jobs)
    early = rng.random() < .8
    pre = [{"k": "load", "h": 3, "host": rng.randrange(3), "promote": False, "jobs": rng.random() < .8}] if early else []
    ops, sim = protocol_ops(rng, jobs, host, brk, resubmit=rng.random() < .3, budget=rng.randrange(2, 22))
    ops = [o for o in pre + ops if not (o["k"] == "load" and o["h"] == 3 and o not in pre)]
    others = [3] if early else []
    if sim.holder != 0:
        others.append(0)        # the creator's handle after it gave up the role
    victim = sim.holder
    if rng.random() < .6:
        late = rng.choice([s for s in (1, 2) if s != sim.holder])
        ops.append({"k": "load", "h": late, "host": rng.randrange(3), "promote": False, "jobs": rng.random() < .7})
        others.append(late)
    if sim.holder is not None:
        a = sim.holder
        r = rng.random()
        subs = [j for j in range(n) if sim.state[j] == "n" and not sim.rem[j]][:2]
        comp = [j for j in range(n) if sim.state[j] == "s"][:1]
        if r < .3:
            inner = {"k": "demote", "h": a}
        elif r < .65:
            inner = upd(a, subs, [], [], comp, sim.hpc + ([sim.next_hpc] if subs else []), sim.batch + (1 if subs else 0))
        elif r < .75:
            inner = {"k": "markCanceled", "h": a}
        elif r < .85 and sim.hpc:
            inner = {"k": "completeHpcId", "h": a, "id": sim.hpc[0]}
        elif not sim.complete:
            inner = {"k": "markComplete", "h": a}
        else:
            inner = {"k": "prepareResubmit", "h": a, "sel": [j for j in range(n) if rng.random() < .6], "blockers": []}
    else:
        victim = rng.choice([s for s in (1, 2) if s not in others])
        inner = {"k": "load", "h": victim, "host": rng.randrange(3), "promote": True, "jobs": True}
    ops.append(crash_of(rng, inner))
    # after a kill INSIDE a file write the handles loaded before it (`others`) attempt writes more often: an empty version
    # file must stop every one of them, whether its copy is older than the contents or not
    torn = ops[-1].get("torn", False)
    if rng.random() < (.85 if torn else .6):
        ops.append({"k": "breakMarker"})
    free = [s for s in (1, 2) if s not in others] or [1]
    for _ in range(rng.randrange(2, 8)):
        r = rng.random()
        if r < (.6 if torn else .45) and others:
            ops.append(stale_write(rng, rng.choice(others), n, sim))
        elif r < .6:
            ops.append({"k": "load", "h": rng.choice(free), "host": rng.randrange(3), "promote": True, "jobs": True})
        elif r < .68:
            ops.append({"k": "read"})
        elif r < .8:
            ops.append({"k": "breakMarker"})
        elif r < .9 and others:
            ops.append(crash_of(rng, stale_write(rng, rng.choice(others), n, sim)))
        else:
            z = rng.choice(free)
            ops.append({"k": "load", "h": z, "host": rng.randrange(3), "promote": False, "jobs": rng.random() < .7})
            if z not in others:
                others.append(z)
    return ops


def bad_update(rng, h, n, sim):
    """an `update_job_status` call with legal-looking arguments that RAISES inside the locked update - after the version
    pre-check, before the first file write - and leaves the handle alive (its caller catches the exception and goes on):
    a job name that is not in the status file (KeyError from the name lookup in the submitted / blocked / completed loop,
    possibly after earlier elements were applied in memory), or one of the asserts (a job submitted twice, a completed job that
    was submitted or blocked in the same call, a blocked job that is not NOT_SUBMITTED)"""
    ns = [j for j in range(n) if sim.state[j] == "n" and not sim.rem[j]]
    ss = [j for j in range(n) if sim.state[j] == "s"]
    good_sub = ns[:rng.randrange(0, 2)]
    good_comp = ss[:rng.randrange(0, 2)]
    hpc, batch = sim.hpc + ([sim.next_hpc] if good_sub else []), sim.batch + (1 if good_sub else 0)
    mode = rng.choice(["key.submitted", "key.submitted", "key.completed", "key.completed", "key.blocked", "assert.twice",
                       "assert.completed_processed", "assert.blocked_state"])
    if mode == "key.submitted":
        return upd(h, good_sub + [n], [], [], good_comp, hpc, batch)
    if mode == "key.completed":
        return upd(h, good_sub, [], [], good_comp + [n + rng.randrange(2)], hpc, batch)
    if mode == "key.blocked":
        return upd(h, good_sub, [(n, [0])], [], good_comp, hpc, batch)
    if mode == "assert.twice":
        j = (ns or ss or [0])[0]
        return upd(h, [j, j], [], [], good_comp, hpc, batch)
    if mode == "assert.completed_processed":
        j = (ns or [0])[0]
        return upd(h, [j], [], [], [j], hpc, batch)
    j = (ss or [j for j in range(n) if sim.state[j] == "d"] or [0])[0]
    return upd(h, good_sub, [(j, [])], [], [], hpc, batch)


def good_write(rng, a, n, sim, holder):
    """a call that would succeed (for the role holder: what a round / a node's end does; for another handle: a promotion)"""
    subs = [j for j in range(n) if sim.state[j] == "n" and not sim.rem[j]][:2]
    comp = [j for j in range(n) if sim.state[j] == "s"][:1]
    if not holder:
        return rng.choice([{"k": "promote", "h": a}, {"k": "markCanceled", "h": a},
                           upd(a, subs, [], [], comp, sim.hpc + ([sim.next_hpc] if subs else []), sim.batch + (1 if subs else 0))])
    r = rng.random()
    if r < .5:
        return upd(a, subs, [], [], comp, sim.hpc + ([sim.next_hpc] if subs else []), sim.batch + (1 if subs else 0))
    if r < .7:
        return {"k": "demote", "h": a}
    if r < .8:
        return {"k": "markCanceled", "h": a}
    if r < .9 and sim.hpc:
        return {"k": "completeHpcId", "h": a, "id": sim.hpc[0]}
    if not sim.complete:
        return {"k": "markComplete", "h": a}
    return {"k": "demote", "h": a}


def fail_write_of(rng, inner):
    """one file write of the call raises OSError (quota, a hiccup of the shared filesystem): the (after+1)-th of the at most four
    of one lock section; the exception reaches the caller, which goes on using the handle"""
    op = {"k": "failWrite", "op": inner, "after": rng.choice([0, 0, 1, 1, 2, 3] if inner["k"] in ("update", "prepareResubmit") else [0, 0, 1, 1, 2])}
    if rng.random() < .25:
        op["torn"] = True       # the failing write of a version file had truncated it already: the file is left EMPTY
    return op


def failed_case_ops(rng, jobs, host, brk):
    """A call of a handle FAILS (raises) and the same handle is used afterwards: the failure leaves the handle's in-memory copy
    partly updated, the files partly written (a failed write) and the deadlock marker behind.  Then OTHER handles change the
    state, and the handle that failed writes again: it must be refused whenever its copy is out of date."""
    n = len(jobs)
    early = rng.random() < .4
    pre = [{"k": "load", "h": 3, "host": rng.randrange(3), "promote": False, "jobs": True}] if early else []
    ops, sim = protocol_ops(rng, jobs, host, brk, budget=rng.randrange(1, 14))
    ops = [o for o in pre + ops if not (o["k"] == "load" and o["h"] == 3 and o not in pre)]
    if sim.holder is not None and rng.random() < .7:
        a = sim.holder                      # the role holder fails in the middle of its work
    elif early:
        a = 3                               # a handle loaded long ago (may be out of date already: the failure is a rejection)
    else:
        a = rng.choice([q for q in (1, 2, 3) if q != sim.holder])
        ops.append({"k": "load", "h": a, "host": rng.randrange(3), "promote": False, "jobs": True})
    holder = a == sim.holder
    for _ in range(rng.choice([1, 1, 1, 2])):
        r = rng.random()
        if r < .5:
            ops.append(bad_update(rng, a, n, sim))
        elif r < .58:
            ops.append({"k": "completeHpcId", "h": a, "id": 99})        # list.remove of an unknown id: ValueError under the lock
        else:
            ops.append(fail_write_of(rng, good_write(rng, a, n, sim, holder)))
        ops.append({"k": "breakMarker"})
    if rng.random() < .3:
        ops.append(good_write(rng, a, n, sim, holder))                  # the caller retries at once
        ops.append({"k": "breakMarker"})
    # ---- the others change the state
    if holder:
        if rng.random() < .8:
            ops.append({"k": "demote", "h": a})
            ops.append({"k": "breakMarker"})
    elif sim.holder is not None:
        b = sim.holder
        ops.append(good_write(rng, b, n, sim, True))
        if rng.random() < .5:
            ops.append({"k": "demote", "h": b})
    b = rng.choice([q for q in (1, 2) if q != a] or [1])
    for _ in range(rng.choice([1, 1, 2])):
        ops.append({"k": "load", "h": b, "host": rng.randrange(3), "promote": True, "jobs": True})
        subs = [j for j in range(n) if sim.state[j] == "n" and not sim.rem[j]][:2]
        comp = [j for j in range(n) if sim.state[j] == "s"][:1]
        w = rng.random()
        if w < .7:
            ops.append(upd(b, subs, [], [], comp, sim.hpc + [sim.next_hpc + 7], sim.batch + 1))
        elif w < .85:
            ops.append({"k": "markCanceled", "h": b})
        if rng.random() < .5:
            ops.append({"k": "demote", "h": b})
    # ---- the handle that failed goes on
    for _ in range(rng.randrange(1, 5)):
        ops.append(stale_write(rng, a, n, sim))
        if rng.random() < .85:
            ops.append({"k": "breakMarker"})
        if rng.random() < .25:
            ops.append({"k": "read"})
    return ops


def stall_case_ops(rng, jobs, host, brk):
    """A LIVE process stays inside its lock section for a long time (a hung write on the shared filesystem): `stallBegin` parks
    the call right before one of its file writes, the OTHER handles act (each must time out at the lock and change nothing,
    however old the lock file is), `stallEnd` lets the call finish."""
    n = len(jobs)
    early = rng.random() < .6
    pre = [{"k": "load", "h": 3, "host": rng.randrange(3), "promote": False, "jobs": rng.random() < .8}] if early else []
    ops, sim = protocol_ops(rng, jobs, host, brk, budget=rng.randrange(1, 16))
    ops = [o for o in pre + ops if not (o["k"] == "load" and o["h"] == 3 and o not in pre)]
    others = [3] if early else []
    if sim.holder != 0:
        others.append(0)
    if sim.holder is not None and rng.random() < .55:
        a = sim.holder
        inner = good_write(rng, a, n, sim, True)
    else:
        if sim.holder is not None:
            ops.append({"k": "demote", "h": sim.holder})
            if sim.holder not in others:
                others.append(sim.holder)
        a = rng.choice([q for q in (1, 2) if q not in others] or [1])
        if a in others:
            others.remove(a)
        inner = {"k": "load", "h": a, "host": rng.randrange(3), "promote": True, "jobs": True}
    ops.append({"k": "stallBegin", "h": a, "op": inner, "after": rng.choice([0, 0, 0, 1, 1, 2, 3])})
    free = [q for q in (1, 2, 3) if q != a and q not in others] or [q for q in (1, 2, 3) if q != a]

    def other_op():
        r = rng.random()
        if r < .4:
            return {"k": "load", "h": rng.choice(free), "host": rng.randrange(3), "promote": True, "jobs": True}
        if r < .7 and others:
            w = stale_write(rng, rng.choice(others), n, sim)
            return w if w["k"] != "prepareResubmit" else {"k": "promote", "h": w["h"]}
        if r < .8:
            return {"k": "read"}
        if r < .9:
            return {"k": "breakMarker"}
        return {"k": "load", "h": rng.choice(free), "host": rng.randrange(3), "promote": False, "jobs": rng.random() < .7}
    for _ in range(rng.randrange(1, 5)):
        ops.append(other_op())
    ops.append({"k": "stallEnd", "h": a})
    for _ in range(rng.randrange(1, 5)):
        r = rng.random()
        if r < .25:
            ops.append({"k": "read"})
        elif r < .45:
            ops.append(good_write(rng, a, n, sim, True))
        else:
            ops.append(other_op())
    return ops


def gen_case(rng):
    jobs = gen_jobs(rng)
    n = len(jobs)
    host = rng.randrange(3)
    brk = rng.random() < .6
    kind = rng.choice(["protocol", "protocol", "protocol", "resubmit", "resubmit", "stale", "stale", "stale", "jsstale", "samehost", "chaos", "chaos",
                       "crash", "crash", "crash", "crash", "failed", "failed", "failed", "stall", "stall"])
    if kind == "crash":
        ops = crash_case_ops(rng, jobs, host, brk)
    elif kind == "failed":
        brk = brk or rng.random() < .7
        ops = failed_case_ops(rng, jobs, host, brk)
    elif kind == "stall":
        ops = stall_case_ops(rng, jobs, host, brk)
    elif kind == "protocol":
        ops, _ = protocol_ops(rng, jobs, host, brk)
    elif kind == "resubmit":
        ops, _ = protocol_ops(rng, jobs, host, brk, resubmit=True)
    elif kind == "stale":
        # a handle loaded early (or the creator after losing the role) writes after others changed the state
        pre = [{"k": "load", "h": 3, "host": rng.randrange(3), "promote": False, "jobs": rng.random() < .8}] if rng.random() < .7 else []
        ops, sim = protocol_ops(rng, jobs, host, brk, resubmit=rng.random() < .3, budget=rng.randrange(6, 30))
        ops = [o for o in pre + ops if not (o["k"] == "load" and o["h"] == 3 and o not in pre)]
        z = 3 if pre else 0
        for _ in range(rng.randrange(1, 4)):
            ops.append(stale_write(rng, z, n, sim))
            if rng.random() < .7:
                ops.append({"k": "breakMarker"})
            if rng.random() < .4:
                ops.append({"k": "read"})
        if sim.holder is not None and rng.random() < .7:
            ops.append({"k": "breakMarker"})
            ops.append(upd(sim.holder, [], [], [], [], sim.hpc, sim.batch))
            ops.append({"k": "demote", "h": sim.holder})
    elif kind == "jsstale":
        # a holder whose config copy is current but whose job-status copy is out of date (another handle wrote the
        # job status without holding the role)
        ops, sim = protocol_ops(rng, jobs, host, brk, budget=rng.randrange(4, 16))
        if sim.holder is None:
            ops.append({"k": "load", "h": 1, "host": rng.randrange(3), "promote": True, "jobs": True})
            sim.holder = 1
        a = sim.holder
        b = (a + 1) % 4
        ops.append({"k": "load", "h": b, "host": rng.randrange(3), "promote": False, "jobs": True})
        if sim.hpc and rng.random() < .7:
            ops.append({"k": "completeHpcId", "h": b, "id": sim.hpc[0]})
        else:
            ops.append({"k": "memUnblock", "h": b, "j": 0, "done": []})
            ops.append({"k": "forgeJsVer", "n": rng.randrange(0, 9)})
        w = rng.random()
        if w < .6:
            subs = [j for j in range(n) if sim.state[j] == "n" and not sim.rem[j]][:2]
            comp = [j for j in range(n) if sim.state[j] == "s"][:1]
            ops.append(upd(a, subs, [], [], comp, sim.hpc[1:], sim.batch + 1))
        elif w < .8:
            ops.append({"k": "completeHpcId", "h": a, "id": (sim.hpc or [100])[-1]})
        else:
            if not sim.complete:
                ops.append({"k": "markComplete", "h": a})
            ops.append({"k": "prepareResubmit", "h": a, "sel": [j for j in range(n) if rng.random() < .6], "blockers": []})
        ops.append({"k": "breakMarker"})
        ops.append({"k": "read"})
    elif kind == "samehost":
        # the hostname comparison: a second handle on the holder's host demotes it
        ops, sim = protocol_ops(rng, jobs, host, brk, budget=rng.randrange(2, 12))
        if sim.holder is not None:
            a = sim.holder
            b = (a + 1) % 4
            c = (a + 2) % 4
            same = sim.hosts[a] if rng.random() < .75 else (sim.hosts[a] + 1) % 3
            ops.append({"k": "load", "h": b, "host": same, "promote": rng.random() < .3, "jobs": rng.random() < .5})
            ops.append({"k": "demote", "h": b})
            ops.append({"k": "breakMarker"})
            ops.append({"k": "load", "h": c, "host": rng.randrange(3), "promote": True, "jobs": True})
            subs = [j for j in range(n) if sim.state[j] == "n" and not sim.rem[j]][:2]
            ops.append(upd(a, subs, [], [], [], sim.hpc, sim.batch))
            ops.append({"k": "breakMarker"})
            ops.append(upd(c, subs, [], [], [], sim.hpc, sim.batch))
            ops.append({"k": "demote", "h": a})
    else:
        pre, _ = protocol_ops(rng, jobs, host, brk, budget=rng.randrange(0, 12)) if rng.random() < .6 else ([], None)
        ops = pre + chaos_ops(rng, n, brk, rng.randrange(3, 30))
    return {"op": "cluster.run", "kind": kind, "host": host, "breakStale": brk, "jobs": jobs, "ops": ops[:MAX_OPS]}


def witness_cases():
    """hand-written histories: the scenarios named in DESIGN 7/C10, 9.7, 9.8 and the theorems' witnesses"""
    two = [{"blockers": [], "cancel": False}, {"blockers": [], "cancel": False}]
    out = []
    # f98: config copy current, job-status copy stale -> the update must be rejected before anything is written
    out.append({"op": "cluster.run", "kind": "witness.f98", "host": 0, "breakStale": True, "jobs": two, "ops": [
        upd(0, [0], [], [], [], [1], 2), {"k": "demote", "h": 0},
        {"k": "load", "h": 1, "host": 1, "promote": True, "jobs": True},
        {"k": "load", "h": 2, "host": 2, "promote": False, "jobs": True},
        {"k": "completeHpcId", "h": 2, "id": 1},
        upd(1, [], [], [], [0], [], 2), {"k": "breakMarker"}, {"k": "read"}]})
    # same host: a handle that merely loaded demotes the holder; a third is promoted while the first still acts
    out.append({"op": "cluster.run", "kind": "witness.samehost", "host": 0, "breakStale": True, "jobs": two, "ops": [
        {"k": "load", "h": 1, "host": 0, "promote": False, "jobs": False}, {"k": "demote", "h": 1},
        {"k": "load", "h": 2, "host": 1, "promote": True, "jobs": True},
        upd(0, [0], [], [], [], [1], 2), {"k": "breakMarker"}, upd(2, [0], [], [], [], [1], 2), {"k": "read"}]})
    # 9.7: canceled submission completes with a never-submitted job; resubmit --no-missing leaves it NOT_SUBMITTED but counts
    # it as submitted; the next round submits it anyway: submitted (3) > total (2)
    out.append({"op": "cluster.run", "kind": "witness.resubmit_no_missing", "host": 0, "breakStale": True, "jobs": two, "ops": [
        upd(0, [0], [], [], [], [1], 2), {"k": "markCanceled", "h": 0}, upd(0, [], [], [], [0], [], 2),
        {"k": "markComplete", "h": 0}, {"k": "demote", "h": 0},
        {"k": "load", "h": 1, "host": 1, "promote": True, "jobs": True},
        {"k": "prepareResubmit", "h": 1, "sel": [0], "blockers": []}, {"k": "read"},
        upd(1, [0, 1], [], [], [], [2], 3), {"k": "read"}, {"k": "demote", "h": 1}]})
    # prepare_for_resubmission with a stale job-status copy: config rewritten, then JobStatusVersionMismatch (no marker: no lock)
    out.append({"op": "cluster.run", "kind": "witness.resubmit_jsstale", "host": 0, "breakStale": False, "jobs": two, "ops": [
        upd(0, [0, 1], [], [], [], [1], 2), upd(0, [], [], [], [0, 1], [1], 2), {"k": "markComplete", "h": 0},
        {"k": "load", "h": 1, "host": 1, "promote": False, "jobs": True}, {"k": "completeHpcId", "h": 1, "id": 1},
        {"k": "prepareResubmit", "h": 0, "sel": [0], "blockers": []}, {"k": "read"}]})
    # exception under the lock -> marker -> every later locked op times out unless the marker is broken
    for brk in (True, False):
        out.append({"op": "cluster.run", "kind": "witness.marker", "host": 1, "breakStale": brk, "jobs": two, "ops": [
            upd(0, [0, 0], [], [], [], [], 1), {"k": "read"}, {"k": "load", "h": 1, "host": 2, "promote": True, "jobs": True},
            {"k": "breakMarker"}, {"k": "read"}, {"k": "demote", "h": 0}, {"k": "load", "h": 1, "host": 2, "promote": True, "jobs": True}]})
    # a process dies between the two file writes of its promotion; a handle loaded before that must be refused, whatever
    # the lock library did with the dead process's marker; and the same for a dying holder's update (4 writes) and demote
    for after in (0, 1, 2):
        for gone in (True, False):
            out.append({"op": "cluster.run", "kind": "witness.crash_promote", "host": 0, "breakStale": True, "jobs": two, "ops": [
                {"k": "demote", "h": 0}, {"k": "load", "h": 1, "host": 1, "promote": False, "jobs": True},
                {"k": "crash", "op": {"k": "load", "h": 2, "host": 2, "promote": True, "jobs": True}, "after": after, "lockGone": gone},
                {"k": "breakMarker"}, {"k": "promote", "h": 1}, {"k": "breakMarker"}, {"k": "markCanceled", "h": 0}, {"k": "breakMarker"},
                {"k": "load", "h": 3, "host": 1, "promote": True, "jobs": True}, {"k": "read"}]})
    for after in (0, 1, 2, 3, 4):
        out.append({"op": "cluster.run", "kind": "witness.crash_update", "host": 0, "breakStale": True, "jobs": two, "ops": [
            {"k": "load", "h": 1, "host": 1, "promote": False, "jobs": True},
            {"k": "crash", "op": upd(0, [0], [], [], [], [1], 2), "after": after, "lockGone": True},
            upd(1, [1], [], [], [], [2], 2), {"k": "breakMarker"}, {"k": "completeHpcId", "h": 1, "id": 1}, {"k": "breakMarker"},
            {"k": "load", "h": 2, "host": 0, "promote": False, "jobs": True}, {"k": "demote", "h": 2}, {"k": "read"}]})
    for after in (0, 1):
        out.append({"op": "cluster.run", "kind": "witness.crash_demote", "host": 0, "breakStale": True, "jobs": two, "ops": [
            {"k": "load", "h": 1, "host": 1, "promote": False, "jobs": False},
            {"k": "crash", "op": {"k": "demote", "h": 0}, "after": after, "lockGone": True},
            {"k": "load", "h": 2, "host": 2, "promote": True, "jobs": True}, {"k": "promote", "h": 1}, {"k": "read"}]})
    # TORN VERSION FILE: a writer is killed between `open(version file, "w")` and `write()`: the file is EMPTY.  Every reader
    # dies in int('') - every handle loaded BEFORE (whether its copy is by now older than the contents or not) and every fresh
    # handle: nothing of that pair is written any more until the file is rewritten by hand.  In each history the FIRST write
    # after the kill is by a handle whose copy is older than the contents.
    for after in (0, 2):
        for gone in (True, False):
            # a promotion (load + promote) dies inside config_version.txt (after=0; after=2: no such write, the call completes).
            # Handle 1 was loaded while nobody held the role and two config writes ago (submitter None in memory: its promotion
            # reads the version file); handle 0 (the creator, demoted) is out of date as well
            out.append({"op": "cluster.run", "kind": "witness.torn_promote", "host": 0, "breakStale": True, "jobs": two, "ops": [
                {"k": "demote", "h": 0}, {"k": "load", "h": 1, "host": 1, "promote": False, "jobs": True},
                {"k": "load", "h": 3, "host": 2, "promote": True, "jobs": True}, {"k": "demote", "h": 3},
                {"k": "crash", "op": {"k": "load", "h": 2, "host": 2, "promote": True, "jobs": True}, "after": after, "lockGone": gone, "torn": True},
                {"k": "breakMarker"}, {"k": "promote", "h": 1}, {"k": "breakMarker"}, {"k": "markCanceled", "h": 0}, {"k": "breakMarker"},
                upd(1, [1], [], [], [], [2], 2), {"k": "breakMarker"}, {"k": "promote", "h": 3}, {"k": "breakMarker"},
                {"k": "load", "h": 2, "host": 1, "promote": True, "jobs": True}, {"k": "breakMarker"}, {"k": "read"}]})
            # the holder dies in update_job_status inside config_version.txt (0) / job_status_version.txt (2: the config pair is
            # complete by then); handle 1 (loaded one update earlier: both copies out of date) and handle 2 (loaded right before
            # the kill) write
            out.append({"op": "cluster.run", "kind": "witness.torn_update", "host": 0, "breakStale": True, "jobs": two, "ops": [
                upd(0, [0], [], [], [], [1], 2), {"k": "load", "h": 1, "host": 1, "promote": False, "jobs": True},
                upd(0, [], [], [], [0], [1], 2), {"k": "load", "h": 2, "host": 2, "promote": False, "jobs": True},
                {"k": "crash", "op": upd(0, [1], [], [], [], [1, 2], 3), "after": after, "lockGone": gone, "torn": True},
                {"k": "breakMarker"}, {"k": "markCanceled", "h": 1}, {"k": "breakMarker"}, {"k": "completeHpcId", "h": 1, "id": 1}, {"k": "breakMarker"},
                upd(1, [1], [], [], [], [1, 2], 3), {"k": "breakMarker"}, {"k": "completeHpcId", "h": 2, "id": 1}, {"k": "breakMarker"},
                upd(2, [1], [], [], [], [1, 2], 3), {"k": "breakMarker"}, {"k": "markCanceled", "h": 2}, {"k": "breakMarker"},
                {"k": "load", "h": 3, "host": 0, "promote": False, "jobs": False}, {"k": "demote", "h": 3}, {"k": "breakMarker"},
                upd(3, [], [], [], [], [], 3), {"k": "breakMarker"}, {"k": "read"}]})
    for gone in (True, False):
        # the holder dies in demote_from_submitter inside config_version.txt: the role is never cleared and cannot be taken
        out.append({"op": "cluster.run", "kind": "witness.torn_demote", "host": 0, "breakStale": True, "jobs": two, "ops": [
            {"k": "load", "h": 1, "host": 1, "promote": False, "jobs": False}, upd(0, [0], [], [], [], [1], 2),
            {"k": "crash", "op": {"k": "demote", "h": 0}, "after": 0, "lockGone": gone, "torn": True},
            {"k": "breakMarker"}, {"k": "markCanceled", "h": 1}, {"k": "breakMarker"},
            {"k": "load", "h": 2, "host": 2, "promote": True, "jobs": True}, {"k": "promote", "h": 1},
            {"k": "load", "h": 3, "host": 0, "promote": False, "jobs": True},
            {"k": "demote", "h": 3}, {"k": "breakMarker"}, {"k": "completeHpcId", "h": 3, "id": 1}, {"k": "read"}]})
        # complete_hpc_job_id dies inside job_status_version.txt; the config pair stays writable, the job-status pair does not;
        # prepare_for_resubmission (no lock) rewrites the config and then dies reading the empty file; a hand-written version
        # file (forgeJsVer) ends the state
        out.append({"op": "cluster.run", "kind": "witness.torn_hpcid", "host": 0, "breakStale": True, "jobs": two, "ops": [
            upd(0, [0, 1], [], [], [], [1], 2), {"k": "load", "h": 1, "host": 1, "promote": False, "jobs": True},
            upd(0, [], [], [], [0, 1], [1], 2), {"k": "load", "h": 2, "host": 2, "promote": False, "jobs": False},
            {"k": "crash", "op": {"k": "completeHpcId", "h": 0, "id": 1}, "after": 0, "lockGone": gone, "torn": True},
            {"k": "breakMarker"}, {"k": "completeHpcId", "h": 1, "id": 1}, {"k": "breakMarker"}, upd(1, [], [], [], [], [], 2), {"k": "breakMarker"},
            upd(2, [], [], [], [], [], 2), {"k": "breakMarker"},
            {"k": "load", "h": 3, "host": 0, "promote": False, "jobs": True}, {"k": "markComplete", "h": 3},
            {"k": "prepareResubmit", "h": 3, "sel": [0], "blockers": []}, {"k": "read"},
            {"k": "forgeJsVer", "n": 3}, {"k": "load", "h": 1, "host": 0, "promote": False, "jobs": True},
            {"k": "completeHpcId", "h": 1, "id": 1}, {"k": "read"}]})
    # A CALL FAILS AND THE HANDLE LIVES ON: the creator's update raises inside the locked update (unknown job name: KeyError; a job
    # submitted twice: AssertionError; one of its four file writes raises OSError); it gives up the role; another host takes over
    # and records a batch; then the handle that failed - out of date by now - promotes / writes again: refused, files unchanged
    fails = [upd(0, [0, 2], [], [], [], [1], 2), upd(0, [], [], [], [5], [], 1), upd(0, [0, 0], [], [], [], [1], 2)]
    fails += [{"k": "failWrite", "op": upd(0, [0], [], [], [], [1], 2), "after": k} for k in (0, 1, 2, 3)]
    fails += [{"k": "failWrite", "op": {"k": "markCanceled", "h": 0}, "after": k} for k in (0, 1)]
    fails += [{"k": "failWrite", "op": upd(0, [0], [], [], [], [1], 2), "after": k, "torn": True} for k in (0, 2)]
    fails += [{"k": "failWrite", "op": {"k": "demote", "h": 0}, "after": k} for k in (0, 1)]
    for bad in fails:
        out.append({"op": "cluster.run", "kind": "witness.failed_then_stale", "host": 0, "breakStale": True, "jobs": two, "ops": [
            {"k": "load", "h": 3, "host": 2, "promote": False, "jobs": True},
            bad, {"k": "breakMarker"}, {"k": "demote", "h": 0}, {"k": "breakMarker"},
            {"k": "load", "h": 1, "host": 1, "promote": True, "jobs": True}, upd(1, [1], [], [], [], [7], 2), {"k": "read"},
            {"k": "promote", "h": 0}, {"k": "breakMarker"}, {"k": "completeHpcId", "h": 0, "id": 1}, {"k": "breakMarker"},
            {"k": "markCanceled", "h": 0}, {"k": "breakMarker"}, upd(0, [], [], [], [], [], 2), {"k": "breakMarker"},
            {"k": "markCanceled", "h": 3}, {"k": "breakMarker"}, {"k": "demote", "h": 1}, {"k": "read"}]})
    # a handle that is NOT the holder fails (its update is attempted with a current copy), the holder goes on, the failed handle
    # writes again
    for bad in fails[:3]:
        out.append({"op": "cluster.run", "kind": "witness.failed_nonholder", "host": 0, "breakStale": True, "jobs": two, "ops": [
            {"k": "load", "h": 1, "host": 1, "promote": False, "jobs": True}, dict(bad, h=1), {"k": "breakMarker"},
            upd(0, [0], [], [], [], [1], 2), {"k": "demote", "h": 0},
            {"k": "promote", "h": 1}, {"k": "breakMarker"}, {"k": "markCanceled", "h": 1}, {"k": "breakMarker"},
            {"k": "completeHpcId", "h": 1, "id": 1}, {"k": "breakMarker"}, {"k": "read"}]})
    # A LIVE HOLDER STALLED INSIDE ITS LOCK SECTION: a promotion (load + promote) hangs right before its 1st / 2nd file write while
    # two other processes try to get promoted and an old handle writes: each times out at the lock; then the call finishes
    for after in (0, 1):
        out.append({"op": "cluster.run", "kind": "witness.stall_promote", "host": 0, "breakStale": True, "jobs": two, "ops": [
            {"k": "load", "h": 3, "host": 2, "promote": False, "jobs": True}, {"k": "demote", "h": 0},
            {"k": "stallBegin", "h": 1, "op": {"k": "load", "h": 1, "host": 1, "promote": True, "jobs": True}, "after": after},
            {"k": "load", "h": 2, "host": 2, "promote": True, "jobs": True}, {"k": "promote", "h": 0}, {"k": "breakMarker"},
            {"k": "markCanceled", "h": 3}, {"k": "read"}, {"k": "stallEnd", "h": 1},
            {"k": "load", "h": 2, "host": 2, "promote": True, "jobs": True}, upd(1, [0], [], [], [], [1], 2), {"k": "read"}, {"k": "demote", "h": 1}]})
    # … and the holder hangs in update_job_status (4 writes) / demote (2 writes)
    for after in (0, 1, 2, 3):
        out.append({"op": "cluster.run", "kind": "witness.stall_update", "host": 0, "breakStale": True, "jobs": two, "ops": [
            {"k": "load", "h": 1, "host": 1, "promote": False, "jobs": True},
            {"k": "stallBegin", "h": 0, "op": upd(0, [0], [], [], [], [1], 2), "after": after},
            {"k": "load", "h": 2, "host": 2, "promote": True, "jobs": True}, {"k": "markCanceled", "h": 1},
            {"k": "completeHpcId", "h": 1, "id": 1}, {"k": "demote", "h": 0}, {"k": "read"}, {"k": "stallEnd", "h": 0},
            upd(0, [], [], [], [0], [1], 2), {"k": "stallBegin", "h": 0, "op": {"k": "demote", "h": 0}, "after": after % 2},
            {"k": "load", "h": 2, "host": 2, "promote": True, "jobs": True}, {"k": "stallEnd", "h": 0},
            {"k": "load", "h": 2, "host": 2, "promote": True, "jobs": True}, {"k": "read"}]})
    # canceled chain reported the way a round does it
    three = [{"blockers": [], "cancel": False}, {"blockers": [0], "cancel": True}, {"blockers": [1], "cancel": True}]
    out.append({"op": "cluster.run", "kind": "witness.cancel_chain", "host": 0, "breakStale": True, "jobs": three, "ops": [
        upd(0, [0], [(1, [0]), (2, [1])], [], [], [1], 2),
        {"k": "memCancel", "h": 0, "j": 1}, {"k": "memCancel", "h": 0, "j": 2},
        upd(0, [], [], [1, 2], [0, 1, 2], [], 2), {"k": "allComplete", "h": 0}, {"k": "markComplete", "h": 0}, {"k": "read"}]})
    return out
