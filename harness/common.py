"""Shared helpers for the correspondence harness (runs under /venv/bin/python, PYTHONPATH=$JADE_SRC)."""
import contextlib
import io
import json
import logging
import os
import random
import shutil
import subprocess
import sys
import tempfile
from pathlib import Path

VERIF = Path(__file__).resolve().parent.parent
LEAN = VERIF / "lean"
DRV = LEAN / ".lake" / "build" / "bin" / "drv"
JADE_SRC = os.environ.get("JADE_SRC", "/repo")


class Violation:
    """A direct-oracle violation: the real code breaks the property on a concrete input."""

    def __init__(self, prop, key, msg):
        self.prop = prop
        self.key = key  # fingerprint used by known_findings.json
        self.msg = msg

    def to_json(self):
        return {"property": self.prop, "key": self.key, "message": self.msg}

    def __repr__(self):
        return f"Violation({self.prop}, {self.key}, {self.msg})"


def canon(x):
    """Canonical JSON text (sorted keys, no floats expected)."""
    return json.dumps(x, sort_keys=True, separators=(",", ":"), ensure_ascii=True)


def run_driver(cases, timeout=600):
    """Feed the cases (dicts with an 'op') to the Lean driver; return parsed outputs."""
    if not cases:
        return []
    if not DRV.exists():
        raise RuntimeError("driver executable missing")
    data = "\n".join(canon(c) for c in cases) + "\n"
    p = subprocess.run([str(DRV)], input=data, capture_output=True, text=True, timeout=timeout)
    if p.returncode != 0:
        raise RuntimeError(f"driver exited {p.returncode}: {p.stderr[:500]}")
    lines = [l for l in p.stdout.split("\n") if l.strip()]
    if len(lines) != len(cases):
        raise RuntimeError(f"driver answered {len(lines)} lines for {len(cases)} cases: {p.stderr[:300]}")
    return [json.loads(l) for l in lines]


@contextlib.contextmanager
def scratch_dir(prefix="jadeverif-"):
    """Scratch directory outside /repo and /verif, removed afterwards."""
    base = os.environ.get("VERIF_SCRATCH") or tempfile.gettempdir()
    d = tempfile.mkdtemp(prefix=prefix, dir=base)
    try:
        yield Path(d)
    finally:
        shutil.rmtree(d, ignore_errors=True)


@contextlib.contextmanager
def quiet():
    """Silence JADE's logging and prints during in-process calls."""
    logging.disable(logging.CRITICAL)
    out, err = io.StringIO(), io.StringIO()
    with contextlib.redirect_stdout(out), contextlib.redirect_stderr(err):
        try:
            yield
        finally:
            logging.disable(logging.NOTSET)


def err_enum(exc):
    """Map an exception of the implementation to the model's small error enum."""
    n = type(exc).__name__
    table = {
        "AssertionError": "assertion",
        "ConfigVersionMismatch": "versionMismatch",
        "JobStatusVersionMismatch": "versionMismatch",
        "InvalidConfiguration": "invalidConfig",
        "InvalidParameter": "invalidParam",
        "ExecutionError": "execError",
        "Timeout": "lockTimeout",
        "ValueError": "valueError",
        "KeyError": "keyError",
        "ValidationError": "valueError",
        "OSError": "ioError",
        "FileNotFoundError": "ioError",
        "IOError": "ioError",
    }
    return table.get(n, "other:" + n)


class Suite:
    name = "?"

    def corpus_cases(self):
        d = VERIF / "corpus" / self.name
        out = []
        if d.is_dir():
            for f in sorted(d.glob("*.json")):
                out.append(json.loads(f.read_text()))
        return out

    def cases(self, rng, tier, prop):
        raise NotImplementedError

    def impl(self, case):
        raise NotImplementedError

    def oracle(self, case, result):
        return []

    def tags(self, case, result):
        return []

    def shrink(self, case):
        return []

    def model_case(self, case):
        """the line sent to the Lean driver (default: the case itself)"""
        return case

    def view(self, result):
        """the part of the implementation's result that is compared with the model's output"""
        if isinstance(result, dict) and "model" in result and "obs" in result:
            return result["model"]
        return result

    def setup(self):
        pass

    def teardown(self):
        pass
