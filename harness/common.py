"""Shared helpers for the correspondence harness (runs under /venv/bin/python, PYTHONPATH=$JADE_SRC)."""
import contextlib
import io
import json
import logging
import os
import random
import shutil
import subprocess
import sys
import tempfile
from pathlib import Path

VERIF = Path(__file__).resolve().parent.parent
LEAN = VERIF / "lean"
DRV = LEAN / ".lake" / "build" / "bin" / "drv"
JADE_SRC = os.environ.get("JADE_SRC", "/repo")


class Violation:
    """A direct-oracle violation: the real code breaks the property on a concrete input."""

    def __init__(self, prop, key, msg):
        self.prop = prop
        self.key = key  # fingerprint used by known_findings.json
        self.msg = msg

    def to_json(self):
        return {"property": self.prop, "key": self.key, "message": self.msg}

    def __repr__(self):
        return f"Violation({self.prop}, {self.key}, {self.msg})"


def canon(x):
    """Canonical JSON text (sorted keys, no floats expected)."""
    return json.dumps(x, sort_keys=True, separators=(",", ":"), ensure_ascii=True)


def run_driver(cases, timeout=600):
    """Feed the cases (dicts with an 'op') to the Lean driver; return parsed outputs."""
    if not cases:
        return []
    if not DRV.exists():
        raise RuntimeError("driver executable missing")
    data = "\n".join(canon(c) for c in cases) + "\n"
    p = subprocess.run([str(DRV)], input=data, capture_output=True, text=True, timeout=timeout)
    if p.returncode != 0:
        raise RuntimeError(f"driver exited {p.returncode}: {p.stderr[:500]}")
    lines = [l for l in p.stdout.split("\n") if l.strip()]
    if len(lines) != len(cases):
        raise RuntimeError(f"driver answered {len(lines)} lines for {len(cases)} cases: {p.stderr[:300]}")
    return [json.loads(l) for l in lines]


@contextlib.contextmanager
def scratch_dir(prefix="jadeverif-"):
    """Scratch directory outside /repo and /verif, removed afterwards."""
    base = os.environ.get("VERIF_SCRATCH") or tempfile.gettempdir()
    d = tempfile.mkdtemp(prefix=prefix, dir=base)
    try:
        yield Path(d)
    finally:
        shutil.rmtree(d, ignore_errors=True)


@contextlib.contextmanager
def quiet():
    """Silence JADE's logging and prints during in-process calls."""
    logging.disable(logging.CRITICAL)
    out, err = io.StringIO(), io.StringIO()
    with contextlib.redirect_stdout(out), contextlib.redirect_stderr(err):
        try:
            yield
        finally:
            logging.disable(logging.NOTSET)


class HarnessMismatch(Exception):
    """the harness itself failed to reach into the code under test (a private name it uses was renamed, a signature it
    calls changed): an infrastructure problem of the check (exit 2), never an observation about the code's behaviour"""


def raised_by_harness(exc):
    """was `exc` raised by a statement of the harness (not inside jade or a library it calls)?"""
    tb = getattr(exc, "__traceback__", None)
    if tb is None:
        return False
    while tb.tb_next is not None:
        tb = tb.tb_next
    return os.path.abspath(tb.tb_frame.f_code.co_filename).startswith(str(VERIF / "harness") + os.sep)


def not_a_harness_mismatch(exc):
    """AttributeError / TypeError / NameError / ImportError raised by a harness statement = the harness no longer fits the
    code (renamed private helper, changed call signature).  Injected faults are OSError / Timeout / kills, never these."""
    if isinstance(exc, (AttributeError, TypeError, NameError, ImportError)) and raised_by_harness(exc):
        raise HarnessMismatch(f"harness does not fit the code under test: {type(exc).__name__}: {exc}") from exc
    return exc


def err_enum(exc):
    """Map an exception of the implementation to the model's small error enum."""
    not_a_harness_mismatch(exc)
    n = type(exc).__name__
    table = {
        "AssertionError": "assertion",
        "ConfigVersionMismatch": "versionMismatch",
        "JobStatusVersionMismatch": "versionMismatch",
        "InvalidConfiguration": "invalidConfig",
        "InvalidParameter": "invalidParam",
        "ExecutionError": "execError",
        "Timeout": "lockTimeout",
        "ValueError": "valueError",
        "KeyError": "keyError",
        "ValidationError": "valueError",
        "OSError": "ioError",
        "FileNotFoundError": "ioError",
        "IOError": "ioError",
    }
    return table.get(n, "other:" + n)


class Suite:
    name = "?"

    def corpus_cases(self):
        d = VERIF / "corpus" / self.name
        out = []
        if d.is_dir():
            for f in sorted(d.glob("*.json")):
                out.append(json.loads(f.read_text()))
        return out

    def cases(self, rng, tier, prop):
        raise NotImplementedError

    def impl(self, case):
        raise NotImplementedError

    def oracle(self, case, result):
        return []

    def tags(self, case, result):
        return []

    def shrink(self, case):
        return []

    def model_case(self, case):
        """the line sent to the Lean driver (default: the case itself)"""
        return case

    def view(self, result):
        """the part of the implementation's result that is compared with the model's output"""
        if isinstance(result, dict) and "model" in result and "obs" in result:
            return result["model"]
        return result

    def setup(self):
        pass

    def teardown(self):
        pass


# ------------------------------------------------------------------------------------------------
# The fake process / time boundary must not depend on how a jade module spells its imports
# ------------------------------------------------------------------------------------------------
# The suites fake the boundary by replacing the NAME `time` / `subprocess` inside a jade module (`rc.time = _T`).  Two
# harmless rewrites of the code under test used to defeat that and produced concrete alarms on unchanged behaviour:
#   * `from time import sleep` / `from subprocess import Popen` bind the real function to another module global;
#   * `from time import time` <-> `import time` changes whether the name `time` is called or used as a module.
# `normalize_boundary()` turns every such alias into a forwarder that looks the function up under the module's
# `time` / `subprocess` name at call time (the real one when nothing is faked: same behaviour), and `dual_time(fake)`
# gives a fake that can be both called (`time()`) and used as a module (`time.time()`, `time.sleep()`).
_BOUNDARY_MODULES = ("time", "subprocess")
_BOUNDARY_ATTRS = {"time": ("time", "sleep", "monotonic", "perf_counter"),
                   "subprocess": ("Popen", "call", "run", "check_call", "check_output")}
_JADE_BOUNDARY_USERS = (
    "jade.utils.run_command", "jade.utils.subprocess_manager", "jade.jobs.async_cli_command", "jade.jobs.job_queue",
    "jade.jobs.job_runner", "jade.jobs.job_submitter", "jade.jobs.cluster", "jade.jobs.results_aggregator",
    "jade.jobs.pipeline_manager", "jade.hpc.hpc_submitter", "jade.hpc.slurm_manager", "jade.cli.cancel_jobs",
    "jade.cli.run_jobs", "jade.result", "jade.events", "jade.resource_monitor",
)


class _DualTime:
    def __init__(self, fake):
        self.__dict__["_fake"] = fake

    def __call__(self, *a, **kw):
        import time as real
        return getattr(self._fake, "time", real.time)(*a, **kw)

    def __getattr__(self, name):
        return getattr(self._fake, name)

    def __repr__(self):
        return f"<dual time fake over {self._fake!r}>"


def dual_time(fake):
    """`fake` (an object with `time` / `sleep` …) in a form that serves a module whichever way it imported time:
    `time.time()` / `time.sleep()` and also `time()` (after `from time import time`)."""
    return fake if isinstance(fake, _DualTime) else _DualTime(fake)


def _forwarder(module, kind, attr, real_fn):
    def forward(*a, **kw):
        holder = module.__dict__.get(kind)
        fn = getattr(holder, attr, None) if holder is not None else None
        return (fn if fn is not None else real_fn)(*a, **kw)
    forward.__name__ = getattr(real_fn, "__name__", attr)
    forward._verif_forwarder = (kind, attr)
    return forward


def normalize_boundary(extra=()):
    """see above; idempotent; returns the list of (module, global, boundary function) that were rebound"""
    import importlib
    import types
    for name in tuple(_JADE_BOUNDARY_USERS) + tuple(extra):
        try:
            importlib.import_module(name)
        except Exception:  # noqa  (a module that no longer exists is somebody else's finding)
            pass
    done = []
    for mname, mod in list(sys.modules.items()):
        if mod is None or not (mname == "jade" or mname.startswith("jade.")):
            continue
        for kind in _BOUNDARY_MODULES:
            real = importlib.import_module(kind)
            aliases = []
            for g, val in list(vars(mod).items()):
                if g == kind or isinstance(val, types.ModuleType) or not callable(val) or hasattr(val, "_verif_forwarder"):
                    continue
                for attr in _BOUNDARY_ATTRS[kind]:
                    if getattr(real, attr, None) is val:
                        aliases.append((g, attr, val))
            if aliases and kind not in vars(mod):
                setattr(mod, kind, real)          # so that the suites find (and can replace) the name
            for g, attr, val in aliases:
                setattr(mod, g, _forwarder(mod, kind, attr, val))
                done.append((mname, g, f"{kind}.{attr}"))
    return done
