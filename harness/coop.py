"""Cooperative, deterministic execution of real lock-using code (shared by several suites).

The real JADE code synchronises processes with `filelock.SoftFileLock` marker files.  To explore
its interleavings deterministically we run every "process" as a *worker thread* and pass a baton,
so that exactly one worker runs at a time and control changes hands only at *yield points*:

    Scheduler          owns the baton.  `spawn(name)` creates a parked worker; `advance(name, job)`
                       lets one worker run (starting `job()` if it is idle, resuming it if it is
                       parked inside a call) until its next yield point or until the call returns,
                       and reports where it stopped (`Stop`).
    Scheduler.yield_point(kind, detail)
                       called *by instrumented primitives inside a worker*: asks the scheduler's
                       `policy(worker, kind, detail)` whether this potential yield point is a real
                       one; if so the worker parks there and `advance` returns.  Outside a worker
                       thread (e.g. the harness' main thread) it is a no-op.
    lock_class(get_sched, on_contended=...)
                       a drop-in replacement for `filelock.SoftFileLock`
                       (`acquire(timeout=)`, `release()`, `break_lock()`, context manager, `is_locked`) with the same
                       marker-file semantics (O_CREAT|O_EXCL create / unlink of `<file>.lock` on the
                       real directory) that never blocks: potential yield points "acquire" (before
                       every attempt), "acquired", "release" (before the unlink); on a *contended*
                       attempt it either raises `filelock.Timeout` at once (`on_contended="timeout"`:
                       the virtual timeout has elapsed — the caller's op is a stutter) or parks
                       (`"yield"`: kind "blocked") and retries when next advanced.
    instrument_io(module, get_sched, root)
                       makes the file mutations a module performs under `root` potential yield
                       points: replaces the module's view of `open` (kinds "open:w", "open:a", …)
                       and of `os` (`remove/unlink/rename/replace`: kind "remove"/"rename").

Typical use (see suites/results.py):

    sched = coop.Scheduler(policy)
    with coop.patched(mod, "SoftFileLock", coop.lock_class(lambda: sched)):
        sched.spawn("p0"); sched.spawn("w0")
        stop = sched.advance("p0", lambda: agg.process_results())   # runs to the first yield
        stop = sched.advance("w0", lambda: ResultsAggregator.append(out, r, batch_id=1))
        stop = sched.advance("p0")                                   # resume p0
    sched.close()

A policy sees `worker.locks` (marker paths the worker holds, innermost last) and the free-form
dict `worker.ctx` that the suite fills before starting a call.

Killing: `Scheduler.kill(name)` abandons a parked worker for good (no `finally` of the call runs
— the effect of SIGKILL / node loss); `close()` unwinds every remaining parked worker by raising
`Killed` (a BaseException) inside it, so its `finally` blocks run during teardown only.
"""
import builtins
import os
import threading
import time

# every marker is created with an mtime this many seconds in the past: the worst case for any "the lock file has been there
# for too long, its owner must be dead" heuristic.  The unchanged code never looks at the age of a lock file.
MARKER_AGE = 3600.0

try:  # the real exception type, so that `except Timeout` in the code under test matches
    from filelock import Timeout
except Exception:  # pragma: no cover
    class Timeout(TimeoutError):
        def __init__(self, lock_file):
            super().__init__(lock_file)
            self.lock_file = lock_file


class Killed(BaseException):
    """Raised inside a parked worker when the scheduler is closed."""


class SchedulerStuck(RuntimeError):
    """A worker did not come back to the scheduler (it blocks on something uninstrumented)."""


class Stop:
    """Where a worker stopped after `advance`.

    what: "yield" (parked at a yield point: .kind, .detail), "done" (call returned: .result),
          "raised" (call raised: .exc)."""

    def __init__(self, what, kind=None, detail=None, result=None, exc=None):
        self.what, self.kind, self.detail, self.result, self.exc = what, kind, detail, result, exc

    def __repr__(self):
        if self.what == "yield":
            return f"Stop(yield {self.kind} {self.detail})"
        if self.what == "done":
            return "Stop(done)"
        return f"Stop(raised {type(self.exc).__name__}: {self.exc})"


class Worker:
    def __init__(self, sched, name):
        self.sched = sched
        self.name = name
        self.state = "idle"      # idle | running | parked | dead
        self.stop = None         # last Stop
        self.locks = []          # marker paths held, innermost last
        self.ctx = {}            # per-call context for policies / suites
        self.notes = []          # ("contended", path) … since the last advance
        self._go = threading.Semaphore(0)
        self._job = None
        self._closing = False
        self.thread = threading.Thread(target=self._main, name=f"coop-{name}", daemon=True)
        self.thread.start()

    def _main(self):
        while True:
            self._go.acquire()
            if self._closing:
                return
            job, self._job = self._job, None
            try:
                stop = Stop("done", result=job())
            except Killed:
                self.state = "dead"
                return
            except BaseException as e:  # noqa: BLE001 — reported to the harness, not swallowed
                stop = Stop("raised", exc=e)
            self.stop = stop
            self.state = "idle"
            self.sched._back.release()

    @property
    def parked_at(self):
        """kind of the yield point the worker is parked at, or None"""
        return self.stop.kind if self.state == "parked" else None


class Scheduler:
    def __init__(self, policy=None, step_timeout=30.0):
        self.policy = policy or (lambda worker, kind, detail: True)
        self.workers = {}
        self._back = threading.Semaphore(0)
        self._by_thread = {}
        self.step_timeout = step_timeout
        self.trace = []          # (worker, Stop) of every advance, for debugging / audits

    # ---- harness side -------------------------------------------------------------------
    def spawn(self, name):
        w = Worker(self, name)
        self.workers[name] = w
        self._by_thread[w.thread.ident] = w
        return w

    def advance(self, name, job=None):
        """Let worker `name` run to its next yield point / the end of its call."""
        w = self.workers[name]
        if w.state == "idle":
            if job is None:
                raise ValueError(f"worker {name} is idle: a job is required")
            w._job = job
        elif w.state == "parked":
            if job is not None:
                raise ValueError(f"worker {name} is inside a call: cannot start another")
        else:
            raise ValueError(f"worker {name} is {w.state}")
        w.state = "running"
        w.notes = []
        w._go.release()
        if not self._back.acquire(timeout=self.step_timeout):
            raise SchedulerStuck(f"worker {name} did not reach a yield point within {self.step_timeout}s")
        self.trace.append((name, w.stop))
        return w.stop

    def run_to_completion(self, name, job=None, max_steps=10000):
        """Advance `name` through all its yield points until its call ends."""
        stop = self.advance(name, job)
        n = 0
        while stop.what == "yield":
            n += 1
            if n > max_steps:
                raise SchedulerStuck(f"worker {name} yields forever")
            stop = self.advance(name)
        return stop

    def kill(self, name):
        """Abandon a parked/idle worker: it never runs again and none of its `finally` blocks run."""
        w = self.workers[name]
        if w.state == "running":
            raise ValueError("cannot kill the running worker")
        w.state = "dead"

    def close(self):
        for w in self.workers.values():
            w._closing = True
            w._go.release()
        for w in self.workers.values():
            w.thread.join(timeout=5)
        self.workers.clear()
        self._by_thread.clear()

    # ---- worker side --------------------------------------------------------------------
    def current(self):
        return self._by_thread.get(threading.get_ident())

    def yield_point(self, kind, detail=None, force=False):
        w = self.current()
        if w is None or w.state != "running":
            return
        if not force and not self.policy(w, kind, detail):
            return
        w.stop = Stop("yield", kind=kind, detail=detail)
        w.state = "parked"
        self._back.release()
        w._go.acquire()
        if w._closing:
            raise Killed()
        w.state = "running"

    def note(self, what, detail=None):
        w = self.current()
        if w is not None:
            w.notes.append((what, detail))


# ------------------------------------------------------------------------------------------
# the cooperative marker-file lock
# ------------------------------------------------------------------------------------------
class _AcquireProxy:
    def __init__(self, lock):
        self.lock = lock

    def __enter__(self):
        return self.lock

    def __exit__(self, *a):
        self.lock.release()


def lock_class(get_sched, on_contended="timeout", max_blocked=1000):
    """Build a SoftFileLock replacement bound to `get_sched()` (called at every operation, so the
    scheduler can be swapped between cases without re-patching)."""
    if on_contended not in ("timeout", "yield"):
        raise ValueError(on_contended)

    class CoopLock:
        contended_mode = on_contended
        broken = []      # (marker path, holder's worker name or None) of every break_lock() call

        def __init__(self, lock_file, timeout=-1, **kwargs):
            self.lock_file = os.fspath(lock_file)
            self.timeout = timeout
            self._count = 0

        @property
        def is_locked(self):
            return self._count > 0

        def acquire(self, timeout=None, poll_interval=0.05, **kwargs):
            sched = get_sched()
            if self._count > 0:           # re-entrant on the same object, like filelock
                self._count += 1
                return _AcquireProxy(self)
            if sched is not None:
                sched.yield_point("acquire", self.lock_file)
            blocked = 0
            while True:
                try:
                    fd = os.open(self.lock_file, os.O_CREAT | os.O_EXCL | os.O_WRONLY, 0o644)
                    os.close(fd)
                    old = time.time() - MARKER_AGE
                    os.utime(self.lock_file, (old, old))
                    break
                except FileExistsError:
                    if sched is not None:
                        sched.note("contended", self.lock_file)
                    w = sched.current() if sched is not None else None
                    blocked += 1
                    if self.contended_mode == "timeout" or w is None or blocked > max_blocked:
                        raise Timeout(self.lock_file)
                    sched.yield_point("blocked", self.lock_file, force=True)
            self._count = 1
            w = sched.current() if sched is not None else None
            if w is not None:
                w.locks.append(self.lock_file)
            if sched is not None:
                sched.yield_point("acquired", self.lock_file)
            return _AcquireProxy(self)

        def release(self, force=False):
            if self._count == 0:
                return
            if self._count > 1 and not force:
                self._count -= 1
                return
            sched = get_sched()
            if sched is not None:
                sched.yield_point("release", self.lock_file)
            self._count = 0
            try:
                os.unlink(self.lock_file)
            except FileNotFoundError:
                pass
            w = sched.current() if sched is not None else None
            if w is not None and self.lock_file in w.locks:
                w.locks.remove(self.lock_file)

        def break_lock(self):
            """`SoftFileLock.break_lock()` of filelock >= 3.13 (3.32.7 has it): remove the marker WHOEVER created it.  The
            event is noted on the calling worker (`("break_lock", path)` in `worker.notes`) and in `CoopLock.broken`
            (path, name of the worker that holds the marker or None) so that a suite can state that the marker of a live
            holder was never removed by somebody else."""
            sched = get_sched()
            holder = None
            if sched is not None:
                sched.note("break_lock", self.lock_file)
                for w in sched.workers.values():
                    if self.lock_file in w.locks and w is not sched.current():
                        holder = w.name
            CoopLock.broken.append((self.lock_file, holder))
            try:
                os.unlink(self.lock_file)
            except FileNotFoundError:
                pass

        def __enter__(self):
            self.acquire()
            return self

        def __exit__(self, *a):
            self.release()

    return CoopLock


# ------------------------------------------------------------------------------------------
# file-mutation yield points
# ------------------------------------------------------------------------------------------
def _under(path, root):
    try:
        p = os.path.abspath(os.fspath(path))
    except TypeError:
        return False
    r = os.path.abspath(os.fspath(root))
    return p == r or p.startswith(r + os.sep)


class OsProxy:
    """`os` as seen by an instrumented module: removals/renames under `root` are yield points."""

    def __init__(self, get_sched, root):
        self._get_sched = get_sched
        self._root = root

    def __getattr__(self, name):
        return getattr(os, name)

    def _yield(self, kind, path):
        sched = self._get_sched()
        if sched is not None and _under(path, self._root):
            sched.yield_point(kind, os.fspath(path))

    def remove(self, path, *a, **k):
        self._yield("remove", path)
        return os.remove(path, *a, **k)

    def unlink(self, path, *a, **k):
        self._yield("remove", path)
        return os.unlink(path, *a, **k)

    def rename(self, src, dst, *a, **k):
        self._yield("rename", dst)
        return os.rename(src, dst, *a, **k)

    def replace(self, src, dst, *a, **k):
        self._yield("rename", dst)
        return os.replace(src, dst, *a, **k)


def yielding_open(get_sched, root):
    def _open(file, mode="r", *a, **k):
        if any(c in mode for c in "wax+"):
            sched = get_sched()
            if sched is not None and _under(file, root):
                sched.yield_point("open:" + "".join(c for c in mode if c in "wax+"), os.fspath(file))
        return builtins.open(file, mode, *a, **k)
    return _open


class patched:
    """Context manager: set attributes on a module/class, restore (or delete) them afterwards."""

    _MISSING = object()

    def __init__(self, target, name=None, value=None, **attrs):
        self.target = target
        self.attrs = dict(attrs)
        if name is not None:
            self.attrs[name] = value
        self.saved = {}

    def __enter__(self):
        for k, v in self.attrs.items():
            self.saved[k] = self.target.__dict__.get(k, self._MISSING)
            setattr(self.target, k, v)
        return self

    def __exit__(self, *a):
        for k, old in self.saved.items():
            if old is self._MISSING:
                try:
                    delattr(self.target, k)
                except AttributeError:
                    pass
            else:
                setattr(self.target, k, old)


def instrument_io(module, get_sched, root):
    """`with instrument_io(mod, lambda: sched, scratch): …` — file mutations of `mod` under `root`
    become potential yield points."""
    return patched(module, open=yielding_open(get_sched, root), os=OsProxy(get_sched, root))
