"""Build real JADE objects (configuration, cluster, submitter) from an abstract scenario.

Scenario (JSON-able):
  jobs:   [{"id": k, "group": g, "est": minutes|None, "blockers": [ids], "cancel": bool, "rc": int}]   (listing order)
  groups: [{"batchSize": n, "timeBased": b, "tryAdd": b, "wallSec": s, "procs": p|None, "dryRun": b, "nodes": n|absent}]
  maxNodes: n|None
Names: job k is called "j<k>", group g is "g<g>" with account "acct<g>" and job prefix "p<g>".
"""
import os

from common import quiet


def jname(k):
    return f"j{k}"


def jid(name):
    return int(name[1:])


def gname(g):
    return f"g{g}"


def walltime_str(sec):
    return f"{sec // 3600}:{(sec % 3600) // 60:02d}:{sec % 60:02d}"


def make_params(g, gi, max_nodes, extra=None, local=False):
    from jade.models import HpcConfig, SubmitterParams
    if local:
        hpc = HpcConfig(hpc_type="local", job_prefix=f"p{gi}", hpc={})
    else:
        h = {"account": f"acct{gi}", "walltime": walltime_str(g["wallSec"])}
        if g.get("nodes"):
            h["nodes"] = g["nodes"]         # multi-node allocation: srun starts run-jobs on every node
        hpc = HpcConfig(hpc_type="slurm", job_prefix=f"p{gi}", hpc=h)
    kw = dict(
        hpc_config=hpc,
        per_node_batch_size=g["batchSize"], time_based_batching=g["timeBased"], try_add_blocked_jobs=g["tryAdd"],
        num_processes=g.get("procs"), dry_run=g.get("dryRun", False), max_nodes=max_nodes,
        generate_reports=False, resource_monitor_type="none", poll_interval=0,
        verbose=g.get("verbose", False), distributed_submitter=g.get("distributed", True),
    )
    if extra:
        kw.update(extra)
    return SubmitterParams(**kw)


def make_config(sc, commands=None, extra_params=None):
    """A GenericCommandConfiguration for the scenario (not yet checked)."""
    from jade.extensions.generic_command import GenericCommandConfiguration, GenericCommandParameters
    from jade.models import SubmissionGroup
    life = sc.get("lifecycle", {})
    config = GenericCommandConfiguration(
        setup_command=life.get("setup"), teardown_command=life.get("teardown"),
        node_setup_command=life.get("node_setup"), node_teardown_command=life.get("node_teardown"),
    )
    for j in sc["jobs"]:
        cmd = (commands or {}).get(j["id"], f"job {j['id']}")
        config.add_job(GenericCommandParameters(
            command=cmd, name=jname(j["id"]), blocked_by={jname(b) for b in j.get("blockers", [])},
            cancel_on_blocking_job_failure=j.get("cancel", False), estimated_run_minutes=j.get("est"),
            submission_group=gname(j["group"]),
        ))
    for gi, g in enumerate(sc["groups"]):
        config.append_submission_group(SubmissionGroup(name=gname(gi), submitter_params=make_params(g, gi, sc.get("maxNodes"), extra_params, local=sc.get("local", False))))
    return config


def no_repo_info():
    """_save_repository_info shells out to git for every extension package: irrelevant and slow."""
    import jade.jobs.job_submitter as js
    js.JobSubmitter._save_repository_info = lambda self, registry: None
