"""Registry entry for C01."""

PROP = dict(
    module="JadeModel.Props.C03All", ns="Jade.C01",
    required=["C01_multinode_node_launches_at_most_once", "C01_batch_ids_nodup", "C01_job_in_at_most_one_batch", "C01_batches_containing_le_one",
              "C01_shared_job_same_batch", "C01_started_at_most_once", "C01_started_in_its_batch", "C01_single_holder", "C01_complete_accounting"],
    suites=["system", "batch"],
    level_text="Machine-checked invariants of the system model Jade.Sys (processes, files, virtual SLURM) by induction over "
               "ALL sequences of boundary events - every schedule of submitter rounds on any nodes, batch starts and job "
               "completions, any number of processes, kills and injected failures included. The model is tied to the code by "
               "replaying the event history of real executions (real CLI entry points under a deterministic scheduler) "
               "through the model's step function: every real event must be accepted with identical data; the sbatch guard "
               "used by the proof is what C07 proves of the batching algorithm. Multi-node allocations: every node of an allocation launches its own copy of each job of the batch by design; each node does so at most once (C01_multinode_node_launches_at_most_once), and 'started at most once' is read per node there.",
    level_note="Trusted: Lean kernel (+3 standard axioms), harness/vcluster.py (process boundary fakes, event log), the event "
               "translation, atomicity of one boundary event (lock sections; lockset recorded with every file mutation). "
               "The terminal clause (complete fault-free run: every job in exactly one batch and started once, or canceled "
               "without running) is C01_complete_accounting, proved for fault-free runs runP (Props/C03All.lean, from the "
               "completeness and uniqueness invariants of C03) and also checked by the direct oracle; resubmission is C13.",
    assumptions=["one boundary event = one atomic step (inside one lock section or one syscall-level action)",
                 "job names unique", "SLURM gives each accepted sbatch a fresh id and starts each batch at most once"],
    explanation="System-level proof (Model/System.lean, Proofs/System.lean, Proofs/SystemNode.lean) + history-replay "
                "correspondence + component theorems of C07 for the batching algorithm.",
)
