"""Registry entry for C02."""

PROP = dict(
    module="JadeModel.Props.C02", ns="Jade.C02",
    required=["C02_start_after_blockers", "C02_outcome_stays", "C02_blockers_tracked", "C02_queue_started_only_unblocked",
              "C02_queue_start_after_blockers", "C02_queue_blocker_removed_only_on_completion", "C02_blocked_only_with_blockers"],
    suites=["system", "queue", "batch"],
    level_text="Machine-checked: (1) invariant of the system model over ALL op sequences (every schedule, crash, failure): "
               "the remaining-blockers set survives the three hand-overs status file -> batch file -> node queue, so at every "
               "accepted start all configured blockers have a row on disk; (2) the real JobQueue algorithm (node level and "
               "the whole of local mode) by induction over all submit/process_queue sequences; (3) the batching rule (C07). "
               "Tied to the code by history replay of real executions, the queue and batch correspondence suites and the "
               "generated predicates of is_job_blocked / submit / process_queue / _check_completions.",
    level_note="System cases include 'nodefaults': lock timeout / quota error when a node appends a result (the runner must "
               "not release the dependents of a job whose row could not be written). "
               "Trusted: Lean kernel (+3 standard axioms), harness/vcluster.py and the event translation, atomicity of one "
               "boundary event. Outside the model: visibility of a written row on a real distributed filesystem.",
    assumptions=["a row counts as recorded once the append returned under the file's lock", "job names unique"],
    explanation="System proof Proofs/SystemRows.lean (BlockInv) + Props/Queue.lean + C07.",
)
