"""Registry entry for C03."""

PROP = dict(
    module="JadeModel.Props.C03All", ns="Jade.C03",
    required=["C03_multinode_rows_eq_manager", "C03_multinode_row_at_most_once", "C03_multinode_one_row_per_job", "C03_multinode_worker_records_nothing", "C03_rows_equal_reference", "C03_classification", "C03_schedule_independent", "C03_rows_agree",
              "C03_finished_row_real", "C03_rows_stay", "C03_complete_once", "C03_queue_rows_eq_ref",
              "C03_queue_independent_of_schedule", "C03_local_equals_hpc", "C03_queue_one_row_per_job", "C03_queue_drains", "C03_summary_tally",
              "C03_complete_no_missing", "C03_one_row_per_job", "C03_exactly_one_entry_per_job", "C03_complete_runs_agree",
              "C03_complete_results_are_reference", "C03_one_row_per_job_calm", "C03_duplicate_needs_exception",
              "C03_rows_only_for_configured_jobs"],
    suites=["system", "queue", "tally"],
    level_text="Machine-checked: (1) system model, ALL scenarios and ALL op sequences (any batching the C07 guard admits, any "
               "node limit, any interleaving of submitters and nodes, kills and write failures too): every row ever on disk "
               "equals the reference evaluation of the dependency graph (classification and return code) — local row "
               "invariants (OutcomeA/OutcomeB, by induction over the 29 operations) + a pure graph lemma (local consistency "
               "implies the reference outcome, by induction on rank); hence independence of schedule, batching and node "
               "limits; (2) node level / local mode (real JobQueue algorithm): a drained queue has exactly one row per job, "
               "equal to the reference, for every poll schedule and worker count, and that reference IS the system-level one (bridge lemma), so local mode and HPC mode record the same outcome for every job; (3) summary tally (C20). "
               "(4) COMPLETENESS, fault-free runs (runP: no crash / write failure / lost batch / failed sbatch / cancel; every "
               "round collects all finished result files and submits every unblocked job unless the node limit is reached — both "
               "replayed on every fault-free real execution): when the completion flag is on disk the consolidated results hold "
               "exactly one entry per configured job, nothing else, no missing job, each the reference outcome "
               "(C03_exactly_one_entry_per_job; Live0-Live5 invariants + one-row-per-job invariants PlainA-C); two complete runs of "
               "the same jobs under any batching/limits/schedules have the same results. Duplicates need an exception inside a "
               "submitter round (C03_duplicate_needs_exception). Not carried by a theorem: that a run REACHES completion "
               "(termination; oracle on real executions + C05 round progress + C07 loop termination). (5) MULTI-NODE ALLOCATIONS (hpc.nodes >= 2; srun starts run-jobs on every node): for any number of nodes the batch's results file receives exactly the rows of the manager node's queue (node 0, from the generated am_i_manager / _complete / cancel guards), so (2) holds for an allocation of any size (C03_multinode_*).",
    level_note="Tied to the code by history replay of real multi-process executions (plain/busy/local modes: real submit-jobs, "
               "run-jobs, try-submit-jobs entry points under the deterministic scheduler), the queue and tally correspondence "
               "suites and generated predicates. Direct oracle (independent of Lean): results.json of every completed real run "
               "= reference evaluation, one entry per job, no missing. Trusted: Lean kernel (+3 axioms), vcluster + translation.",
    assumptions=["acyclic dependency graph (cycles: C12)", "job exit codes are a function of the job (deterministic commands)",
                 "no resubmission inside the quantified histories (C13)"],
    explanation="Proofs/Reference.lean (graph lemma), Proofs/SystemOutcome.lean (OutcomeA/OutcomeB), Props/Queue.lean.",
)
