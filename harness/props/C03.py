"""Registry entry for C03."""

PROP = dict(
    module="JadeModel.Props.C03", ns="Jade.C03",
    required=["C03_rows_equal_reference", "C03_classification", "C03_schedule_independent", "C03_rows_agree",
              "C03_finished_row_real", "C03_rows_stay", "C03_complete_once", "C03_queue_rows_eq_ref",
              "C03_queue_independent_of_schedule", "C03_local_equals_hpc", "C03_queue_one_row_per_job", "C03_queue_drains", "C03_summary_tally"],
    suites=["system", "queue", "tally"],
    level_text="Machine-checked: (1) system model, ALL scenarios and ALL op sequences (any batching the C07 guard admits, any "
               "node limit, any interleaving of submitters and nodes, kills and write failures too): every row ever on disk "
               "equals the reference evaluation of the dependency graph (classification and return code) — local row "
               "invariants (OutcomeA/OutcomeB, by induction over the 29 operations) + a pure graph lemma (local consistency "
               "implies the reference outcome, by induction on rank); hence independence of schedule, batching and node "
               "limits; (2) node level / local mode (real JobQueue algorithm): a drained queue has exactly one row per job, "
               "equal to the reference, for every poll schedule and worker count, and that reference IS the system-level one (bridge lemma), so local mode and HPC mode record the same outcome for every job; (3) summary tally (C20). "
               "PARTIAL for 'no missing job at completion' in HPC mode: the decision 'all done' is proved to need every job "
               "done and a quiescent round is proved to submit or complete (C05), but that a fault-free run never takes the "
               "forced-completion branch with an unfinished job is decided by the direct oracle on real executions only.",
    level_note="Tied to the code by history replay of real multi-process executions (plain/busy/local modes: real submit-jobs, "
               "run-jobs, try-submit-jobs entry points under the deterministic scheduler), the queue and tally correspondence "
               "suites and generated predicates. Direct oracle (independent of Lean): results.json of every completed real run "
               "= reference evaluation, one entry per job, no missing. Trusted: Lean kernel (+3 axioms), vcluster + translation.",
    assumptions=["acyclic dependency graph (cycles: C12)", "job exit codes are a function of the job (deterministic commands)",
                 "no resubmission inside the quantified histories (C13)"],
    explanation="Proofs/Reference.lean (graph lemma), Proofs/SystemOutcome.lean (OutcomeA/OutcomeB), Props/Queue.lean.",
)
