"""Registry entry for C04."""

PROP = dict(
    module="JadeModel.Props.C04", ns="Jade.C04",
    required=["C04_canceled_row_justified", "C04_unflagged_never_canceled", "C04_canceled_never_started",
              "C04_flagged_start_needs_success", "C04_canceled_iff", "C04_bad_blocker_excludes_run",
              "C04_node_and_submitter_agree", "C04_queue_cancel_fixpoint", "C04_queue_canceled_iff",
              "C04_queue_cancel_never_runs", "C04_queue_unflagged_runs"],
    suites=["system", "queue"],
    level_text="Machine-checked over ALL scenarios and ALL op sequences of the system model (every placement of the failing "
               "job and its dependents: same batch, later batch, rounds later; every interleaving; crashes): a canceled row — "
               "node-written or submitter-written — exists only for a flagged job with a failed/canceled blocker row and has "
               "return code 1; a row is canceled IFF the job is flagged and the reference outcome of some blocker is bad "
               "(chains included); a job with a canceled row is never started; a flagged job starts only after all blockers "
               "have successful rows; unflagged jobs are never canceled. Node level (real JobQueue fixpoint loop): cancels "
               "exactly the least doomed set; unflagged jobs of a drained queue all ran.",
    level_note="'An unflagged job IS started once its blockers have outcomes' is liveness: proved at node level / local mode "
               "(queue never stuck, drains); at HPC level it follows from C05's round-progress theorem plus the oracle. "
               "Tied by history replay of real executions (passEnd's cancel set is compared with the model's decision at "
               "every pass), the queue suite and generated predicates of _cancel_job/_check_completions/is_job_blocked.",
    assumptions=["acyclic dependency graph", "exit codes are a function of the job"],
    explanation="Proofs/SystemOutcome.lean, Proofs/Reference.lean, Props/Queue.lean.",
)
