"""Registry entry for C05."""

PROP = dict(
    module="JadeModel.Props.C05All", ns="Jade.C05",
    required=["C05_quiescent_round_progress", "C05_refused_promotion_is_noop", "C05_batches_bounded", "C05_complete_once",
              "C05_no_second_completion", "C05_no_sbatch_after_complete", "C05_summary_before_flag", "C05_decision",
              "C05_round_leaves_unblocked_only_when_full", "C05_submit_loop_terminates",
              "C05_flag_only_when_all_rows", "C05_decided_no_missing"],
    suites=["system", "batch"],
    level_text="Machine-checked over ALL scenarios and op sequences of the system model: from any reachable moment at which "
               "nobody holds the submitter role and every recorded batch has ended, a round that reaches the end of its submit "
               "phase decides 'complete' or leaves a batch id that did not exist at that moment (>= 1 new batch handed over); a "
               "refused promotion changes no shared state; at most n batches are ever created (so finitely many non-completing "
               "rounds); the flag is set at most once, only after the same process wrote the summary, and no sbatch event is "
               "possible afterwards. Component (real submit loop, all inputs): it terminates and leaves a candidate without "
               "blockers unbatched only when the node limit is reached. "
               "Fault-free runs (runP): the summary is written and the flag set only when every configured job has a row "
               "(C05_flag_only_when_all_rows, from the Live0-Live5 invariants). "
               "PARTIAL: termination of a whole round / of the run is not carried by the guard-based model; it is decided by the "
               "direct oracle on real executions (every quiescent try-submit-jobs submits or completes; every fault-free run "
               "completes) together with C07's termination theorem for the submit loop.",
    level_note="Tied by history replay of real executions (plain and busy modes with user try-submit-jobs/show-status at random "
               "moments and at quiescence, incl. refused promotions) + the batch correspondence suite + generated predicates of "
               "_is_complete / run gate. Trusted: Lean kernel (+3 axioms), vcluster + translation, truthful squeue.",
    assumptions=["fault-free run for the liveness parts (faults: C11, C12)", "squeue lists exactly the active batches",
                 "no resubmission inside the quantified histories (C13)"],
    explanation="Proofs/SystemProgress.lean (ProgA, ProgQ), Proofs/SystemGate.lean, Proofs/Batch.lean.",
)
