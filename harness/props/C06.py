"""Registry entry for C06."""

PROP = dict(
    module="JadeModel.Props.C06", ns="Jade.C06",
    required=["C06_hpc_cap", "C06_active_tracked", "C06_submit_phase_respects_depth", "C06_node_running_le_depth",
              "C06_node_running_le_depth_during_check", "C06_workers_eq_min", "C06_node_run_le_configured", "C06_node_start_guard"],
    suites=["system", "queue", "batch"],
    level_text="Machine-checked: HPC level - invariant of the system model over ALL op sequences (every interleaving of batch "
               "start/finish with submitter rounds, kills and failures included): batches queued or running <= max_nodes, by "
               "'every active batch is tracked by whoever can submit next' + the queue-depth guard of sbatch; node level - "
               "the real JobQueue algorithm keeps <= depth live processes at every point of every op sequence, depth = "
               "min(#jobs, processes-per-node or CPU count). Tied by history replay of real executions (the squeue listing is "
               "part of the replayed event), the queue and batch suites, generated is_full/min predicates.",
    level_note="Assumption about SLURM (truthful squeue): a batch the scheduler still has is always listed (any state word). "
               "System cases: fault-free modes plus half shares of submitter faults, batch faults, a flaky scheduler (squeue "
               "failing for all 7 attempts of a round, failing sbatch, hanging commands) and resubmission epochs in which "
               "resubmit-jobs may be issued right after the completion flag appeared, while batches of the finished epoch are "
               "still listed; the cap oracle counts every batch of the submission that the scheduler still has, of any epoch. "
               "Trusted: Lean kernel (+3 axioms), vcluster harness and translation.",
    assumptions=["squeue lists every pending/running batch of the user", "no requeue of a finished batch"],
    explanation="Proofs/SystemCap.lean (CapInv), Props/Queue.lean, Proofs/Batch.lean (submitLoop_outstanding).",
)
