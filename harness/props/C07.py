"""Registry entry for C07."""

PROP = dict(
    module="JadeModel.Props.C07", ns="Jade.C07",
    required=["C07_blocked_not_submitted", "C07_round_feeds_status_update", "C07_blocked_looked_at_or_doomed", "C07_round_feeds_status_update_partial", "C07_blocked_not_submitted_partial", "C07_rollback_hands_blocked_job_on", "C07_batches_wellformed", "C07_batch_size_le", "C07_batch_time_le", "C07_no_blocked_without_tryadd",
              "C07_batches_disjoint", "C07_dryRun_same_batches", "C07_fuel_suffices", "C07_unvalidated_estimate_diverges"],
    suites=["batch", "slurm", "system"],
    level_text="Machine-checked Lean theorems over _submit_batches/_make_batch/_BatchJobs for all candidate lists, all "
               "parameter sets, queue depths and sbatch outcome sequences (unbounded, by a loop invariant of the cursor "
               "algorithm); every decision of the loops is a predicate regenerated from hpc_submitter.py on each run; the "
               "control-flow skeleton is tied by differential testing of the real submit phase (real Cluster, JobQueue, "
               "files, sbatch faked at the subprocess boundary). The round's two hand-overs to the status update never share a job, for ANY batching mode (C07_blocked_not_submitted, C07_round_feeds_status_update; Proofs/BatchBlocked*.lean; first proved for size-based batching: C07_blocked_not_submitted_partial, cursor invariant BlkIdx through _make_batch and the _submit_batches loop; with time-based batching the cursor can roll back over a job in the blocked dictionary - C07_rollback_hands_blocked_job_on - and that case is decided by the batch suite, which persists every round's output through the real update_job_status).",
    level_note="Trusted: Lean kernel (+3 standard axioms), tools/extract.py, batch+slurm correspondence suites. Assumes unique "
               "job names (JobContainerByName) and, for termination, validated estimates (run_checks); the hypothesis-free "
               "divergence is proved as a witness theorem. Group HPC parameters/run options on the scripts: C18 theorems + "
               "byte-level comparison of the real files in the batch suite. Singularity wrapper outside the model.",
    assumptions=["candidate names unique", "estimates validated by run_checks for the termination theorem",
                 "JADE_SKIP_SORT_BY_TIME unset"],
    explanation="Component-level proof: the theorems quantify over every input of the submit phase of one round; how rounds "
                "compose is the subject of C01/C05 (system model).",
)
