"""Registry entry for C08."""

PROP = dict(
    module="JadeModel.Props.C08Faults", ns="Jade.C08",
    required=["C08_code_shape", "C08_lock_files_not_collected", "C08_lock_discipline", "C08_blocked_is_stutter", "C08_collector_never_blocked",
              "C08_conservation", "C08_no_loss", "C08_reported_once", "C08_no_collector_raises",
              "C08_no_misattribution", "C08_parse_render", "C08_header_iff_absent", "C08_bytes_refine",
              "C08_files_parse", "C08_final",
              # under injected I/O errors, kills and broken stale markers (Props/C08Faults.lean)
              "C08_fault_shape", "C08_no_loss_under_faults", "C08_no_loss_under_faults_file",
              "C08_removed_only_after_copied", "C08_reported_at_most_once_under_faults",
              "C08_one_collection_under_faults", "C08_injected_error_propagates", "C08_failed_read_propagates", "C08_dead_does_nothing",
              "C08_faultfree_is_base", "C08_faultfree_is_base_bytes",
              "C08_bytes_refine_under_faults", "C08_files_parse_under_faults"],
    suites=["results", "system"],
    level_text="Machine-checked Lean theorems, by induction over arbitrary operation lists (every interleaving of any "
               "number of appending runners, batches, rows and collecting/cancelling submitter rounds, unbounded), at "
               "lock-operation and file-mutation granularity, over a model whose statement order, lock usage, header "
               "test, open modes, glob pattern and field list are regenerated from the source on every run; the "
               "skeleton is tied by running the real ResultsAggregator on real files under a deterministic scheduler "
               "and comparing files byte-wise after every operation. The same for histories with injected I/O "
               "errors (read of a node file, append-open / write of the consolidated file, os.remove), kills of a "
               "collector at every yield point and inside a step, and broken stale markers: no row is ever lost and a "
               "node file is removed only after its rows are in the consolidated file (at-least-once), no row is ever "
               "reported twice and at most one collection (alive or dead) is in progress, by induction "
               "over arbitrary such histories; tied by the same suite with the failures injected at the file "
               "operations of the real code and the real exception propagation.",
    level_note="System level (suite `system`, plain/busy modes): the oracle `reported.not_once` checks on real multi-process runs that every "
               "recorded result is passed to exactly one update_job_status call; the accumulation of newly_completed over the passes of a "
               "round is generated from the source (Gen/Round) and matched by the model lemma passEnd_newly_grows. "
               "Trusted: Lean kernel (+propext, Classical.choice, Quot.sound), tools/extract.py, the results "
               "correspondence suite (cooperative marker-file lock, baton scheduler, fake clock). Outside the model: "
               "atomicity of a small buffered write on the real filesystem; SoftFileLock mutual exclusion and stale-"
               "marker breaking on a distributed filesystem (the model breaks exactly the markers of dead processes); torn "
               "writes (a failure or death in the middle of a write larger than the io buffer); failures and kills of "
               "appending runners and of cancellations (only collections are faulted); under faults the byte-level "
               "refinement theorem covers histories that start with the consolidated file created (a 0-byte file left "
               "by a failed write when it did not exist is tied by the correspondence only); clear_results_for_resubmission / clear_unsuccessful_results (rewrite the "
               "consolidated file without the lock: C13). Under faults exactly-once does NOT hold on the unchanged "
               "code and is not claimed: a death between copy and removal or a failed os.remove duplicates the rows "
               "of that one file, and an aborted round reports nothing (rows it had moved are reported to no round).",
    assumptions=[
        "every access to a results file goes through the entry points the translator audits (append/append_result, "
        "process_results, move_results, get_results); nothing else removes node files while a collection runs",
        "SoftFileLock gives mutual exclusion per marker file (filelock, O_EXCL on the shared filesystem: trusted)",
        "a buffered write of one small row reaches the file atomically when the file is closed (no torn rows)",
        "job names contain no delimiter, quote or newline (C17 validates names); times are Python float reprs",
        "initial state: no node file; the consolidated file either created by ResultsAggregator.create or absent "
        "(both are covered: the theorems quantify over `created`)",
    ],
    explanation="Theorems about Model/Results.lean (generic in the file representation; the byte-level instance is "
                "proved to refine the row-level one) whose shape parameters (Gen/Results.lean) are regenerated from "
                "results_aggregator.py, result.py, async_cli_command.py and hpc_submitter.py on every run. The "
                "`results` suite runs the real ResultsAggregator / AsyncCliCommand._complete/cancel / "
                "HpcSubmitter._cancel_job as baton-scheduled threads on real files with a cooperative O_EXCL marker "
                "lock, yielding at lock acquisitions and file mutations, and compares file bytes, parsed rows, lock "
                "markers and process_results() return values with the Lean driver after every operation; the direct "
                "oracle states conservation / exactly-once reporting / parseability on the same observations; on "
                "histories with injected failures / kills it states never-lost, never-garbled and never-reported-twice "
                "at every instant, and exactly-once up to the rows of the one node file whose removal failed or whose "
                "collector died between copy and removal.",
)
