"""Registry entry for C09 (persisted status consistent and only moving forward)."""

PROP = dict(
    module="JadeModel.Props.C09", ns="Jade.C09",
    required=[
        # system level, all op sequences
        "C09_forward_step", "C09_forward", "C09_state_only_advances", "C09_blockers_only_shrink",
        "C09_counters_never_decrease", "C09_complete_stays_complete", "C09_blockers_cleared", "C09_holder_copy_current",
        # system level, done => result
        "C09_done_has_result", "C09_done_has_result_partial", "done_without_result_witness",
        # system level, fault-free op sequences
        "C09_counters_exact", "C09_counter_order", "C09_completions_counted_once",
        "C09_torn_update_completed", "C09_counters_after_completed_torn_update", "torn_update_witness",
        # cluster API level (real _update_job_status arithmetic, versions)
        "C09_statusInv_order", "C09_create_statusInv", "C09_update_preserves", "C09_update_assertion_double_submit",
        "C09_update_assertion_iff", "C09_promote_demote_preserve", "C09_markComplete_preserves",
        "C09_completeHpcId_preserves", "C09_update_monotone", "C09_versions_monotone",
        "C09_prepareResubmit_statusInv", "C09_prepareResubmit_unselected_breaks_statusInv",
        "C09_prepareResubmit_then_submitted_exceeds_total", "C09_serializeJobs_bumps_without_change",
        "C09_update_resubmits_done_silently",
    ],
    suites=["system", "cluster"],
    level_text="Machine-checked, two levels. (1) System model (whole submissions: submitter rounds, cancel-jobs, node runners, "
               "scheduler; every state of a run is a lock-free instant), by induction over the op list. ALL op sequences "
               "(every schedule, kills, exceptions, lost batches, failed sbatch, a collector dying mid-move, a crash between "
               "the two file writes): every accepted event moves the persisted status only forward — per job the state rank "
               "never decreases and the remaining-blockers set only shrinks, both counters never decrease, is_complete and "
               "is_canceled are sticky (Fwd: C09_forward_step, C09_forward) — and a submitted/done job lists no blockers; "
               "the auxiliary invariant is that the role holder's in-memory copy is never behind the disk (LocInv; only the "
               "holder writes). Every done job has a recorded result: proved for all histories without the op persistJobs "
               "(all other faults allowed); over all ops it is FALSE in the model (persistJobs is accepted from any failed "
               "round: done_without_result_witness, by decide) and proved with that exception spelled out "
               "(C09_done_has_result_partial). FAULT-FREE op sequences: completed = #done, submitted = #(submitted or done), "
               "hence completed <= submitted <= total (C09_counters_exact / C09_counter_order), from token-uniqueness "
               "invariants (FlowA/FlowB: one row per job, collected into one round, the persisting round finds the job "
               "submitted; a job canceled by the submitter is counted once in each counter) and the arithmetic lemma "
               "persist_counts. After a crash between the two file writes the counters run ahead of the job states "
               "(torn_update_witness) until the second write, after which the files are exactly those of an uninterrupted "
               "update (C09_torn_update_completed). PARTIAL: exactness of the counters is not proved for histories with the "
               "other faults (kill, exception, lost batch, failed sbatch, collector dying mid-move). (2) Cluster API model "
               "(real arithmetic of Cluster._update_job_status and the other writers on the four files, version numbers "
               "included, every decision regenerated from the source): a round's update on consistent files by a current "
               "handle raises nothing, keeps StatusInv, moves only forward, strictly increases the job-status version; "
               "versions never decrease and increase whenever a file changes.",
    level_note="Tied to the code by (a) history replay of real multi-process executions through the system model "
               "(plain/busy/cancel modes: real submit-jobs, try-submit-jobs, cancel-jobs, show-status, run-jobs under the "
               "deterministic scheduler) with the status read after EVERY release of the cluster lock, and (b) differential "
               "testing of real Cluster objects on real files against the cluster model after every operation. Direct oracles "
               "(independent of Lean) state C09 on what show-status reads: counter order and equalities, done => row, no "
               "blockers once submitted, version files = versions in the files, and between consecutive snapshots: counters, "
               "per-job state order, blocker sets, is_complete, versions non-decreasing and increasing on change. The system "
               "model has no version numbers (cluster level) and no resubmission op. KNOWN FINDING (DESIGN 9.7, same defect as "
               "C13 resubmit.no_missing.counters): Cluster.prepare_for_resubmission writes submitted_jobs = num_jobs - |rerun| "
               "although unselected never-submitted jobs exist (resubmit-jobs --no-missing after a canceled, force-completed "
               "submission): submitted_jobs counts a NOT_SUBMITTED job; proved as "
               "C09_prepareResubmit_unselected_breaks_statusInv, reported by the cluster suite with key "
               "resubmit.unselected_not_submitted_counted. Trusted: Lean kernel (+propext, Classical.choice, Quot.sound), "
               "tools/extract.py, vcluster harness and event translation, the cluster suite's marker lock.",
    assumptions=["the cluster lock serialises lock sections (SoftFileLock, trusted, DESIGN 8)",
                 "fault-free histories for the counter equalities (no kill / exception / lost batch / failed sbatch / torn write)",
                 "no persistJobs event for 'every done job has a result' (the model accepts the second half of a torn update "
                 "from any failed round; the real code reaches that write only inside update_job_status)",
                 "no resubmission inside the quantified system histories; resubmission is covered at the cluster-API level and by C13",
                 "cluster level: role protocol (C10) and well-formed update arguments as a round produces them (UpdateArgsOK)"],
    explanation="Proofs/SystemStatus.lean (LocInv, Fwd, DoneRow; all ops), Proofs/SystemStatusFlow.lean + SystemStatusRun.lean "
                "(FlowA/FlowB/Counters; fault-free), Props/ClusterStatus.lean (cluster API), Props/C09.lean.",
)
