"""Registry entry for C10."""

PROP = dict(
    module="JadeModel.Props.C10Live", ns="Jade.C10",   # imports Props/C10Crash (which imports Props/C10): + failed / stalled calls
    required=["C10_load_promotion_refused_while_held", "C10_promotion_refused_while_held", "C10_mutex",
              "C10_mutex_needs_protocol", "C10_demote_only_from_submitter_host", "C10_stale_rejected", "C10_stale_jobstatus_rejected",
              "C10_prepareResubmit_stale_partial", "C10_prepareResubmit_jsStale_writes_config",
              "C10_protocol_never_stale", "C10_versions_monotone", "C10_versions_agree_after_any_history",
              "C10_version_file_never_behind", "C10_torn_write_detectable", "C10_older_copy_rejected_after_crashes",
              "C10_torn_extension_conservative", "C10_empty_version_file_fails_closed", "C10_empty_version_file_stays_closed",
              "C10_empty_version_file_no_mismatch",
              "C10_live_extension_conservative", "C10_live_holder_excludes", "C10_stalled_call_holds_lock", "C10_parked_call_keeps_lock",
              "C10_failed_handle_still_refused", "C10_failed_handle_jobstatus_still_refused", "C10_failed_write_not_ahead", "C10_older_copy_rejected_after_failed_writes"],
    suites=["cluster"],
    level_text="Machine-checked Lean theorems over a model of jade/jobs/cluster.py with any number of handles on any hosts, for "
               "ALL sequences of public API calls (induction over the operation list; invariants RoleInv / Coherent): promotion "
               "refused while held, at most one role holder under the (decidable) role protocol with a proved witness that the "
               "hostname comparison alone does not give mutual exclusion, rejection of every write by a handle with an out-of-date "
               "copy with NO hypothesis on the history (files unchanged, exactly the deadlock marker appears), holders never "
               "stale, version files monotone; and over the alphabet extended by KILLS of a writer between the individual file writes of one "
               "lock hold (Model/ClusterCrash.lean; the write order version-file-first is regenerated from the statement order of "
               "_serialize/_serialize_jobs): after any history of API calls and kills no version file is behind the contents, a torn "
               "write that put new contents on disk makes every surviving handle fail the version compare, and a copy older than the "
               "contents is rejected; and over the alphabet further extended by kills INSIDE a file write (TSys/TOp/stepT: a version "
               "file, written by truncate-then-write, is left EMPTY; conservative over the previous alphabet): in ANY state, while a "
               "version file is empty no API call and no kill changes that (data file, version file) pair - the code fails closed "
               "(int('') raises in every reader) until the file is rewritten by hand; and over the alphabet further extended "
               "(Model/ClusterLive.lean, conservative again) by calls one of whose file writes RAISES OSError while the handle lives on "
               "(what the handle then holds in memory follows the statement order of _serialize/_serialize_jobs) and by calls "
               "STALLED inside the lock section (stallBegin/stallEnd): while the lock file of a live holder is present every "
               "lock-taking call of every other process - with or without a kill point / failing write - returns the lock timeout "
               "and changes neither files nor handles (C10_live_holder_excludes; the model has no notion of the age of the lock "
               "file), and a handle that failed an operation is refused like any other when its copy is out of date "
               "(C10_failed_handle_still_refused: the handle has no memory of an earlier version check); "
               "C10_failed_write_version_reused is a proved WITNESS of a defect of the unchanged code (findings/f9f: a failed write "
               "of a version file leaves the handle one version ahead; after one write by anybody else its out-of-date copy is accepted). Every decision (has_submitter, am_i_submitter, the version compares, the two "
               "changed-tests incl. which remembered hash each compares against, the asserts and counter updates of "
               "_update_job_status, …) is regenerated from the source on each run; the statement order is tied by differential "
               "testing of REAL Cluster objects on real files (result enum and parsed content of the four files, backups and "
               "lock marker compared after every operation, including after every kill point).",
    level_note="Trusted: Lean kernel (+propext, Classical.choice, Quot.sound), tools/extract.py, the cluster correspondence suite "
               "(SoftFileLock replaced by a non-blocking marker lock; socket.gethostname patched per handle). Python str hashes "
               "are treated as injective (a hash is modelled by the value hashed). Mutual exclusion of the lock itself "
               "(SoftFileLock/O_EXCL on the shared filesystem) is outside this model; kills strike between file writes or inside the write of a "
               "version file (open(f,'w') + write(): the file is left empty; a partially written number is not modelled - the "
               "text is a few bytes written by one write() call), with "
               "_serialize_file (rename to .bk, write, remove .bk) taken as ONE write (a kill inside it is the system model's / C11's; "
               "a crash op with torn=true at a data-file write degenerates to the kill right before that write). The reads "
               "_get_config_version/_get_job_status_version are NOT translator sites: their behaviour on an empty file "
               "(ValueError for every reader) is tied by the cluster correspondence suite (result enum + files after every op of "
               "histories with torn kills, ~40 torn files per quick run) and stated directly by the content-based oracle "
               "stale.overwrote_newer_config / stale.overwrote_newer_jobstatus. Known API-level deviation, proved as a witness theorem and not reachable from any CLI "
               "flow: prepare_for_resubmission by a handle whose job-status copy (only) is out of date rewrites the config "
               "before raising JobStatusVersionMismatch.",
    assumptions=["no hash collisions between distinct JSON texts", "the cluster lock serialises lock sections (trusted, DESIGN 8)",
                 "Protocol (role holders are the only writers) for the mutual-exclusion and never-stale theorems — "
                 "decidable per run, checked of every generated run by the suite; NOT assumed for stale-write rejection",
                 "a killed process never acts again; its lock marker either stays (later locked calls time out) or is removed",
                 "no tampering with the files behind the API for the history-dependent theorems (forged version files are "
                 "generated by the suite and covered by the history-free theorems)"],
    explanation="Component-level proof over the cluster API: the theorems quantify over every interleaving of load/promote/"
                "demote/update/mark*/complete_hpc_job_id/prepare_for_resubmission/read by any handles on any hosts. That JADE's "
                "own commands respect Protocol is the subject of the system model (RoleInv there) and of the single-writer audit.",
)
