"""Registry entry for C11."""

PROP = dict(
    module="JadeModel.Props.C11", ns="Jade.C11",
    required=["C11_no_double_submission", "C11_no_double_start", "C11_order_respected", "C11_rows_never_lost",
              "C11_wedged_refuses", "C11_wedged_forever", "C11_dead_holder_blocks", "C11_squeue_transient"],
    suites=["system"],
    level_text="Machine-checked invariants of the system model over the FULL op alphabet: kill at any boundary event of any "
               "process (lock sections are split at the file mutation where the process died), any exception followed or not "
               "by the finally-demote, for every continuation with any number of further submitter attempts - under both "
               "lock-library behaviours, since every event sequence is quantified over. Tied to the code by replaying the "
               "event histories of real executions with injected kills (at yield points and inside steps at the k-th file "
               "mutation), failing sbatch/squeue, lock timeouts and failing writes through the model.",
    level_note="Trusted: Lean kernel (+3 standard axioms), harness/vcluster.py (kill = thread parked forever, no finally runs), "
               "event translation. Partial writes are modelled as 'mutation happened or not' (a torn file is unreadable for "
               "everybody and nobody acts; the simulation produces them: EDQUOT at the first write after a successful - "
               "truncating - open, kill before the buffer is flushed); the single fault strikes in any round, on submitter "
               "processes and (mode nodefaults: lock timeout / quota error when a node appends a result) on node runners; the real filelock staleness heuristics (PID reuse, host comparison) are outside.",
    assumptions=["a kill / quota error strikes before a file mutation, or after the open succeeded and before any byte reached "
                 "the disk (file created / truncated, buffered writes lost) - not in the middle of the bytes of one write",
                 "one boundary event = one atomic step"],
    explanation="Proofs/System.lean (RoleInv, Orphan, BatchInv), Proofs/SystemNode.lean, Proofs/SystemRows.lean.",
)
