"""Registry entry for C12."""

PROP = dict(
    module="JadeModel.Props.C12", ns="Jade.C12",
    required=["C12_no_fabricated_finished", "C12_no_fabricated_canceled", "C12_finished_keep_results",
              "C12_waiting_never_started", "C12_stuck_never", "C12_cycle_never_runs", "C12_failed_sbatch_not_active",
              "C12_dead_node_silent", "C12_completes_when_nothing_active", "C12_decision", "C12_missing_exact"],
    suites=["system", "tally"],
    level_text="Machine-checked over ALL scenarios and ALL op sequences of the system model, in which failed sbatch calls, "
               "killed nodes (kill at any point before/while jobs run) and vanished batches are ordinary operations: no result "
               "is fabricated (a finished row needs a start and carries the exit code; a canceled row needs the flag and a bad "
               "blocker row); rows of finished jobs are never lost; a job with a blocker that has no outcome is never started; "
               "stuck sets (dependency cycles) never run and never get a row; a failed sbatch adds no active id; a dead node "
               "writes nothing; a round that ends with no active batch decides 'complete' (forced completion) and a quiescent "
               "round always submits or completes (C05). Component: missing = configured minus rows, the four counters "
               "partition the configuration (real _handle_completion arithmetic). "
               "PARTIAL: that the run reaches such a quiescent round is liveness (oracle on real executions).",
    level_note="Tied by history replay of real executions in 'batchfaults' mode (random subsets of sbatch failures, node kills "
               "before/while jobs run, walltime kills, dependency cycles) and 'nodefaults' mode (the node runner dies of a lock "
               "timeout or a quota error - at open or at write time - while appending a result) with try-submit-jobs recovery; the direct oracle "
               "compares results.json (results + missing_jobs) with the simulator's ground truth of which jobs ran to the end. "
               "Trusted: Lean kernel (+3 axioms), vcluster + translation. A node killed while it is submitter is C11.",
    assumptions=["squeue stops listing a killed / timed-out batch", "exit codes are a function of the job"],
    explanation="Proofs/SystemLoss.lean, Proofs/SystemOutcome.lean, Proofs/SystemProgress.lean, Props/C20.lean.",
)
