"""Registry entry for C13 (resubmission reruns exactly the selected jobs and their dependents)."""

PROP = dict(
    module="JadeModel.Props.C13", ns="Jade.C13",
    required=[
        "select_spec", "select_entry_unique", "select_nodup",
        "closure_spec", "closure_assert_never_fires", "closure_assert_fires_on_dangling_blocker",
        "closure_contains_selection", "closure_blockers_spec", "closure_blockers_written",
        "closure_idempotent", "closure_monotone",
        "clear_preserves",
        "prepare_spec", "prepare_statusInv_iff", "prepare_candidates_iff", "prepare_statusInv_with_missing",
        "rerun_blockers_in_closure",
        "refuses_incomplete", "refuses_incomplete_keeps_foreign_role",
        "failure_not_stranded", "failure_releases_role", "failure_leaves_way_forward", "groups_file_failure_keeps_role", "held_role_blocks_resubmission",
        "repeat_after_failure_same_selection", "early_failure_state", "repeat_after_failure_same_result",
        "success_spec",
        "noMissing_counters_witness", "default_flags_on_witness", "groups_file_witness", "prepare_write_failure_witness",
    ],
    suites=["resubmit", "system"],
    level_text="Machine-checked Lean theorems about the resubmit-jobs command for all configurations (any number of jobs, "
               "any blocker relation over the listing order incl. backward edges, self loops and cycles), all result sets "
               "(results.json read with dict semantics), all 8 flag combinations, all environment-supplied failure points "
               "(load, groups file, missing results.json, closure, reset before/after the CSV rewrite, the three writes of "
               "prepare_for_resubmission, events cleanup with and without an events/ directory, JobSubmitter.load, the "
               "submit round) and repeated invocations: selection, closure (= reflexive-transitive closure of 'is a "
               "configured blocker of'; the bounded iteration reaches the fixpoint and its assertion never fires), the "
               "blockers written (= blockers ∩ rerun set), result pruning (other rows unchanged, in order), the state "
               "written, refusal on incomplete submissions, role release on every failure that erased rows, and "
               "repeatability after a failure.  Every decision (result classes, flag handling, loop tests, the assert, the "
               "row filter, the assignments and branches of prepare_for_resubmission, refusal structure, order of the "
               "steps in the try block, events guard, placement of demote_from_submitter, exit code) is regenerated from "
               "resubmit_jobs.py / result.py / results_aggregator.py / cluster.py / enums.py on every run; the control "
               "flow is tied by differential testing of the real callback on fabricated submissions.",
    level_note="Scope: these theorems are about the command.  That the reset submission then RUNS every job of the rerun "
               "set once, in dependency order, and ends with one entry per job is carried by the system-level theorems "
               "C01/C02/C03, which hold for any initial state satisfying the status invariants, applied to the reset "
               "state: prepare_statusInv_iff proves the state written satisfies them IFF no never-submitted job is left "
               "outside the rerun set (always the case with --missing on a coherent completed submission: "
               "prepare_statusInv_with_missing), and rerun_blockers_in_closure proves the written blockers are exactly "
               "blockers ∩ rerun set (so a rerun job waits only for rerun jobs).  The suite additionally drives real "
               "reruns to completion (real try-submit-jobs rounds) and checks launches, order and final entries directly. "
               "KNOWN FINDING (--no-missing): a never-submitted job outside the rerun set (e.g. canceled then "
               "force-completed submission) stays NOT_SUBMITTED while prepare_for_resubmission writes submitted_jobs = "
               "num_jobs - |rerun set| (counter invariant false, DESIGN 9.7) and the next submit round batches and runs "
               "that unselected job; afterwards submitted_jobs > num_jobs.  Proved as noMissing_counters_witness "
               "(decide), replayed by findings/f97_resubmit_no_missing.py and by the suite (keys "
               "resubmit.no_missing.counters / resubmit.no_missing.unselected_job_runs).  OBSERVATION (not a violation of "
               "the property's conjunction, nothing is erased): the --submission-groups-file block runs after promotion "
               "and before the try/finally; a file that cannot be loaded/validated leaves the submitter field set, and "
               "every later resubmit-jobs dies on `assert promoted` (groups_file_failure_keeps_role, "
               "held_role_blocks_resubmission, groups_file_witness).  KNOWN FINDING (resubmit.prepare_failure.wedged): a write failure inside "
               "prepare_for_resubmission before job_status.json is written (its first or second write) leaves the rows of "
               "the rerun set erased, the config written by the finally-demote from the already mutated in-memory object "
               "(is_complete=false, counters reset) and the job states old (all DONE): every later try-submit-jobs fails "
               "the completed_jobs assertion of _are_all_jobs_complete and resubmit-jobs refuses - results erased and no "
               "way forward, although the role is released.  Proved as prepare_write_failure_witness (decide), replayed "
               "by findings/f9d_resubmit_prepare_failure.py and by the suite, which after every injected failure that "
               "erased rows runs try-submit-jobs and resubmit-jobs on the real directory (restoring it afterwards) and "
               "reports a wedge; failure_leaves_way_forward proves that EVERY other failure point leaves either the old "
               "status (command repeatable, repeat_after_failure_same_result) or exactly the fully prepared state of a "
               "successful command (try-submit-jobs can act).  clear_results_for_resubmission rewrites surviving rows with \\r\\n terminators, '1' -> "
               "'1.0' and hpc_job_id None -> '' (values of name/return code/status/times preserved; compared "
               "semantically).  Trusted: Lean kernel (+propext, Classical.choice, Quot.sound), tools/extract.py + "
               "tools/sites/resubmit.py, the `resubmit` suite (fabrication with the real classes, fakes at the subprocess "
               "boundary, failure injection by monkeypatching).  Not modelled: version counters of the cluster files "
               "(C10), locking of prepare_for_resubmission (DESIGN 9.7, C09), the submit round itself.",
    assumptions=[
        "job names unique and equal in config.json, job_status.json (JobContainerByName; listing order = index)",
        "configured blockers exist (check_job_dependencies) for the theorem that the in-loop assertion never fires; "
        "the hypothesis-free counterexample is proved (closure_assert_fires_on_dangling_blocker)",
        "no concurrent writer while the command holds the submitter role (C10); demote_from_submitter itself does not fail",
        "failures are exceptions raised at the modelled points (not SIGKILL: a killed command runs no finally, C11)",
    ],
    explanation="Component-level proof about Model/Resubmit.lean, whose decision points (Gen/Resubmit.lean) are regenerated "
                "from the source on every run.  The `resubmit` suite fabricates completed and incomplete submissions with "
                "the real JobSubmitter.create / Cluster.create / ResultsAggregator / write_results_summary / "
                "mark_complete (any DAG <= 8 jobs incl. reversed listing orders and cycles, any mix of successful / failed "
                "/ canceled / missing, with and without events/, stale or duplicated results.json), then drives "
                "_get_jobs_to_resubmit, _update_with_blocking_jobs, _reset_results, Cluster.prepare_for_resubmission and "
                "sequences of whole resubmit_jobs.callback invocations (role free / held by another host / by the same "
                "host, groups-file variants, one injected failure per invocation, reruns finished through real "
                "try-submit-jobs rounds) and compares selected set, closure, blockers, rows, states, counters, flags, "
                "events directory, exit code / exception and submitter field with the Lean driver; direct oracles "
                "(Python BFS, row preservation, byte-identical files on refusal, role release) are independent of Lean.",
)
