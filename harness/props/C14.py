"""Registry entry for C14."""

PROP = dict(
    module="JadeModel.Props.C14", ns="Jade.C14",
    required=["C14_no_sbatch_after_cancel", "C14_never_late", "C14_canceled_sticky", "C14_all_active_scancelled",
              "C14_rows_kept", "C14_missing_reported"],
    suites=["system", "tally"],
    level_text="Machine-checked invariants of the system model over ALL op sequences (every moment of cancel, every later "
               "command sequence, kills/failures included): once the canceled flag is on disk no sbatch event is possible "
               "(the gate reads the copy loaded at promotion; cancel needs the role, so a round that could still submit ended "
               "before the flag was written); at the marking step every batch that was active has been scancel'ed; rows are "
               "kept; the summary's missing list is exact (C20 tally theorem). Tied by history replay of real cancel-jobs / "
               "try-submit-jobs / show-status executions.",
    level_note="Genuine defect found and repaired first (fix: commit 363ea10, known_findings.json): before it no gate existed. "
               "The model assumes scancel succeeds for listed ids. The simulation does not: scancel of an id that has ended "
               "returns 1 ('Invalid job id specified'), a scancel may fail transiently for a live batch (the user then runs "
               "cancel-jobs again; such histories are judged by the direct oracles only, the model replay is skipped), and a "
               "submitter round may hang in squeue/sbatch for minutes of virtual time while cancel-jobs retries its promotion "
               "60 times, gives up, and is run again later. Direct oracles: no sbatch after the flag is on disk; every batch "
               "queued or running at the mark was sent a scancel by then (by the marking process: all recorded ids); no second "
               "live role holder. Trusted: Lean kernel (+3 axioms), vcluster harness and translation.",
    assumptions=["scancel of a listed id ends that batch (model; the oracles also cover failing scancel calls)",
                 "no resubmission inside the quantified histories (C13)"],
    explanation="Proofs/SystemGate.lean (GateInv), Proofs/SystemCap.lean, Proofs/SystemRows.lean.",
)
