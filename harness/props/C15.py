"""Registry entry for C15 (pipeline stages run strictly in order, each exactly once)."""

PROP = dict(
    module="JadeModel.Props.C15", ns="Jade.C15",
    required=[
        "C15_next_outcome", "C15_rejected_unchanged", "C15_accepts_in_order",
        "C15_stage_num_matches", "C15_stage_num_monotone",
        "C15_each_stage_submitted_once", "C15_submitted_length", "C15_submitted_after_report", "C15_handover_consistent",
        "C15_return_codes_recorded", "C15_return_codes_pending",
        "C15_complete_only_after_last", "C15_after_complete",
        "C15_failed_submission_persisted",
        "C15_next_after_mark_complete", "C15_completion_status", "C15_completion_advances",
        "C15_orderly_run_completes",
    ],
    suites=["pipeline", "syspipe"],
    level_text="Machine-checked Lean theorems for every number of stages and EVERY finite sequence of `jade pipeline submit` / "
               "`jade pipeline submit-next-stage --stage-num=k --return-code=r` commands (duplicates, out-of-order, before the "
               "start, after completion; any integer k and r; any behaviour of auto-config and run_submit_jobs per call) — "
               "unbounded, by induction over the command sequence with an inductive invariant of pipeline.json.  The model "
               "interprets statement programs and tests generated from PipelineManager._submit_next_stage on every run (order "
               "of record-rc / increment / completion test / serialize / auto-config / run_submit_jobs / ret test; the "
               "acceptance test, both list indices, the completion test), and the completion tail of "
               "JobSubmitter._handle_completion (order of mark_complete and the next-stage command, guard, next_stage "
               "expression, command template).  Tied to the code by differential testing through the real click commands on "
               "real pipeline directories, and through the real run_submit_jobs / Cluster / _handle_completion for the glue.  "
               "SYSTEM level (suite `syspipe`): whole pipelines of 1-4 stages run through the real `jade pipeline submit`, the real "
               "per-stage submissions (batches, node processes, try-submit-jobs) and the real `submit-next-stage` child "
               "processes under the deterministic cluster simulation, with seeded schedules, in a fault-free and a fault mode "
               "(squeue outage, lifecycle command that cannot be started, killed submitter / hand-off process, lost batch, "
               "sbatch outage, repeated hand-off command); the property's sentence is evaluated directly on the observed "
               "events and on pipeline.json after every step, and every history is projected to the model's command "
               "sequence and compared (result, persisted state, hand-over per command).",
    level_note="Trusted: Lean kernel (+propext, Classical.choice, Quot.sound), tools/extract.py + tools/sites/pipeline.py, the "
               "`pipeline` correspondence suite (fakes: the auto-config commands and the `jade pipeline submit-next-stage` child "
               "process at the subprocess boundary of jade.utils.run_command — the child is executed in-process through the "
               "real click group; JobSubmitter.run_submit_jobs stubbed inside jade.jobs.pipeline_manager for op pipeline.run, "
               "only JobSubmitter.submit_jobs replaced for op pipeline.completion); for `syspipe` harness/vcluster.py + "
               "harness/vpipeline.py (fake sbatch/squeue/scancel/job processes/hook and config commands, cooperative lock, "
               "virtual time; nothing of JADE stubbed) and the projection `project` of harness/suites/syspipe.py.  "
               "Sequential model: one command at a time; that the real commands never overlap is checked on every history "
               "(an overlapping history is left to the direct oracle).  Liveness under crashes is not claimed: a completing "
               "submitter killed between mark_complete and the hand-off strands the pipeline (findings/f15_*).",
    assumptions=[
        "pipeline.json has no lock: safety against two concurrent `submit-next-stage` processes rests on the single "
        "completion of each stage's submission (property C05, proved elsewhere)",
        "the stage's own batches and submitters are the subject of C01-C06; here a stage's submission is the call of "
        "JobSubmitter.run_submit_jobs and its completion is the call of JobSubmitter._handle_completion",
        "`jade pipeline submit --force` (delete and start over) creates a new pipeline and is a new run of the model",
        "the pipeline has at least one stage where the theorem says so (C15_complete_only_after_last); the CLI cannot "
        "create an empty pipeline",
        "API-level calls PipelineManager.submit_next_stage(k) without return code on an existing pipeline are outside the "
        "CLI surface (`--return-code` is required); the model shows they re-submit the current stage (example in Props/C15)",
    ],
    explanation="Theorems about Model/Pipeline.lean, an interpreter of the `List Stmt` programs and predicates of "
                "Gen/Pipeline.lean (regenerated from pipeline_manager.py, cli/pipeline.py, job_submitter.py, enums.py on "
                "every run).  Proofs/Pipeline.lean first proves the interpreter equal to a closed form (the only place where "
                "the generated text is unfolded), then an inductive invariant (stage_num in 1..n+1, is_complete iff "
                "stage_num = n+1, return codes recorded below stage_num and empty from there on, submitted stages a "
                "sublist of 1..min stage_num n, every hand-over consistent).  The `pipeline` suite compares, after every "
                "command, the persisted pipeline.json, the stub invocation (arguments + bytes of pipeline.json at that "
                "moment) and the exception type with the Lean driver, and states the property directly in its oracle.",
)
