"""Registry entry for C16 (setup and teardown commands run exactly once, at the right time)."""

PROP = dict(
    module="JadeModel.Props.C16", ns="Jade.C16",
    required=["C16_node_hooks_on_every_node", 
        "C16_round_trace", "C16_node_trace", "C16_local_order",
        "C16_round_commands", "C16_node_commands",
        "C16_no_setup_after_first_call", "C16_setup_first", "C16_setup_exactly_once", "C16_setup_before_everything",
        "C16_setup_before_sbatch", "C16_failing_setup_stops",
        "C16_round_counts", "C16_teardown_once_per_completion", "C16_teardown_after_summary_before_flag",
        "C16_flag_after_teardown", "C16_summary_accounts_for_every_job", "C16_summary_content",
        "C16_node_setup_before_jobs", "C16_node_teardown_after_jobs", "C16_node_commands_once",
        "C16_commands_transparent_node", "C16_rows_recorded", "C16_failing_node_setup_aborts",
        "C16_commands_transparent_round", "C16_setup_before_every_node_event",
    ],
    suites=["lifecycle", "system"],
    level_text="Machine-checked Lean theorems for ALL configurations (the four commands independently set/unset), all return "
               "codes of the commands, local and HPC mode, every list of batches, every queue run on a node (any list of job "
               "starts and result rows), every sequence of submit_jobs calls over a submission's life (any number of "
               "try-submits, resubmissions, completions; any results: passed, failed, canceled, missing) and every "
               "interleaving of submit side and nodes — unbounded.  The model is an interpreter of straight-line programs "
               "(statement order, guards, finally-blocks, raise-vs-ignore of each command's return code, exported environment "
               "variables, which entry point builds a new submission) that the translator regenerates from "
               "JobSubmitter.submit_jobs, JobSubmitter._handle_completion, JobRunner.run_jobs, cli/run_jobs.py, "
               "check_run_command and the entry points on every run.  Proved: setup is the first submit-side event of every "
               "history and never runs again; teardown exactly once per completion, immediately after the results summary "
               "(which accounts for every job) and before the flag, whatever the results and its own return code; per batch "
               "node setup before every job start, node teardown after the whole queue run, once each, documented "
               "environment; a node / call does exactly what it does without commands unless the (node) setup command FAILS — "
               "then it aborts before any job runs (check_run_command; stated as C16_failing_*).  What each statement kind "
               "does and that real runs follow the programs is tied by differential testing of whole simulated submissions "
               "(real entry points, fake subprocess boundary). Multi-node allocations: the node setup/teardown statements are guarded by the configuration only, never by the node id or manager flag (C16_node_hooks_on_every_node, generated), so the per-node statements hold on every node of an allocation.",
    level_note="Trusted: Lean kernel (+propext, Classical.choice, Quot.sound), tools/extract.py + tools/sites/lifecycle.py "
               "(AST -> programs; anything unrecognised makes the site stale, never silently skipped), harness/vcluster.py "
               "(deterministic simulation, fake subprocess/lock/time boundary) and the `lifecycle`/`system` suites.  Modelled, "
               "not verified: that calls of submit_jobs are serialised (C10) and that a node runs only after its sbatch "
               "(SLURM); the values of the environment variables are compared by the suites, the theorems are about which "
               "variables are exported.  Hypothesis NoLegacy: the obsolete per-group node_setup_script/node_shutdown_script "
               "are unset.  Behaviour stated, not a violation by our reading: a failing node_setup_command aborts the batch "
               "(its jobs end up missing), a failing setup_command aborts submit-jobs.",
    assumptions=[
        "obsolete submitter_params.node_setup_script / node_shutdown_script are unset (when set they replace the node commands)",
        "calls of JobSubmitter.submit_jobs on one output directory are serialised by the submitter role (property C10)",
        "a node process exists only after its batch was handed to sbatch (SLURM)",
        "fault-free processes: kills, lock timeouts and failing sbatch/squeue are the subject of C11/C12; a node killed by "
        "scancel performs a prefix of its trace (checked as such by the suite)",
        "a FAILING setup / node setup command aborts by design (check_run_command): the property's 'configuring them never "
        "prevents results' is read for commands that exit 0 and for teardown commands with any exit code",
        "results listed at completion are duplicate-free and belong to the configuration (C03/C08) where the summary is "
        "said to account for every job",
    ],
    explanation="Theorems about Model/Lifecycle.lean, an interpreter of the `List Step` programs of Gen/Lifecycle.lean "
                "(regenerated from job_submitter.py, job_runner.py, cli/run_jobs.py, cli/try_submit_jobs.py, "
                "cli/resubmit_jobs.py, utils/run_command.py, job_configuration.py on every run).  Proofs/Lifecycle.lean proves "
                "the interpreter equal to closed forms (the only place where the generated text is unfolded: a moved "
                "teardown, a setup outside `if self._is_new`, a dropped environment variable, check_run_command instead of "
                "run_command … break exactly these lemmas), then list lemmas about splitting traces.  The `lifecycle` suite "
                "runs whole submissions (all 16 command combinations, failing commands, local/HPC, resubmissions, cancel, "
                "user try-submits, random schedules) through the real entry points, cuts the history into submit_jobs calls "
                "and node processes, and compares each projected event sequence (commands with environment and return code, "
                "sbatch, job starts, result rows, summary, flag, node try-submit, exception) with the Lean driver; its oracle "
                "states the property text directly on the global event order.  The `system` suite's hooks modes keep running "
                "its own C16 oracle and the system-model correspondence.",
)
