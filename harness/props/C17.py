"""Registry entry for C17."""

PROP = dict(
    module="JadeModel.Props.C17", ns="Jade.C17",
    required=[
        # round trip
        "decode_encode_job", "decode_encode_config", "dump_load_roundtrip", "decode_normalises",
        "construct_normalises", "public_roundtrip", "blockers_order_insensitive", "blockers_members",
        "name_defaults_to_job_id", "blockers_are_strings", "explicit_keys", "elided_iff_default",
        # run_checks <-> Valid
        "runChecks_iff_checksValid", "runChecks_iff_valid", "accepted_iff_valid", "loaded_runChecks_iff_valid",
        "no_groups_stopIteration", "unparsable_walltime_assertion", "rejection_is_invalidConfiguration",
        "invalid_rejected_valid_accepted",
        # one per class of invalidity
        "rejects_duplicate_group", "rejects_hpc_type", "rejects_must_be_same", "rejects_undefined_group",
        "rejects_missing_estimate", "rejects_missing_blocker", "rejects_long_estimate", "rejects_empty_command",
        "rejects_duplicate_name", "add_jobs_spec", "loaded_is_stored", "fits_spelled_out", "wall_unset",
        # program order
        "checks_before_dump", "checks_before_dump_and_sbatch", "accepted_effects", "no_jobs_stopIteration",
    ],
    suites=["config"],
    level_text="Machine-checked Lean theorems for all jobs, job lists, group lists, lifecycle commands and JSON trees "
               "(unbounded): decode(encode(c)) = c on the normal form that the loader and the public constructor provably "
               "produce; run_checks = ok <-> Valid, both directions; one theorem per class of invalidity naming the raise "
               "site; rejection precedes config.dump, Cluster.create and submit_jobs.  The model's field tables, defaults, "
               "popped-field tuple, must_be_same tuple, check order/guard, comparisons and statement orders are regenerated "
               "from the source on every run; the decode/add_job/check skeletons are tied by differential testing on the real "
               "dump -> create_config_from_file and JobSubmitter.create / run_submit_jobs with a fake sbatch.",
    level_note="Trusted: Lean kernel (+propext, Classical.choice, Quot.sound), tools/extract.py + tools/sites/config.py, the "
               "`config` correspondence suite (fake subprocess boundary, projection of the written submission groups onto the "
               "modelled parameters).  Outside the model: the json library (a file is its parsed tree), pydantic's type "
               "coercions and whitespace stripping, TOML files, Spark jobs, user_data / job_global_config / jobs_directory, "
               "the SubmitterParams fields that play no part in the checks, what submit_jobs does after it is entered.",
    assumptions=[
        "a configuration file is modelled as the JSON tree json.load returns (integers only; object keys unique)",
        "pydantic coercions (numbers/bools given for strings, whitespace stripping, negative or non-integer numbers) are "
        "outside the model: generated inputs carry str/int/bool/None of the declared types",
        "`\\d` of the wall-time regex is modelled for ASCII digits; timedelta overflow (> 999999999 days) is not modelled",
        "spark_config is always unset; use_multi_node_manager is modelled (its forced append_output_dir is part of the normal form)",
        "degenerate inputs handled differently by the code and stated as theorems: no submission group -> StopIteration "
        "(no_groups_stopIteration); a wall time the regex does not match -> AssertionError (unparsable_walltime_assertion); "
        "no jobs -> accepted by run_checks, StopIteration inside submit_jobs (no_jobs_stopIteration)",
        "wall_times dict of check_job_runtimes is looked up first-match; equal to the dict (last wins) whenever group names "
        "are distinct, which check_submission_groups has established before",
    ],
    explanation="Theorems about Model/Config.lean whose tables and predicates (Gen/Config.lean: job fields and defaults, "
                "popped tuple and its test, must_be_same and the four tests of check_submission_groups, run_checks call "
                "order and per_node_batch_size guard, missing-estimate / missing-blocker / run-time comparisons, wall-time "
                "regex and seconds formula, serialize() keys, statement order of JobSubmitter.create and run_submit_jobs, "
                "defaults of the modelled SubmitterParams) are regenerated from the working tree on every run; the "
                "hand-written skeletons are tied by the `config` suite on the real code; the direct oracle restates C17 "
                "on the real results independently of the Lean model.",
)
