"""Registry entry for C18."""

PROP = dict(
    module="JadeModel.Props.C18", ns="Jade.C18",
    required=["C18_query_failure_decides_nothing", "C18_script_exact", "C18_script_optional_iff", "C18_run_script", "table_conservative",
              "C18_status_conservative", "C18_parse_exact", "C18_malformed_raises", "regex_is_modelled",
              "C18_sbatch_unparsable_is_error", "C18_sbatch_failure_is_error", "C18_sbatch_good_has_id",
              "C18_retry_bounded", "C18_retry_spec"],
    suites=["slurm"],
    level_text="Machine-checked Lean theorems for all scripts, all squeue texts, all sbatch responses and all outcome "
               "sequences (unbounded), over a model whose tables and decision predicates are regenerated from the source "
               "on every run; parser/retry skeleton tied by differential testing on the real functions.",
    level_note="Trusted: Lean kernel (+propext, Classical.choice, Quot.sound), tools/extract.py, the slurm correspondence "
               "suite (fake subprocess boundary). Outside the model: singularity wrapper, Unicode digits in \\d, PBS/Fake managers.",
    assumptions=[
        "squeue words are compared as ASCII/Unicode strings exactly as Python's str.split() yields them",
        "`\\d` of the sbatch regex is modelled for ASCII digits (generated responses are ASCII)",
        "singularity wrapper script is outside the model",
    ],
    explanation="Theorems about Model/Slurm.lean whose tables/predicates (Gen/Slurm.lean) are regenerated from "
                "slurm_manager.py, hpc_submitter.py and run_command.py on every run; the hand-written parser/"
                "retry skeleton is tied by the `slurm` correspondence suite on the real functions.",
)
