"""Registry entry for C19 (jobs launched exactly as configured; real exit status recorded)."""

PROP = dict(
    module="JadeModel.Props.C19", ns="Jade.C19",
    required=["C19_manager_is_node_zero", "C19_worker_records_nothing", "C19_manager_records_all", "C19_runner_flag_is_am_i_manager", 
        "posix_on_linux",
        "split_error_kind", "split_concat", "split_pad", "split_safe_word", "split_append", "split_concat_list",
        "split_plain_words", "split_quote_roundtrip", "split_dquote_roundtrip", "split_quote_all",
        "split_quoted_words", "split_total_on_plain", "split_unterminated_squote", "split_trailing_backslash",
        "generateCommand_spec", "jobCommand_spec", "nameFlag_safe", "outputFlag_safe", "launch_spec",
        "complete_records", "complete_nonmanager", "complete_success_iff", "cancel_records", "job_complete_records",
    ],
    suites=["command"],
    level_text="Machine-checked Lean theorems for all commands, all legal job names, all benign output directories, all "
               "four append_* combinations and all integer return codes (unbounded), over a character-level model of "
               "shlex.split(posix=True) and a model of generate_command / AsyncCliCommand.run / _complete / cancel whose "
               "posix flag, suffix templates and guards, environment variable names, stdio file templates and Result(...) "
               "arguments are regenerated from the source on every run.  The shlex state machine is tied to CPython's "
               "shlex by differential testing through the real AsyncCliCommand.run (exhaustive for length <= 5 over a "
               "10-character alphabet in the thorough tier). Multi-node allocations: exactly node 0 (SLURM_NODEID == '0', generated) is the manager node; it records every result, every other node none (C19_manager_is_node_zero, C19_worker_records_nothing, C19_manager_records_all).",
    level_note="Trusted: Lean kernel (+propext, Classical.choice, Quot.sound), tools/extract.py + tools/sites/command.py, the "
               "`command` correspondence suite (fake Popen at the process boundary; real processes in the probe cases). "
               "Outside the model, covered by correspondence only: the operating system handing argv / environment / "
               "exit status to and from the process, creation of the stdout/stderr files, pathlib's normalisation of the "
               "output path, the CSV round trip of the row (C08).",
    assumptions=[
        "shlex.split is CPython 3.12's (the model mirrors read_token's posix branch with whitespace_split=True, commenters='')",
        "jobs run where sys.platform contains no 'win' (posix_on_linux is proved for \"linux\"; see the note on 'darwin')",
        "the configured command and name are the values stored in the configuration: the pydantic model strips "
        "leading/trailing whitespace of both before anything else sees them",
        "legal job names are non-empty over [A-Za-z0-9_.-]; benign output directories are non-empty over "
        "[A-Za-z0-9_.-/] without trailing slash, given in normalised form (str(Path(p)) == p); names and paths with "
        "shell-special characters or whitespace are outside the property's quantifier (they are interpolated unquoted)",
        "use_multi_node_manager = False and Spark disabled (job.command is the configured command)",
        "one AsyncCliCommand per job per node (exactly-once execution and collection are C01/C08)",
    ],
    explanation="Theorems about Model/Command.lean whose decision points (Gen/Command.lean) are regenerated from "
                "async_cli_command.py, generic_command_execution.py, job_runner.py, job_manager_base.py, common.py and "
                "enums.py on every run; the hand-written lexer and the statement order are tied by the `command` suite, "
                "which drives the real AsyncCliCommand.run/is_complete/_complete/cancel, generate_command on real "
                "GenericCommandParameters, JobRunner._generate_jobs on a real configuration, reads rows back through "
                "ResultsAggregator, and (probe cases) launches real processes for exit codes 0..255.",
)
