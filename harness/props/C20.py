"""Registry entry for C20."""

PROP = dict(
    module="JadeModel.Props.C20Agg", ns="Jade.C20",
    required=["consolidate_perm", "consolidate_names", "consolidate_sorted", "consolidate_stable",
              "consolidate_idempotent", "construct_first", "construct_second", "construct_second_empty",
              "stats_general", "stats_max", "stats_min", "stats_sum", "stats_count", "stats_mean",
              "stats_negative_max", "stats_huge_min", "stats_max_witness", "stats_ordered", "proc_ordered",
              "proc_max", "proc_min", "proc_sum", "proc_mean",
              "classify_partition", "classify_invalid", "classify_canceled_zero", "tally_correct", "tally_ok_iff",
              "tally_sum", "byType_partition", "show_agrees",
              "aggregate_conservation", "aggregate_exactly_once", "aggregate_pending", "job_files_distinct",
              "aggregate_drains", "resubmit_reconsolidates"],
    suites=["events", "stats", "tally"],
    level_text="Machine-checked Lean theorems for all multisets of events over any number of log files (payload type a "
               "parameter), all histories of submitter / node-runner / job processes, aggregations, killed and requeued "
               "batches and re-run jobs (unbounded, by induction over the history), "
               "all sample sequences and all result sets (unbounded), over a model whose sort/group keys, "
               "statistics if/elif chains, initial values, divisions, Result.is_* predicates, classification chains, "
               "missing-jobs guard, and the open modes / continue / os.remove / file names of the event aggregation "
               "(JobRunner._aggregate_events, cli/run.py, cli/run_jobs.py, the submitter commands) are regenerated from "
               "the source on every run; the hand-written skeletons are tied by "
               "differential testing on the real log_event/EventsSummary, JobRunner._aggregate_events on real "
               "JobRunner objects over multi-batch histories, ResourceMonitorAggregator, "
               "JobSubmitter._handle_completion and ResultsSummary.",
    level_note="Trusted: Lean kernel (+propext, Classical.choice, Quot.sound), tools/extract.py + tools/sites/reports.py + "
               "tools/sites/reports_agg.py, the "
               "events/stats/tally correspondence suites. Outside the model: JSON encoding of event payloads (round trip "
               "checked by the events suite on generated nested payloads), the Parquet tables of resource-stat events "
               "(only their names are modelled), float rounding of sums and of the mean (dyadic samples in the tie), the "
               "order in which glob/iterdir list files (observed, passed to the model). The per-job events.log files "
               "and their aggregation into the node's log ARE in the model (Model/ReportsAgg.lean); job processes run "
               "through the real jade.cli.run.run with a stub extension, the run-jobs and submitter processes are "
               "emulated by the events suite (their setup_event_logging calls are read by the translator only: file "
               "name and open mode), and an aggregation is atomic (a runner killed between the copy and the os.remove "
               "of one job file is not modelled).",
    assumptions=[
        "timestamps are Python str (str(datetime.now()) or the stored string) and are compared as strings by code point, "
        "which is chronological order for the fixed-width format every JADE process writes",
        "an event log file is read completely before it is consolidated; the order of the globbed files is whatever "
        "Path.glob yields (stability is stated relative to that order)",
        "resource statistics samples are exact (dyadic) numbers: Python float addition/comparison on them is exact; the "
        "system statistics theorems need every sample in [0, sys.maxsize], the range the initial values 0.0 / sys.maxsize "
        "are meant for (outside it stats_negative_max / stats_huge_min say what is reported instead)",
        "result rows are for distinct configured jobs (C08) and canceled rows carry a non-zero return code (C04); a "
        "canceled row with code 0 makes _build_results raise AssertionError (classify_canceled_zero)",
    ],
    explanation="Theorems about Model/Reports.lean and Model/ReportsAgg.lean whose keys, chains, initial values, "
                "predicates, open modes and file names (Gen/Reports.lean, Gen/ReportsAgg.lean) "
                "are regenerated from events.py, resource_monitor.py, result.py, job_submitter.py, enums.py, "
                "job_runner.py, cli/run.py, cli/run_jobs.py and the submitter commands on every "
                "run; the consolidation/save/load skeleton, the aggregation loop over histories (batches killed before "
                "they aggregate, requeued under the same batch id, jobs re-run in later batches, resubmission emptying "
                "events/), the per-call statistics loop and the counting loops are tied "
                "by the `events`, `stats` and `tally` correspondence suites, whose direct oracles (multiset equality per "
                "name incl. payload between what every process wrote and the summary - each event as often as written, "
                "pending per-job files excluded -, sortedness, stability, idempotence; min/max/mean against Python's "
                "min/max/sum/len on exact fractions; tallies against an independent classification) state the property "
                "on the real output.",
)
