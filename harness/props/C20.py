"""Registry entry for C20."""

PROP = dict(
    module="JadeModel.Props.C20", ns="Jade.C20",
    required=["consolidate_perm", "consolidate_names", "consolidate_sorted", "consolidate_stable",
              "consolidate_idempotent", "construct_first", "construct_second", "construct_second_empty",
              "stats_general", "stats_max", "stats_min", "stats_sum", "stats_count", "stats_mean",
              "stats_negative_max", "stats_huge_min", "stats_max_witness", "stats_ordered", "proc_ordered",
              "proc_max", "proc_min", "proc_sum", "proc_mean",
              "classify_partition", "classify_invalid", "classify_canceled_zero", "tally_correct", "tally_ok_iff",
              "tally_sum", "byType_partition", "show_agrees"],
    suites=["events", "stats", "tally"],
    level_text="Machine-checked Lean theorems for all multisets of events over any number of log files (payload type a "
               "parameter), all sample sequences and all result sets (unbounded), over a model whose sort/group keys, "
               "statistics if/elif chains, initial values, divisions, Result.is_* predicates, classification chains and "
               "missing-jobs guard are regenerated from the source on every run; the hand-written skeletons are tied by "
               "differential testing on the real log_event/EventsSummary, ResourceMonitorAggregator, "
               "JobSubmitter._handle_completion and ResultsSummary.",
    level_note="Trusted: Lean kernel (+propext, Classical.choice, Quot.sound), tools/extract.py + tools/sites/reports.py, the "
               "events/stats/tally correspondence suites. Outside the model: JSON encoding of event payloads (round trip "
               "checked by the events suite on generated nested payloads), the Parquet tables of resource-stat events "
               "(only their names are modelled), float rounding of sums and of the mean (dyadic samples in the tie), the "
               "order in which glob/iterdir list files (observed, passed to the model), job-level events.log files "
               "before JobRunner._aggregate_events copies them into the node's log.",
    assumptions=[
        "timestamps are Python str (str(datetime.now()) or the stored string) and are compared as strings by code point, "
        "which is chronological order for the fixed-width format every JADE process writes",
        "an event log file is read completely before it is consolidated; the order of the globbed files is whatever "
        "Path.glob yields (stability is stated relative to that order)",
        "resource statistics samples are exact (dyadic) numbers: Python float addition/comparison on them is exact; the "
        "system statistics theorems need every sample in [0, sys.maxsize], the range the initial values 0.0 / sys.maxsize "
        "are meant for (outside it stats_negative_max / stats_huge_min say what is reported instead)",
        "result rows are for distinct configured jobs (C08) and canceled rows carry a non-zero return code (C04); a "
        "canceled row with code 0 makes _build_results raise AssertionError (classify_canceled_zero)",
    ],
    explanation="Theorems about Model/Reports.lean whose keys, chains, initial values and predicates (Gen/Reports.lean) "
                "are regenerated from events.py, resource_monitor.py, result.py, job_submitter.py and enums.py on every "
                "run; the consolidation/save/load skeleton, the per-call statistics loop and the counting loops are tied "
                "by the `events`, `stats` and `tally` correspondence suites, whose direct oracles (multiset equality per "
                "name incl. payload, sortedness, stability, idempotence; min/max/mean against Python's min/max/sum/len on "
                "exact fractions; tallies against an independent classification) state the property on the real output.",
)
