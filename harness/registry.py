"""Per-property registry: Lean module/namespace, required theorems, suites, notes."""

TRUSTED_BASE = [
    "Lean 4.33.0 kernel; axioms allowed: propext, Classical.choice, Quot.sound (audited per theorem each run)",
    "tools/extract.py (Python ast -> Lean tables/predicates; variable tables are the reviewed interface)",
    "correspondence harness: generators, canonicaliser, fakes at the process boundary (subprocess, time, locks)",
    "modelled, not verified: filelock.SoftFileLock, O_EXCL on the shared filesystem, SLURM, subprocess, json, csv, pydantic",
]

PROPS = {}
NOT_CLAIMED = {}
HOOK_COMMITS = []


import importlib
import pkgutil
from pathlib import Path

_here = Path(__file__).resolve().parent
for _m in sorted((_here / "props").glob("C*.py")):
    _mod = importlib.import_module(f"props.{_m.stem}")
    PROPS[_m.stem] = _mod.PROP
    if hasattr(_mod, "HOOK_COMMITS"):
        HOOK_COMMITS.extend(_mod.HOOK_COMMITS)
