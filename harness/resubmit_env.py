"""Helpers of the `resubmit` suite (C13): fabricate a submission with the REAL classes, read its files back
into the model's vocabulary, fake the process boundary, inject failures into the real resubmit-jobs callback,
and drive a rerun to completion with the real submitter rounds.

Abstract submission (JSON-able), job k is called "j<k>":
  n, blockers[k] (configured DAG by listing index), rows (processed_results.csv in file order:
  {name, rc, status, exec, ctime, hpc}), summary ("rows" = results.json written from the CSV | None = no
  results.json | explicit list), states[k] in n/s/d, blockedBy[k], complete, canceled, submitted, completed
  (None = derived from the states), events (None = no events/ directory | k files), role (free/other/same),
  batchSize, tryAdd.
"""
import contextlib
import json
import os
from pathlib import Path

import common
import jadeenv
from jadeenv import jname, jid

CREATOR = "login1"   # host that created the submission (and holds the role for role=same/other)
OTHER = "node7"      # the command's host when another host holds the role


# ------------------------------------------------------------------------------------------ process boundary
class FakeSub:
    """subprocess as seen by jade.utils.run_command: sbatch accepted, squeue empty, everything else succeeds"""
    PIPE = -1
    next_id = 5000
    sbatch_calls = []
    fail_squeue = False        # the scheduler's status query fails (for every retry) while set

    class Popen:
        def __init__(self, command, stdout=None, stderr=None, cwd=None, **kw):
            self.command = list(command)
            self.returncode = None

        def communicate(self):
            self.returncode = 0
            if self.command[0] == "squeue" and FakeSub.fail_squeue:
                self.returncode = 1
                return b"", b"slurm_load_jobs error: Socket timed out on send/recv operation"
            if self.command[0] == "sbatch":
                FakeSub.next_id += 1
                FakeSub.sbatch_calls.append(self.command[1])
                return f"Submitted batch job {FakeSub.next_id}\n".encode(), b""
            return b"", b""

    @staticmethod
    def call(command, cwd=None, **kw):
        return 0

    @classmethod
    def reset(cls):
        cls.next_id = 5000
        cls.sbatch_calls = []


class _NoSleep:
    @staticmethod
    def sleep(s):
        pass

    @staticmethod
    def time():
        import time
        return time.time()


class Patches:
    """process-wide fakes installed for the lifetime of the suite"""

    def install(self):
        import jade.utils.run_command as rc
        import jade.jobs.cluster as cl
        self.rc, self.cl = rc, cl
        self.saved = (rc.subprocess, rc.time, cl.socket.gethostname)
        rc.subprocess = FakeSub
        rc.time = common.dual_time(_NoSleep)
        jadeenv.no_repo_info()
        os.environ.setdefault("USER", "verif")
        set_host(CREATOR)
        # The installed filelock breaks an empty marker (JADE's "deadlock" marker, re-created after an exception under
        # the cluster lock) once it is 2 s old; waiting those 2 s in every wedged case only costs time.  Same behaviour,
        # no wait.  (Locks are outside this component's model.)
        try:
            import filelock._soft as fs
            self.fs = fs
            self.saved_age = fs._MALFORMED_LOCK_AGE_THRESHOLD
            fs._MALFORMED_LOCK_AGE_THRESHOLD = 0.0
        except Exception:  # noqa
            self.fs = None

    def remove(self):
        self.rc.subprocess, self.rc.time, self.cl.socket.gethostname = self.saved
        if self.fs is not None:
            self.fs._MALFORMED_LOCK_AGE_THRESHOLD = self.saved_age


def set_host(h):
    import jade.jobs.cluster as cl
    cl.socket.gethostname = lambda: h


# ------------------------------------------------------------------------------------------ canonical rows
def canon_time(x):
    return repr(float(x))


def canon_hpc(x):
    return "" if x in (None, "None", "") else str(x)


def canon_row(name, rc, status, exec_s, ctime, hpc):
    return {"name": jid(name) if isinstance(name, str) else int(name), "rc": int(rc), "status": str(status),
            "exec": canon_time(exec_s), "ctime": canon_time(ctime), "hpc": canon_hpc(hpc)}


def make_result(r):
    from jade.result import Result
    return Result(jname(r["name"]), int(r["rc"]), r["status"], float(r["exec"]), float(r["ctime"]), r.get("hpc"))


# ------------------------------------------------------------------------------------------ fabrication
def scenario(sub):
    n = sub["n"]
    return {"jobs": [{"id": k, "group": 0, "est": None, "blockers": sub["blockers"][k], "cancel": False} for k in range(n)],
            "groups": [{"batchSize": sub.get("batchSize", 2), "timeBased": False, "tryAdd": sub.get("tryAdd", True),
                        "wallSec": 3600, "procs": None}],
            "maxNodes": None}


def fabricate(out, sub):
    """Create the output directory of a (completed or not) submission with the real classes."""
    from jade.jobs.cluster import Cluster
    from jade.jobs.job_submitter import JobSubmitter
    from jade.jobs.results_aggregator import ResultsAggregator
    from jade.models import JobState
    set_host(CREATOR)
    out = Path(out)
    out.mkdir(parents=True, exist_ok=True)
    config = jadeenv.make_config(scenario(sub))
    mgr = JobSubmitter.create(config, output=str(out))
    cluster = Cluster.create(str(out), mgr.config)
    agg = ResultsAggregator.create(str(out))
    for r in sub["rows"]:
        agg.append_result(make_result(r))
    smap = {"n": JobState.NOT_SUBMITTED, "s": JobState.SUBMITTED, "d": JobState.DONE}
    states = sub["states"]
    for k, job in enumerate(cluster.job_status.jobs):
        job.state = smap[states[k]]
        job.blocked_by = {jname(b) for b in sub["blockedBy"][k]}
    sm = sub.get("submitted")
    cm = sub.get("completed")
    cluster.config.submitted_jobs = sum(1 for s in states if s != "n") if sm is None else sm
    cluster.config.completed_jobs = sum(1 for s in states if s == "d") if cm is None else cm
    cluster.config.is_canceled = bool(sub.get("canceled"))
    cluster.job_status.batch_index = sub.get("batchIndex", 1)
    if sub.get("leftoverIds"):
        # SLURM: the last node's own try-submit-jobs always sees its own batch as RUNNING, so a completed submission
        # still lists that HPC job id - the next submitter round (resubmit-jobs' own) polls the scheduler for it
        cluster.job_status.hpc_job_ids = list(sub["leftoverIds"])
    cluster.serialize("fabricate")
    cluster.serialize_jobs("fabricate")
    summary = sub.get("summary", "rows")
    if summary is not None:
        if summary == "rows":
            mgr._results = ResultsAggregator.list_results(str(out))
        else:
            mgr._results = [make_result(r) for r in summary]
        have = {r.name for r in mgr._results}
        mgr.write_results_summary("results.json", sorted({jname(k) for k in range(sub["n"])} - have))
    if sub.get("events") is not None:
        ev = out / "events"
        ev.mkdir()
        for i in range(sub["events"]):
            (ev / f"batch_{i}_events.log").write_text("{}\n")
    if sub.get("complete", True):
        cluster.mark_complete()
    if sub.get("role", "free") == "free":
        cluster.demote_from_submitter()
    return out


# ------------------------------------------------------------------------------------------ reading the files back
def read_rows(out):
    """processed_results.csv through the real reader, canonical"""
    from jade.jobs.results_aggregator import ResultsAggregator
    return [canon_row(r.name, r.return_code, r.status, r.exec_time_s, r.completion_time, r.hpc_job_id)
            for r in ResultsAggregator.load(str(out)).get_results_unsafe()]


def read_summary(out):
    p = Path(out) / "results.json"
    if not p.exists():
        return None
    data = json.loads(p.read_text())
    return [canon_row(r["name"], r["return_code"], r["status"], r["exec_time_s"], r["completion_time"], r.get("hpc_job_id"))
            for r in data["results"]]


def read_state(out):
    """the model's `Sub` as the files say now"""
    out = Path(out)
    cfg = json.loads((out / "cluster_config.json").read_text())
    js = json.loads((out / "job_status.json").read_text())
    conf = json.loads((out / "config.json").read_text())
    n = len(conf["jobs"])
    names = [j["name"] for j in conf["jobs"]]
    assert names == [jname(k) for k in range(n)], names
    assert [j["name"] for j in js["jobs"]] == names
    short = {"not_submitted": "n", "submitted": "s", "done": "d"}
    ev = out / "events"
    return {
        "n": n,
        "blockers": [sorted(jid(b) for b in j.get("blocked_by", [])) for j in conf["jobs"]],
        "summary": read_summary(out),
        "rows": read_rows(out),
        "states": [short[j["state"]] for j in js["jobs"]],
        "blockedBy": [sorted(jid(b) for b in j["blocked_by"]) for j in js["jobs"]],
        "cfg": {"submitter": cfg["submitter"], "isComplete": cfg["is_complete"], "isCanceled": cfg["is_canceled"],
                "submitted": cfg["submitted_jobs"], "completed": cfg["completed_jobs"]},
        "events": len(list(ev.iterdir())) if ev.is_dir() else None,
        "_hpc_job_ids": js["hpc_job_ids"], "_batch_index": js["batch_index"], "_num_jobs": cfg["num_jobs"],
    }


LOGS = ("submit_jobs.log", "submit_jobs_events.log")


def snapshot_bytes(out):
    """every file below the output directory (logs and lock files excluded)"""
    out = Path(out)
    res = {}
    for p in sorted(out.rglob("*")):
        if p.is_file() and p.name not in LOGS:
            res[str(p.relative_to(out))] = p.read_bytes()
    return res


def changed_files(before, after, ignore_version=False):
    ch = []
    for k in sorted(set(before) | set(after)):
        a, b = before.get(k), after.get(k)
        if a == b:
            continue
        if ignore_version and k == "config_version.txt":
            continue
        if ignore_version and k == "cluster_config.json" and a is not None and b is not None:
            da, db = json.loads(a), json.loads(b)
            da.pop("version", None)
            db.pop("version", None)
            if da == db:
                continue
        ch.append(k)
    return ch


def batch_files(out):
    """{batch index: [job ids]} of the config_batch_N.json files"""
    res = {}
    for p in Path(out).glob("config_batch_*.json"):
        idx = int(p.stem.split("_")[-1])
        res[idx] = [jid(j["name"]) for j in json.loads(p.read_text())["jobs"]]
    return res


# ------------------------------------------------------------------------------------------ failure injection
class Injected(OSError):
    pass


@contextlib.contextmanager
def inject(fail, on_round):
    """Monkeypatch the real code so that the step named `fail` raises; `on_round(mgr, cluster)` is called when the
    submit round is entered (before it runs).  Restores everything afterwards.  Returns a dict of observations."""
    import pathlib
    import jade.cli.resubmit_jobs as rj
    from jade.jobs.cluster import Cluster
    from jade.jobs.job_submitter import JobSubmitter
    from jade.jobs.results_aggregator import ResultsAggregator
    from jade.exceptions import ExecutionError
    obs = {"round_status": None, "round_entered": False, "csv_rewritten": False, "round_raised": None}
    saved = []

    def patch(obj, name, new):
        saved.append((obj, name, obj.__dict__[name] if name in obj.__dict__ else getattr(obj, name)))
        setattr(obj, name, new)

    try:
        if fail == "load":
            def bad_deserialize(*a, **kw):
                raise Injected("injected: Cluster.deserialize")
            patch(Cluster, "deserialize", staticmethod(bad_deserialize))
        if fail == "closure":
            def bad_cfg(*a, **kw):
                raise Injected("injected: create_config_from_file")
            patch(rj, "create_config_from_file", bad_cfg)
        orig_write = ResultsAggregator._write_results

        def write_results(self, results):
            if fail == "reset_before":
                raise Injected("injected: before _write_results")
            orig_write(self, results)
            obs["csv_rewritten"] = True
            if fail == "reset_after":
                raise Injected("injected: after _write_results")
        patch(ResultsAggregator, "_write_results", write_results)
        if fail == "prep_config":
            orig_ser = Cluster._serialize

            def ser(self, reason):
                if reason == "prepare_for_resubmission":
                    raise Injected("injected: _serialize")
                return orig_ser(self, reason)
            patch(Cluster, "_serialize", ser)
        if fail == "prep_jobs":
            orig_serj = Cluster._serialize_jobs

            def serj(self, reason):
                if reason == "prepare_for_resubmission":
                    raise Injected("injected: _serialize_jobs")
                return orig_serj(self, reason)
            patch(Cluster, "_serialize_jobs", serj)
        if fail == "prep_groups":
            def serg(self, directory):
                raise Injected("injected: serialize_submission_groups")
            patch(Cluster, "serialize_submission_groups", serg)
        if fail == "events":
            orig_unlink = pathlib.Path.unlink

            def unlink(self, *a, **kw):
                if self.parent.name == "events":
                    raise Injected("injected: unlink")
                return orig_unlink(self, *a, **kw)
            patch(pathlib.Path, "unlink", unlink)
        if fail == "load_mgr":
            def bad_load(*a, **kw):
                raise Injected("injected: JobSubmitter.load")
            patch(JobSubmitter, "load", staticmethod(bad_load))
        if fail == "squeue":
            FakeSub.fail_squeue = True
        orig_submit = JobSubmitter.submit_jobs

        def submit_jobs(self, cluster, force_local=False):
            obs["round_entered"] = True
            on_round(self, cluster)
            if fail == "round":
                raise ExecutionError("injected: submit_jobs")
            try:
                st = orig_submit(self, cluster, force_local=force_local)
            except Exception as e:  # the round itself raised: its error kind is part of the environment
                obs["round_raised"] = err_name(e)
                raise
            obs["round_status"] = st.name
            return st
        patch(JobSubmitter, "submit_jobs", submit_jobs)
        yield obs
    finally:
        FakeSub.fail_squeue = False
        for obj, name, old in reversed(saved):
            setattr(obj, name, old)


def write_groups_file(out, path, kind):
    """a --submission-groups-file of the given kind (ok / lenMismatch / unknownName / raises)"""
    groups = json.loads((Path(out) / "submitter_groups.json").read_text())
    if kind == "ok":
        data = groups
    elif kind == "lenMismatch":
        data = groups + groups
    elif kind == "unknownName":
        data = [dict(g, name="nosuchgroup") for g in groups]
    elif kind == "raises":
        Path(path).write_text("{not json")
        return str(path)
    else:
        raise ValueError(kind)
    Path(path).write_text(json.dumps(data))
    return str(path)


def err_name(exc):
    from jade.exceptions import InvalidConfiguration, ExecutionError
    if isinstance(exc, AssertionError):
        return "assertion"
    if isinstance(exc, InvalidConfiguration):
        return "invalidConfig"
    if isinstance(exc, ExecutionError):
        return "execError"
    if isinstance(exc, OSError):
        return "ioError"
    if isinstance(exc, ValueError):
        return "valueError"
    if isinstance(exc, (KeyError, NameError)):
        return "keyError"
    return "other:" + type(exc).__name__


ROUND_NAMES = {"GOOD": "good", "ERROR": "error", "IN_PROGRESS": "inProgress"}


# ------------------------------------------------------------------------------------------ finishing a rerun
def finish_rerun(out, rcs, done_batches, clock):
    """Let the batches that exist now (and any the real submitter creates afterwards) run: every job of a batch not
    yet processed gets a row (exit code from `rcs`, default 0) through the real per-node ResultsAggregator, then the
    real try-submit-jobs runs, until the submission is complete.  Returns (list of (batch index, [jobs])
    processed in order, error of a raising round or None)."""
    from jade.cli.try_submit_jobs import try_submit_jobs
    from jade.jobs.results_aggregator import ResultsAggregator
    from jade.result import Result
    out = Path(out)
    processed = []
    (out / "results").mkdir(exist_ok=True)
    last = None
    for _ in range(64):
        cfg = json.loads((out / "cluster_config.json").read_text())
        if cfg["is_complete"]:
            break
        now = ((out / "cluster_config.json").read_bytes(), (out / "job_status.json").read_bytes(), len(done_batches))
        if now == last:
            break   # no progress (e.g. the role is held by somebody else)
        last = now
        for idx, jobs in sorted(batch_files(out).items()):
            if idx in done_batches:
                continue
            done_batches.add(idx)
            processed.append((idx, jobs))
            for k in jobs:
                clock[0] += 1.0
                r = Result(jname(k), int(rcs.get(str(k), 0)), "finished", 1.5, 1700001000.0 + clock[0], str(9000 + idx))
                ResultsAggregator.append(str(out), r, batch_id=idx)
        set_host(CREATOR)
        try:
            try_submit_jobs.callback(str(out), False)
        except SystemExit:
            pass
        except Exception as e:  # noqa
            return processed, err_name(e)
    return processed, None


# ------------------------------------------------------------------------------------------ is there a way forward?
def _all_files(out):
    out = Path(out)
    return {p: p.read_bytes() for p in out.rglob("*") if p.is_file()}


def _restore(out, snap):
    out = Path(out)
    for p in list(out.rglob("*")):
        if p.is_file() and p not in snap:
            os.remove(p)
    for p, b in snap.items():
        if not p.exists() or p.read_bytes() != b:
            p.parent.mkdir(parents=True, exist_ok=True)
            with open(p, "wb") as f:
                f.write(b)
    for p in sorted((q for q in out.rglob("*") if q.is_dir()), reverse=True):
        if not any(p.iterdir()) and p.name not in ("events", "results"):
            p.rmdir()


def probe_way_forward(out, flags):
    """On the real code, leaving no trace (every file is restored afterwards): can try-submit-jobs act, can the same
    resubmit-jobs act?  Returns {"try_submit": "exit N" | "raised X", "resubmit": ..., "resubmit_round": bool}."""
    from jade.cli.try_submit_jobs import try_submit_jobs
    from jade.cli.resubmit_jobs import resubmit_jobs
    snap = _all_files(out)
    had_events = (Path(out) / "events").is_dir()
    res = {}
    set_host(CREATOR)
    try:
        try_submit_jobs.callback(str(out), False)
        res["try_submit"] = "exit 0"
    except SystemExit as e:
        res["try_submit"] = f"exit {int(e.code or 0)}"
    except Exception as e:  # noqa
        res["try_submit"] = "raised " + err_name(e)
    _restore(out, snap)
    with inject(None, lambda m, c: None) as iobs:
        try:
            resubmit_jobs.callback(str(out), flags[0], flags[1], flags[2], None, False)
            res["resubmit"] = "exit 0"
        except SystemExit as e:
            res["resubmit"] = f"exit {int(e.code or 0)}"
        except Exception as e:  # noqa
            res["resubmit"] = "raised " + err_name(e)
    res["resubmit_round"] = iobs["round_entered"]
    _restore(out, snap)
    if had_events:
        (Path(out) / "events").mkdir(exist_ok=True)
    lock = Path(out) / "cluster_config.json.lock"
    if lock.exists() and lock not in snap:
        os.remove(lock)
    return res
