#!/venv/bin/python
"""./check Cxx [quick|thorough] [--replay FILE]

1. regenerate JadeModel/Gen/*.lean from $JADE_SRC's working tree (tools/extract.py);
2. lake build the driver and the property's theorems; axiom audit; sorry/axiom grep;
3. corpus + correspondence suites (real code vs Lean driver) + direct oracles;
4. outcome (exit 0 / exit 1 + VIOLATION line / exit 2 infrastructure) and evidence/Cxx.json.
"""
import fcntl
import hashlib
import importlib
import json
import os
import random
import re
import subprocess
import sys
import time
import traceback
from pathlib import Path

HERE = Path(__file__).resolve().parent
VERIF = HERE.parent
LEAN = VERIF / "lean"
sys.path.insert(0, str(HERE))
sys.path.insert(0, str(VERIF / "tools"))

import common  # noqa: E402
from common import Violation, canon  # noqa: E402
import registry  # noqa: E402

STD_AXIOMS = {"propext", "Classical.choice", "Quot.sound"}
FORBIDDEN = re.compile(r"\bsorry\b|\badmit\b|^\s*axiom\s|native_decide|bv_decide|implemented_by|\bunsafe\s|maxHeartbeats\s+0")


def log(*a):
    print(*a, file=sys.stderr, flush=True)


# ------------------------------------------------------------------------------------------
# build
# ------------------------------------------------------------------------------------------
class BuildLock:
    def __enter__(self):
        (LEAN / ".lake").mkdir(exist_ok=True)
        self.f = open(LEAN / ".lake" / "verif.lock", "w")
        fcntl.flock(self.f, fcntl.LOCK_EX)
        return self

    def __exit__(self, *a):
        fcntl.flock(self.f, fcntl.LOCK_UN)
        self.f.close()


def lake(args, timeout=3000):
    p = subprocess.run(["lake"] + args, cwd=LEAN, capture_output=True, text=True, timeout=timeout)
    return p.returncode, p.stdout + p.stderr


def failed_decls(buildlog):
    """Best-effort: (file, line) -> enclosing declaration names for error lines of a build log."""
    out = []
    for m in re.finditer(r"error: ([\w/\.]+\.lean):(\d+):(\d+): (.*)", buildlog):
        f, line = m.group(1), int(m.group(2))
        p = LEAN / f
        name = None
        try:
            lines = p.read_text().split("\n")
            for i in range(min(line, len(lines)) - 1, -1, -1):
                mm = re.match(r"\s*(?:private\s+|protected\s+)?(?:theorem|lemma|def|example|instance)\s+([\w\.']+)?", lines[i])
                if mm:
                    name = mm.group(1) or "example"
                    break
        except OSError:
            pass
        out.append({"file": f, "line": line, "decl": name, "msg": m.group(4)[:200]})
    return out


def grep_forbidden(files):
    hits = []
    for f in files:
        try:
            text = f.read_text()
        except OSError:
            continue
        # strip comments
        text_nc = re.sub(r"/-.*?-/", lambda m: "\n" * m.group(0).count("\n"), text, flags=re.S)
        for i, line in enumerate(text_nc.split("\n"), 1):
            line = line.split("--")[0]
            if FORBIDDEN.search(line):
                hits.append(f"{f.relative_to(LEAN)}:{i}: {line.strip()[:120]}")
    return hits


def lean_closure(module):
    """Source files of the JadeModel modules transitively imported by `module`."""
    seen, todo, files = set(), [module], []
    while todo:
        m = todo.pop()
        if m in seen or not m.startswith("JadeModel"):
            continue
        seen.add(m)
        p = LEAN / (m.replace(".", "/") + ".lean")
        if not p.exists():
            continue
        files.append(p)
        for mm in re.finditer(r"^import\s+([\w\.]+)", p.read_text(), flags=re.M):
            todo.append(mm.group(1))
    return files


AUDIT_TMPL = """import Lean
import {module}
open Lean Elab Command in
#eval show CommandElabM Unit from do
  let env ← getEnv
  let ns := `{ns}
  let mut names : Array Name := #[]
  for (n, ci) in env.constants.toList do
    if ns.isPrefixOf n && !n.isInternal then
      match ci with
      | .thmInfo _ => names := names.push n
      | _ => pure ()
  for n in names.qsort (fun a b => a.toString < b.toString) do
    let axs ← collectAxioms n
    IO.println s!"THM {{n}} | {{axs.toList}}"
"""


def audit(prop, module, ns):
    d = LEAN / ".lake" / "audit"
    d.mkdir(parents=True, exist_ok=True)
    f = d / f"Audit_{prop}.lean"
    f.write_text(AUDIT_TMPL.format(module=module, ns=ns))
    rc, out = lake(["env", "lean", str(f)], timeout=900)
    thms = {}
    for m in re.finditer(r"^THM (\S+) \| \[(.*)\]$", out, flags=re.M):
        axs = [a.strip() for a in m.group(2).split(",") if a.strip()]
        thms[m.group(1)] = axs
    return rc, out, thms


# ------------------------------------------------------------------------------------------
# known findings
# ------------------------------------------------------------------------------------------
def load_known():
    p = VERIF / "known_findings.json"
    if not p.exists():
        return []
    return json.loads(p.read_text()).get("findings", [])


def is_known(known, v):
    for k in known:
        if k.get("status") == "known" and k["property"] == v.prop and k["key"] == v.key:
            return k
    return None


# ------------------------------------------------------------------------------------------
def load_suite(name):
    mod = importlib.import_module(f"suites.{name}")
    # `from time import sleep` / `from subprocess import Popen` in a jade module must stay behind the suites' fakes
    common.normalize_boundary()
    return mod.SUITE


def write_replay(prop, kind, payload):
    d = VERIF / "replays"
    d.mkdir(exist_ok=True)
    h = hashlib.sha1(canon(payload).encode()).hexdigest()[:10]
    f = d / f"{prop}_{kind}_{h}.json"
    f.write_text(json.dumps(payload, indent=1, sort_keys=True) + "\n")
    return f


def shrink(suite, case, still_fails, budget=200):
    cur = case
    steps = 0
    improved = True
    while improved and steps < budget:
        improved = False
        for cand in suite.shrink(cur):
            steps += 1
            if steps > budget:
                break
            try:
                if still_fails(cand):
                    cur = cand
                    improved = True
                    break
            except Exception:
                continue
    return cur


def run_suite(suite, prop, cases, driver_ok, stats, known, search_only=False):
    """Returns (violations, disagreements).  violations: list of (Violation, case, result)."""
    violations, disagreements = [], []
    results = []
    suite.setup()
    try:
        if hasattr(suite, "impl_many"):
            results = suite.impl_many(cases)   # the suite parallelises over worker processes itself
        else:
            n_timeouts = 0
            for c in cases:
                if n_timeouts >= 8:
                    # a non-terminating implementation: a handful of timed-out cases is the finding; do not spend
                    # case_timeout seconds on each of thousands of further cases
                    cases = cases[:len(results)]
                    break
                try:
                    r = _impl_timed(suite, c)
                except CaseTimeout:
                    n_timeouts += 1
                    r = {"timeout": True, "model": {"error": "timeout"}, "obs": {}}
                except Exception as e:  # harness failure on this case = infrastructure problem
                    r = {"harness_exception": f"{type(e).__name__}: {e}", "tb": traceback.format_exc()[-800:]}
                results.append(r)
        model = None
        if driver_ok and not search_only:
            if hasattr(suite, "model_from_result"):
                # history-based correspondence: the model replays the event history of the real execution
                mcases = [suite.model_from_result(c, r) for c, r in zip(cases, results)]
            else:
                mcases = [suite.model_case(c) if hasattr(suite, "model_case") else c for c in cases]
            try:
                model = common.run_driver(mcases)
            except Exception as e:
                stats["driver_errors"].append(str(e)[:300])
                model = None
        for i, (c, r) in enumerate(zip(cases, results)):
            stats["evaluations"] += 1
            if isinstance(r, dict) and "harness_exception" in r:
                stats["harness_exceptions"].append({"case": c, "exc": r["harness_exception"], "tb": r.get("tb")})
                continue
            key = canon([c.get("op"), {k: v for k, v in c.items() if k not in ("truth",)}])
            tags = suite.tags(c, r)
            for t in tags:
                stats["tags"][t] = stats["tags"].get(t, 0) + 1
            if key not in stats["seen"]:
                stats["seen"].add(key)
                if any(t for t in tags if not t.startswith("trivial")):
                    stats["distinct_nontrivial"] += 1
            if len(stats["samples"]) < 4 and (i % max(1, len(cases) // 4) == 0):
                stats["samples"].append({"suite": suite.name, "case": c, "impl": r, "model": model[i] if model else None})
            for v in suite.oracle(c, r):
                if v.prop == prop or prop in getattr(suite, "oracle_props", {}).get(v.prop, []):
                    violations.append((v, c, r))
            if model is not None:
                if isinstance(model[i], dict) and "driver_error" in model[i]:
                    stats["driver_errors"].append(f"{c.get('op')}: {model[i]['driver_error']}")
                    continue
                stats["compared"] += 1
                if (not suite.agree(model[i], r)) if hasattr(suite, 'agree') else (canon(model[i]) != canon(suite.view(r))):
                    disagreements.append((c, r, model[i]))
    finally:
        suite.teardown()
    return violations, disagreements


def main():
    argv = sys.argv[1:]
    if not argv:
        print(__doc__)
        return 2
    prop = argv[0]
    tier = os.environ.get("VERIF_TIER", "quick")
    replay = None
    rest = argv[1:]
    while rest:
        a = rest.pop(0)
        if a in ("quick", "thorough"):
            tier = a
        elif a == "--replay":
            replay = rest.pop(0)
    seed = int(os.environ.get("VERIF_SEED", "0") or 0)
    if prop not in registry.PROPS:
        log(f"unknown property {prop}")
        return 2
    P = registry.PROPS[prop]
    t0 = time.time()
    known = load_known()

    if replay:
        return do_replay(prop, P, replay, known)

    # ---- 1. translator
    import extract
    rep_file = VERIF / "evidence" / f".extract_{prop}.json"
    rep_file.parent.mkdir(exist_ok=True)
    with BuildLock():
        report = extract.run(report_file=None)
        subprocess.run([sys.executable, str(VERIF / "tools" / "gen_lean_index.py")], capture_output=True)
    stale = {k: v for k, v in report["sites"].items() if v["status"] != "ok" and prop in v["props"]}
    changed = {k: v for k, v in report["sites"].items() if v.get("differs_from_baseline") and prop in v["props"]}

    # ---- 2. build + audit
    with BuildLock():
        rc_drv, log_drv = lake(["build", "drv"])
        rc_thm, log_thm = lake(["build", P["module"]])
        if rc_thm == 0:
            rc_a, out_a, thms = audit(prop, P["module"], P["ns"])
        else:
            rc_a, out_a, thms = 1, "", {}
        if tier == "thorough" and rc_thm == 0 and os.environ.get("VERIF_SKIP_LEANCHECKER") != "1":
            mods = sorted({str(f.relative_to(LEAN))[:-5].replace("/", ".") for f in lean_closure(P["module"])})
            rc_lc, out_lc = lake(["env", "leanchecker"] + mods, timeout=3000)
        else:
            rc_lc, out_lc = None, ""
    driver_ok = rc_drv == 0 and common.DRV.exists()
    proof_problems = []
    if rc_thm != 0:
        proof_problems.append({"kind": "build", "decls": failed_decls(log_thm), "log_tail": log_thm[-1500:]})
    else:
        missing = [t for t in P["required"] if f"{P['ns']}.{t}" not in thms]
        if missing:
            proof_problems.append({"kind": "missing_theorems", "theorems": missing})
        bad_ax = {t: [a for a in axs if a not in STD_AXIOMS] for t, axs in thms.items()}
        bad_ax = {t: a for t, a in bad_ax.items() if a}
        if bad_ax:
            proof_problems.append({"kind": "axioms", "theorems": bad_ax})
        hits = grep_forbidden(lean_closure(P["module"]))
        if hits:
            proof_problems.append({"kind": "forbidden_tokens", "hits": hits})
        if rc_lc not in (None, 0):
            proof_problems.append({"kind": "leanchecker", "log_tail": out_lc[-800:]})
    if not driver_ok:
        log("driver build failed:\n" + log_drv[-1500:])

    # ---- 3. suites + oracles
    rng = random.Random(seed * 1000003 + int(hashlib.sha1(prop.encode()).hexdigest()[:6], 16))
    stats = {"evaluations": 0, "compared": 0, "distinct_nontrivial": 0, "tags": {}, "seen": set(), "samples": [],
             "driver_errors": [], "harness_exceptions": [], "per_suite": {}}
    all_viol, all_dis = [], []
    tie_broken = bool(proof_problems) or not driver_ok
    for sname in P["suites"]:
        suite = load_suite(sname)
        before = stats["evaluations"]
        corpus = [c for c in suite.corpus_cases() if prop in c.get("props", [prop])]
        cases = corpus + suite.cases(rng, tier, prop)
        v, d = run_suite(suite, prop, cases, driver_ok, stats, known)
        all_viol += [(suite, *x) for x in v]
        all_dis += [(suite, *x) for x in d]
        stats["per_suite"][sname] = stats["evaluations"] - before
    # failing-input search: wider exploration with the direct oracles when a tie is broken and
    # nothing concrete was found yet
    searched = 0
    if (tie_broken or all_dis or stale) and not [x for x in all_viol if not is_known(known, x[1])]:
        for sname in P["suites"]:
            suite = load_suite(sname)
            for k in range(3 if tier == "quick" else 10):
                r2 = random.Random(rng.random())
                cases = suite.cases(r2, tier, prop)
                searched += len(cases)
                v, _ = run_suite(suite, prop, cases, False, stats, known, search_only=True)
                all_viol += [(suite, *x) for x in v]
                if [x for x in v if not is_known(known, x[0])]:
                    break

    # ---- 4. outcome
    exit_code = 0
    lines = []
    reported = set()
    new_viol = 0
    for suite, v, c, r in all_viol:
        k = is_known(known, v)
        if k:
            if ("known", v.key) not in reported:
                reported.add(("known", v.key))
                lines.append(f"KNOWN-FINDING: property={prop} {k['what']}")
            continue
        if (v.prop, v.key) in reported:
            continue
        reported.add((v.prop, v.key))
        small = shrink(suite, c, lambda cand, s=suite, key=v.key: any(x.key == key for x in s.oracle(cand, _impl1(s, cand))))
        r_small = _impl1(suite, small)
        f = write_replay(prop, "oracle", {
            "property": prop, "kind": "failing-input", "suite": suite.name, "case": small, "impl_result": r_small,
            "violation": v.to_json(), "original_case": c if small is not c else None,
            "how": f"./check {prop} --replay <this file>"})
        lines.append(f"VIOLATION property={prop} replay={f}")
        new_viol += 1
        exit_code = 1
    flaky = []
    if new_viol == 0:
        why = []
        if proof_problems:
            why.append({"proof": proof_problems})
        if not driver_ok:
            why.append({"driver_build_failed": log_drv[-1200:]})
        # The harness is deterministic (seeded schedules, virtual time, fake boundary): a disagreement that does not show
        # again when its case is run again says something about the machine (load, a watchdog), not about the code.  A
        # handful of disagreements is therefore confirmed first; what cannot be reproduced is an infrastructure problem
        # (exit 2, `FLAKY` on stderr, originals kept in the evidence), not a violation.
        if 0 < len(all_dis) <= 10:
            confirmed = []
            for d in all_dis:
                (confirmed if _disagrees(d[0], d[1]) else flaky).append(d)
            all_dis = confirmed
        if all_dis:
            suite, c, r, m = all_dis[0]
            small = shrink(suite, c, lambda cand, s=suite: _disagrees(s, cand))
            why.append({"correspondence": {"suite": suite.name, "disagreements": len(all_dis), "first_case": small,
                                           "impl": _impl1(suite, small), "model": _model1(suite, small),
                                           "first_seen": {"case": c, "impl": suite.view(r), "model": m} if small is c else None}})
        if stale and not why:
            # Translator could not read a site, but the hand-written model (with the baseline text of that
            # site) still agrees with the implementation on every compared case: the tie is carried by the
            # correspondence; recorded in the evidence, not an alarm.
            pass
        elif stale:
            why.append({"stale_sites": stale})
        if why:
            f = write_replay(prop, "tie", {
                "property": prop, "kind": "no-failing-input-found", "broken": why,
                "searched_inputs": stats["evaluations"],
                "note": "A proof obligation or the model/implementation correspondence no longer checks; the direct "
                        "oracles found no concrete failing input on the implementation."})
            lines.append(f"VIOLATION property={prop} replay={f} no-failing-input-found")
            exit_code = 1
    infra = []
    if new_viol == 0 and flaky:
        fs, fc, fr, fm = flaky[0]
        f = write_replay(prop, "flaky", {"property": prop, "kind": "non-reproducible-disagreement", "suite": fs.name,
                                         "count": len(flaky), "case": fc, "impl_then": fs.view(fr), "model_then": fm})
        infra.append(f"FLAKY: {len(flaky)} disagreement(s) of suite {fs.name} did not reproduce when the case was run again ({f})")
    if stats["harness_exceptions"]:
        infra.append(f"{len(stats['harness_exceptions'])} harness exceptions, first: {stats['harness_exceptions'][0]['exc']}")
    if stats["driver_errors"] and driver_ok:
        infra.append(f"driver errors: {stats['driver_errors'][:2]}")
    if infra and exit_code == 0:
        for i in infra:
            log("INFRASTRUCTURE:", i)
        if stats["harness_exceptions"]:
            log(stats["harness_exceptions"][0].get("tb"))
        exit_code = 2

    # ---- 5. evidence
    obligations = len(thms) + 1 if thms else len(P["required"]) + 1  # theorems + axiom/forbidden-token audit
    discharged = (len(thms) + 1) if not proof_problems else max(0, len(thms) - sum(len(p.get("theorems", [])) for p in proof_problems))
    ev = {
        "property_id": prop, "tier": tier, "seed": seed, "level": "proof",
        "coverage": {
            "obligations": obligations, "discharged": discharged,
            "checker_cmd": f"cd lean && lake build {P['module']} drv && lake env lean .lake/audit/Audit_{prop}.lean"
                           + (" && lake env leanchecker <closure>" if rc_lc is not None else ""),
            "trusted_base": registry.TRUSTED_BASE + P.get("trusted", []),
            "theorems": {t: a for t, a in sorted(thms.items())},
            "required_theorems": P["required"],
            "leanchecker": None if rc_lc is None else ("ok" if rc_lc == 0 else "failed"),
            "translator_sites": {k: v["status"] + ("+changed" if v.get("differs_from_baseline") else "") for k, v in report["sites"].items() if prop in v["props"]},
            "evaluations": stats["evaluations"], "compared_with_model": stats["compared"],
            "distinct_nontrivial": stats["distinct_nontrivial"],
            "disagreements": len(all_dis), "nonreproducible_disagreements": len(flaky),
            "oracle_violations": len(all_viol), "searched_extra": searched,
            "rule": P.get("rule", "cases generated by the suites' seeded generators; distinct = distinct canonical input; "
                                  "non-trivial = hits at least one branch tag of the suite"),
            "branch_tags": dict(sorted(stats["tags"].items())),
            "per_suite": stats["per_suite"],
            "samples": stats["samples"][:4],
            "explanation": P.get("explanation", ""),
        },
        "assumptions": P.get("assumptions", []),
        "wall_s": round(time.time() - t0, 2),
        "violations": new_viol if exit_code == 1 else 0,
    }
    (VERIF / "evidence").mkdir(exist_ok=True)
    (VERIF / "evidence" / f"{prop}.json").write_text(json.dumps(ev, indent=1, sort_keys=True, default=str) + "\n")
    for l in lines:
        print(l, flush=True)
    log(f"{prop} {tier}: exit={exit_code} theorems={len(thms)} evals={stats['evaluations']} compared={stats['compared']} "
        f"disagree={len(all_dis)} viol={len(all_viol)} wall={ev['wall_s']}s")
    return exit_code


class CaseTimeout(BaseException):
    pass


def _impl_timed(suite, case):
    """run one case of the real code under a watchdog: a non-terminating implementation must not hang the check"""
    import signal
    limit = getattr(suite, "case_timeout", 20)

    def on_alarm(signum, frame):
        raise CaseTimeout()
    old = signal.signal(signal.SIGALRM, on_alarm)
    signal.setitimer(signal.ITIMER_REAL, limit)
    try:
        return suite.impl(case)
    finally:
        signal.setitimer(signal.ITIMER_REAL, 0)
        signal.signal(signal.SIGALRM, old)


def _impl1(suite, case):
    suite.setup()
    try:
        return _impl_timed(suite, case)
    except CaseTimeout:
        return {"timeout": True, "model": {"error": "timeout"}, "obs": {}}
    except Exception as e:
        return {"harness_exception": str(e)}
    finally:
        suite.teardown()


def _model1(suite, case, result=None):
    try:
        if hasattr(suite, "model_from_result"):
            mc = suite.model_from_result(case, result if result is not None else _impl1(suite, case))
        else:
            mc = suite.model_case(case) if hasattr(suite, "model_case") else case
        return common.run_driver([mc])[0]
    except Exception as e:
        return {"driver_error": str(e)}


def _disagrees(suite, case):
    r = _impl1(suite, case)
    m = _model1(suite, case, r)
    return (not suite.agree(m, r)) if hasattr(suite, 'agree') else canon(suite.view(r)) != canon(m)


def do_replay(prop, P, path, known):
    data = json.loads(Path(path).read_text())
    if data.get("kind") == "no-failing-input-found":
        print(json.dumps(data["broken"], indent=1)[:4000])
        print("no concrete input in this replay file: it names the proof obligation / correspondence that broke")
        return 1
    suite = load_suite(data["suite"])
    case = data["case"]
    r = _impl1(suite, case)
    print("case:", canon(case))
    print("implementation:", canon(r))
    if common.DRV.exists():
        print("model:", canon(_model1(suite, case)))
    vs = [v for v in suite.oracle(case, r) if v.prop == prop]
    for v in vs:
        print("oracle:", v.msg)
    if vs:
        print(f"VIOLATION property={prop} replay={path}")
        return 1
    print("no violation on this input")
    return 0


if __name__ == "__main__":
    try:
        sys.exit(main())
    except subprocess.TimeoutExpired as e:
        log(f"timeout: {e}")
        sys.exit(2)
    except Exception:
        traceback.print_exc()
        sys.exit(2)
