"""Suite `batch` (C07, C01/C02/C05/C06 component parts): the submit phase of a submitter round.

Real code driven: JobSubmitter.create (run_checks + config.json), Cluster.create, HpcSubmitter.__init__,
the per-group loop of HpcSubmitter.run over HpcSubmitter._submit_batches / _make_batch / _BatchJobs /
_submit_batch / _make_async_submitter / AsyncHpcSubmitter.run / HpcManager.submit / SlurmManager.submit,
with a real JobQueue; `sbatch` is faked at the subprocess boundary of jade.utils.run_command.
"""
import json
import os
import re
import sys
from pathlib import Path

import common
from common import Suite, Violation, err_enum, quiet, scratch_dir
import jadeenv
from jadeenv import jname, jid, gname

MAXSIZE = sys.maxsize


class Sbatch:
    """fake subprocess for run_command: scripted sbatch outcomes, per submitted script"""
    PIPE = -1
    outcomes = []      # remaining outcomes (True = accepted)
    by_script = {}
    calls = []         # (script path) per *distinct* sbatch submission, in order
    next_id = 1000

    class Popen:
        def __init__(self, command, stdout=None, stderr=None, cwd=None, **kw):
            self.command = list(command)
            self.returncode = None

        def communicate(self):
            c = self.command
            if c[0] == "sbatch":
                script = c[1]
                if script not in Sbatch.by_script:
                    ok = Sbatch.outcomes.pop(0) if Sbatch.outcomes else False
                    Sbatch.by_script[script] = ok
                    Sbatch.calls.append(script)
                if Sbatch.by_script[script]:
                    Sbatch.next_id += 1
                    self.returncode = 0
                    return f"Submitted batch job {Sbatch.next_id}\n".encode(), b""
                self.returncode = 1
                return b"", b"sbatch: error: Batch job submission failed"
            self.returncode = 0
            return b"", b""

    @staticmethod
    def call(command, cwd=None, **kw):
        p = Sbatch.Popen(command)
        p.communicate()
        return p.returncode

    @classmethod
    def reset(cls, outcomes):
        cls.outcomes = list(outcomes)
        cls.by_script = {}
        cls.calls = []
        cls.next_id = 1000


class _Existing:
    def __init__(self, name):
        self.name = name
        self.job_id = name


class BatchSuite(Suite):
    name = "batch"
    case_timeout = 2

    def setup(self):
        import jade.utils.run_command as rc
        self._rc = rc
        self._saved = (rc.subprocess, rc.time)
        rc.subprocess = Sbatch

        class _T:
            @staticmethod
            def sleep(s):
                pass
        rc.time = common.dual_time(_T)
        jadeenv.no_repo_info()
        os.environ.setdefault("USER", "verif")
        os.environ.pop("JADE_SKIP_SORT_BY_TIME", None)

    def teardown(self):
        self._rc.subprocess, self._rc.time = self._saved

    # ---------------------------------------------------------------- generation
    def gen_scenario(self, rng, nmax=10, witness=False):
        n = rng.choice([1, 2, 3, 3, 4, 4, 5, 5, 6, 7, 8, nmax])
        ng = rng.choice([1, 1, 1, 2, 2, 3])
        groups = []
        for _ in range(ng):
            # also two- and three-digit hour fields (H:MM:SS with H >= 10 is what SLURM users write for long jobs)
            wall = rng.choice([1800, 6000, 14400, 14400, 36000, 43200, 86400, 172800, 360000])
            tb = rng.random() < .45
            groups.append({"batchSize": rng.choice([0, 1, 1, 2, 2, 3, 4, 5]), "timeBased": tb, "tryAdd": rng.random() < .6,
                           "wallSec": wall, "procs": rng.choice([1, 1, 2, 4]) if (tb or rng.random() < .5) else None,
                           "dryRun": False})
            if ng > 1 and rng.random() < .5:       # run options are per group: groups may differ in them
                groups[-1]["verbose"] = rng.random() < .5
                groups[-1]["distributed"] = rng.random() < .5
        if rng.random() < .08:
            for g in groups:
                g["dryRun"] = True
        p = rng.choice([0, .15, .3, .3, .6])
        order = list(range(n))
        rng.shuffle(order)  # dependency order independent of listing order
        pos = {j: i for i, j in enumerate(order)}
        jobs = []
        for k in range(n):
            g = rng.randrange(ng)
            ests = [e for e in (1, 5, 10, 10, 30, 60, 90, 240, 600, 1440, 2880) if e * 60 <= groups[g]["wallSec"]][-6:]
            blockers = sorted(b for b in range(n) if b != k and pos[b] < pos[k] and rng.random() < p)
            jobs.append({"id": k, "group": g, "est": rng.choice(ests), "blockers": blockers,
                         "cancel": rng.random() < .5, "rc": 0 if rng.random() < .6 else rng.randint(1, 255)})
        return {"jobs": jobs, "groups": groups, "maxNodes": rng.choice([1, 1, 2, 3, None])}

    def gen_case(self, rng):
        sc = self.gen_scenario(rng)
        n = len(sc["jobs"])
        # a reachable-looking status: some jobs done/submitted, remaining blockers = a subset
        prog = rng.choice([0, 0, 0, .2, .5])
        states, remaining = [], []
        for j in sc["jobs"]:
            r = rng.random()
            st = "n" if r >= prog else rng.choice(["s", "d"])
            states.append(st)
        for j, st in zip(sc["jobs"], states):
            if st != "n":
                remaining.append([])
            else:
                keep = [b for b in j["blockers"] if states[b] != "d" or rng.random() < .15]
                if rng.random() < .2:
                    keep = [b for b in keep if rng.random() < .5]
                remaining.append(sorted(keep))
        mn = sc["maxNodes"]
        existing = rng.choice([0, 0, 0, 1, mn or 2]) if mn else rng.choice([0, 0, 3])
        if mn is not None:
            existing = min(existing, mn)
        env = [rng.random() < .85 for _ in range(n + 2)]
        return {"op": "batch.round", "sc": sc, "states": states, "remaining": remaining, "existing": existing,
                "env": env, "batchIndex": rng.choice([1, 1, 2, 7])}

    def witness_cases(self):
        # the defect fixed by /repo 3ff3af4: time-based + try-add, later-pass candidate does not fit
        sc = {"jobs": [{"id": 0, "group": 0, "est": 10, "blockers": [1], "cancel": False, "rc": 0},
                       {"id": 1, "group": 0, "est": 10, "blockers": [], "cancel": False, "rc": 0},
                       {"id": 2, "group": 0, "est": 90, "blockers": [], "cancel": False, "rc": 0}],
              "groups": [{"batchSize": 500, "timeBased": True, "tryAdd": True, "wallSec": 6000, "procs": 1, "dryRun": False}],
              "maxNodes": None}
        return [{"op": "batch.round", "sc": sc, "states": ["n", "n", "n"], "remaining": [[1], [], []], "existing": 0,
                 "env": [True] * 5, "batchIndex": 1}]

    def cases(self, rng, tier, prop):
        n = {"quick": 700, "thorough": 12000}[tier]
        out = self.witness_cases()
        out += [self.gen_case(rng) for _ in range(n)]
        if tier == "thorough":
            out += self.exhaustive_small(rng)
        return out

    def exhaustive_small(self, rng):
        """all DAG shapes on ≤3 jobs x listing orders x a parameter grid (exhaustive ≤4 is sampled: 4-job chains/diamonds)"""
        import itertools
        out = []
        grids = []
        for bs, tb, ta, procs in itertools.product([1, 2, 3], [False, True], [False, True], [1, 2]):
            grids.append({"batchSize": bs, "timeBased": tb, "tryAdd": ta, "wallSec": 6000, "procs": procs, "dryRun": False})
        for n in (1, 2, 3):
            pairs = [(a, b) for a in range(n) for b in range(n) if a != b]
            for mask in range(1 << len(pairs)):
                edges = [pairs[i] for i in range(len(pairs)) if mask >> i & 1]
                # acyclic only
                if not self._acyclic(n, edges):
                    continue
                for ests in itertools.product([10, 90], repeat=n):
                    for g in grids:
                        for mn in (1, None):
                            jobs = [{"id": k, "group": 0, "est": ests[k], "blockers": sorted(a for a, b in edges if b == k),
                                     "cancel": False, "rc": 0} for k in range(n)]
                            sc = {"jobs": jobs, "groups": [g], "maxNodes": mn}
                            out.append({"op": "batch.round", "sc": sc, "states": ["n"] * n,
                                        "remaining": [j["blockers"] for j in jobs], "existing": 0, "env": [True] * (n + 2), "batchIndex": 1})
        return out

    @staticmethod
    def _acyclic(n, edges):
        indeg = {k: 0 for k in range(n)}
        for a, b in edges:
            indeg[b] += 1
        todo = [k for k in range(n) if indeg[k] == 0]
        seen = 0
        while todo:
            k = todo.pop()
            seen += 1
            for a, b in edges:
                if a == k:
                    indeg[b] -= 1
                    if indeg[b] == 0:
                        todo.append(b)
        return seen == n

    # ---------------------------------------------------------------- model line
    def model_case(self, case):
        sc = case["sc"]
        jobs = [{"id": j["id"], "group": j["group"], "est": j["est"] or 0, "blockedBy": case["remaining"][i], "state": case["states"][i]}
                for i, j in enumerate(sc["jobs"])]
        groups = [{"batchSize": g["batchSize"], "timeBased": g["timeBased"], "tryAdd": g["tryAdd"], "wallSec": g["wallSec"],
                   "procs": g["procs"] or 0, "dryRun": g["dryRun"]} for g in sc["groups"]]
        return {"op": "batch.round", "jobs": jobs, "groups": groups, "depth": sc["maxNodes"] if sc["maxNodes"] is not None else MAXSIZE,
                "existing": case["existing"], "env": case["env"]}

    # ---------------------------------------------------------------- implementation
    def impl(self, case):
        with quiet(), scratch_dir() as d:
            return self._impl(case, d)

    def _impl(self, case, d):
        from jade.jobs.job_submitter import JobSubmitter
        from jade.jobs.cluster import Cluster
        from jade.hpc.hpc_submitter import HpcSubmitter
        from jade.jobs.job_queue import JobQueue
        from jade.models import JobState
        sc = case["sc"]
        out = d / "out"
        config = jadeenv.make_config(sc)
        try:
            mgr = JobSubmitter.create(config, output=str(out))
        except Exception as e:
            return {"model": {"error": err_enum(e)}, "obs": {}}
        cluster = Cluster.create(str(out), mgr.config)
        smap = {"n": JobState.NOT_SUBMITTED, "s": JobState.SUBMITTED, "d": JobState.DONE}
        for job, st, rem in zip(cluster.job_status.jobs, case["states"], case["remaining"]):
            job.state = smap[st]
            job.blocked_by = {jname(b) for b in rem}
        cluster.job_status.batch_index = case["batchIndex"]
        hs = HpcSubmitter(mgr.config, mgr._config_file, cluster, str(out))
        queue = JobQueue(hs._max_nodes, existing_jobs=[_Existing(f"e{i}") for i in range(case["existing"])], poll_interval=0)
        Sbatch.reset(case["env"])
        blocked, submitted = [], []
        max_out = case["existing"]
        err = None
        try:
            for group in cluster.config.submission_groups:
                if not queue.is_full():
                    hs._submit_batches(queue, group, blocked, submitted)
                    max_out = max(max_out, len(queue.outstanding_jobs))
        except Exception as e:  # noqa
            err = err_enum(e)
        # ---- what the round does next (HpcSubmitter.run): it persists what the submit phase handed back.  The status
        # update must accept the round's own output: an exception here is raised under the cluster lock with
        # submitter.lock in place - the batches are at the HPC, nothing is recorded, every later round refuses.
        upd_err = None
        if err is None and not any(g.get("dryRun") for g in sc["groups"]):      # a dry run persists nothing that matters afterwards
            try:
                hs._update_status(submitted, blocked, [], sorted(x.job_id for x in queue.outstanding_jobs), set())
            except Exception as e:  # noqa
                upd_err = f"{type(e).__name__}: {str(e)[:160]}"
        # ---- observations from the files the code wrote
        batches = []
        idx = case["batchIndex"]
        outstanding_names = set(queue._outstanding_jobs.keys())
        while True:
            f = out / f"config_batch_{idx}.json"
            if not f.exists():
                break
            data = json.loads(f.read_text())
            jobs = [{"id": jid(j["name"]), "blockedBy": sorted(jid(b) for b in j["blocked_by"])} for j in data["jobs"]]
            grp = {j["submission_group"] for j in data["jobs"]}
            run_script = (out / f"run_batch_{idx}.sh").read_text() if (out / f"run_batch_{idx}.sh").exists() else None
            sb = [p for p in out.glob(f"*_batch_{idx}.sh") if not p.name.startswith("run_")]
            sb_text = sb[0].read_text() if sb else None
            prefix = sb[0].name[: -len(f"_batch_{idx}.sh")] if sb else None
            gi = int(next(iter(grp))[1:]) if len(grp) == 1 else -1
            name = f"{prefix}_batch_{idx}"
            batches.append({"group": gi, "accepted": name in outstanding_names, "jobs": jobs,
                            "_idx": idx, "_groups": sorted(grp), "_run": run_script, "_sbatch": sb_text, "_prefix": prefix,
                            "_sbatch_called": any(c.endswith(f"/{name}.sh") for c in Sbatch.calls)})
            idx += 1
        model = {"batches": [{"group": b["group"], "accepted": b["accepted"], "jobs": b["jobs"]} for b in batches],
                 "blocked": [jid(j.name) for j in blocked], "outstanding": len(queue.outstanding_jobs), "diverged": False}
        if err:
            model = {"error": err}
        obs = {"batches": batches, "submitted": [jid(j.name) for j in submitted], "sbatch_calls": len(Sbatch.calls), "status_update_error": upd_err,
               "max_outstanding": max_out, "next_index": hs._batch_index,
               "stray_files": sorted(p.name for p in out.glob("config_batch_*.json") if int(re.search(r"_(\d+)\.json", p.name).group(1)) < case["batchIndex"])}
        return {"model": model, "obs": obs}

    # ---------------------------------------------------------------- direct oracles (C07, C01, C02, C05, C06 component level)
    def oracle(self, case, result):
        v = []
        sc = case["sc"]
        obs = result.get("obs") or {}
        if result.get("timeout"):
            msg = "the submit phase of the round did not terminate (watchdog) on a validated configuration"
            return [Violation("C07", "batch.nontermination", msg), Violation("C05", "batch.nontermination", msg),
                    Violation("C01", "batch.nontermination", msg)]
        if "batches" not in obs:
            return v
        if isinstance(result["model"], dict) and "error" in result["model"]:
            v.append(Violation("C07", "batch.raises", f"submit phase raised {result['model']['error']} on a valid configuration"))
            v.append(Violation("C01", "batch.raises", f"submit phase raised {result['model']['error']} on a valid configuration"))
            return v
        if obs.get("status_update_error"):
            msg = (f"the status update of the round rejected the round's own output ({obs['status_update_error']}): batches "
                   f"{[[j['id'] for j in b['jobs']] for b in obs['batches']]} are at the HPC, submitted={obs['submitted']}, "
                   f"blocked={result['model'].get('blocked') if isinstance(result['model'], dict) else None}; nothing is recorded and "
                   "submitter.lock stays: the submission cannot make progress or complete")
            for prop in ("C05", "C07", "C01", "C09"):
                v.append(Violation(prop, "round.status_update_raises", msg))
        jobs = {j["id"]: j for j in sc["jobs"]}
        rem = {j["id"]: set(case["remaining"][i]) for i, j in enumerate(sc["jobs"])}
        state = {j["id"]: case["states"][i] for i, j in enumerate(sc["jobs"])}
        seen = {}
        depth = sc["maxNodes"] if sc["maxNodes"] is not None else MAXSIZE
        dry = any(g["dryRun"] for g in sc["groups"])
        for bi, b in enumerate(obs["batches"]):
            ids = [j["id"] for j in b["jobs"]]
            if b["_idx"] != case["batchIndex"] + bi:
                v.append(Violation("C01", "batch.index", f"batch indices not consecutive from the persisted index: {b['_idx']}"))
            if not ids:
                v.append(Violation("C07", "batch.empty", f"empty batch {b['_idx']} written/submitted"))
                continue
            if len(b["_groups"]) != 1:
                v.append(Violation("C07", "batch.mixed_groups", f"batch {b['_idx']} mixes groups {b['_groups']}"))
                continue
            gi = b["group"]
            g = sc["groups"][gi]
            for k in ids:
                if jobs[k]["group"] != gi:
                    v.append(Violation("C07", "batch.foreign_job", f"job {k} of group {jobs[k]['group']} in a batch of group {gi}"))
                if state[k] != "n":
                    v.append(Violation("C01", "batch.resubmitted", f"job {k} (state {state[k]}) batched again"))
                if k in seen:
                    v.append(Violation("C01", "batch.double_placement", f"job {k} placed in batches {seen[k]} and {b['_idx']}"))
                seen[k] = b["_idx"]
            if g["timeBased"]:
                tot = sum(60 * jobs[k]["est"] for k in ids)
                if tot > g["wallSec"] * g["procs"]:
                    v.append(Violation("C07", "batch.time_exceeded", f"batch {b['_idx']}: {tot}s estimated > {g['wallSec']}x{g['procs']}"))
            else:
                lim = max(1, g["batchSize"])
                if len(ids) > lim:
                    v.append(Violation("C07", "batch.size_exceeded", f"batch {b['_idx']}: {len(ids)} jobs > per-node batch size {g['batchSize']}"))
            pos = {k: i for i, k in enumerate(ids)}
            for j in b["jobs"]:
                k = j["id"]
                if rem[k]:
                    if not g["tryAdd"]:
                        v.append(Violation("C07", "batch.blocked_included", f"job {k} with unfinished blockers {sorted(rem[k])} batched although try-add-blocked is off"))
                        v.append(Violation("C02", "batch.blocked_included", f"job {k} with unfinished blockers {sorted(rem[k])} batched although try-add-blocked is off"))
                    elif not rem[k] <= set(ids):
                        v.append(Violation("C07", "batch.blocker_elsewhere", f"job {k} batched without its unfinished blockers {sorted(rem[k] - set(ids))}"))
                        v.append(Violation("C02", "batch.blocker_elsewhere", f"job {k} batched without its unfinished blockers {sorted(rem[k] - set(ids))}"))
                if set(j["blockedBy"]) != rem[k]:
                    v.append(Violation("C02", "batch.handover", f"job {k}: blockers handed to the node {j['blockedBy']} != remaining blockers {sorted(rem[k])}"))
            # group-specific interface and run options
            if b["_sbatch"] is not None:
                if f"#SBATCH --account=acct{gi}" not in b["_sbatch"] or f"--time={jadeenv.walltime_str(g['wallSec'])}" not in b["_sbatch"]:
                    v.append(Violation("C07", "batch.wrong_hpc_params", f"batch {b['_idx']} of group {gi} submitted with another group's HPC parameters"))
                if f"run_batch_{b['_idx']}.sh" not in b["_sbatch"]:
                    v.append(Violation("C07", "batch.wrong_run_script", f"submission script of batch {b['_idx']} does not run run_batch_{b['_idx']}.sh"))
                if b["_prefix"] != f"p{gi}":
                    v.append(Violation("C07", "batch.wrong_prefix", f"batch {b['_idx']} named with prefix {b['_prefix']}"))
            else:
                v.append(Violation("C07", "batch.no_script", f"no submission script for batch {b['_idx']}"))
            if b["_run"] is not None:
                want = f"config_batch_{b['_idx']}.json"
                np_ = g["procs"]
                dsub = "--distributed-submitter" if g.get("distributed", True) else "--no-distributed-submitter"
                words = b["_run"].split()
                if want not in b["_run"] or ("--num-parallel-processes-per-node" in b["_run"]) != (np_ is not None) or \
                        (np_ is not None and f"--num-parallel-processes-per-node={np_}" not in b["_run"]) or \
                        dsub not in words or ("--verbose" in words) != bool(g.get("verbose", False)):
                    v.append(Violation("C07", "batch.run_options", f"run script of batch {b['_idx']} does not carry group {gi}'s options: {b['_run']!r}"))
            else:
                v.append(Violation("C07", "batch.no_run_script", f"no run script for batch {b['_idx']}"))
            if g["dryRun"] and b["_sbatch_called"]:
                v.append(Violation("C07", "dryrun.sbatch", f"dry-run handed batch {b['_idx']} to the HPC"))
            if not g["dryRun"] and not b["_sbatch_called"]:
                v.append(Violation("C07", "batch.not_submitted", f"batch {b['_idx']} written but never passed to sbatch"))
        if sorted(obs["submitted"]) != sorted(seen):
            v.append(Violation("C01", "batch.submitted_list", f"jobs reported as submitted {sorted(obs['submitted'])} != jobs in batch files {sorted(seen)}"))
        if obs["next_index"] != case["batchIndex"] + len(obs["batches"]):
            v.append(Violation("C01", "batch.next_index", "next batch index is not start + number of batches"))
        if obs["stray_files"]:
            v.append(Violation("C01", "batch.index_reuse", f"batch files below the persisted index were written: {obs['stray_files']}"))
        if case["existing"] <= depth and obs["max_outstanding"] > depth:
            v.append(Violation("C06", "hpc.cap", f"{obs['max_outstanding']} batches outstanding > max_nodes {depth}"))
        # C05: a candidate with no remaining blockers stays unsubmitted only when the node limit is reached
        full = result["model"]["outstanding"] >= depth
        if not full and not dry:
            for k, j in jobs.items():
                if state[k] == "n" and not rem[k] and k not in seen:
                    v.append(Violation("C05", "round.left_unblocked_job", f"job {k} has no unfinished blockers, the node limit is not reached, yet it was not submitted"))
                    break
        return v

    def tags(self, case, result):
        t = []
        m = result.get("model", {})
        if "error" in m:
            return ["round.error"]
        sc = case["sc"]
        nb = len(m["batches"])
        t.append(f"batches={min(nb, 4)}{'+' if nb > 4 else ''}")
        if any(not b["accepted"] for b in m["batches"]):
            t.append("sbatch.failed")
        if any(j["blockedBy"] for b in m["batches"] for j in b["jobs"]):
            t.append("blocked.batched_with_blockers")
        if m["blocked"]:
            t.append("blocked.reported")
        if len(sc["groups"]) > 1:
            t.append("groups>1")
        if any(g["timeBased"] for g in sc["groups"]):
            t.append("timeBased")
        if any(g["dryRun"] for g in sc["groups"]):
            t.append("dryRun")
        if sc["maxNodes"] is not None and m["outstanding"] >= sc["maxNodes"]:
            t.append("queue.full")
        if nb == 0:
            return ["trivial.nobatch"] + ([x for x in t if x in ("blocked.reported", "queue.full")])
        return t

    def shrink(self, case):
        sc = case["sc"]
        n = len(sc["jobs"])
        # drop one job (renumber)
        for k in range(n - 1, -1, -1):
            if n <= 1:
                break
            keep = [i for i in range(n) if i != k]
            ren = {old: new for new, old in enumerate(keep)}
            jobs = []
            for old in keep:
                j = dict(sc["jobs"][old])
                j["id"] = ren[old]
                j["blockers"] = sorted(ren[b] for b in j["blockers"] if b in ren)
                jobs.append(j)
            c = dict(case)
            c["sc"] = dict(sc, jobs=jobs)
            c["states"] = [case["states"][i] for i in keep]
            c["remaining"] = [sorted(ren[b] for b in case["remaining"][i] if b in ren) for i in keep]
            yield c
        for i in range(n):
            for b in case["remaining"][i]:
                c = dict(case)
                c["remaining"] = [list(r) for r in case["remaining"]]
                c["remaining"][i] = [x for x in c["remaining"][i] if x != b]
                yield c
        if len(sc["groups"]) > 1:
            c = dict(case)
            c["sc"] = dict(sc, groups=sc["groups"][:1], jobs=[dict(j, group=0) for j in sc["jobs"]])
            yield c
        if case["existing"]:
            yield dict(case, existing=0)
        if not all(case["env"]):
            yield dict(case, env=[True] * len(case["env"]))


SUITE = BatchSuite()
