"""Suite `cluster` (C10, cluster-API part of C09): real `Cluster` objects on real files vs Model/Cluster.lean.

Real code driven: Cluster.create / deserialize / promote_to_submitter / demote_from_submitter / update_job_status /
mark_complete / mark_canceled / complete_hpc_job_id / deserialize_jobs / are_all_jobs_complete /
prepare_for_resubmission / get_status_summary, with several handles whose `socket.gethostname` differs, stale handles,
forged version files, a deleted config file, exceptions under the lock and stale lock markers.  `SoftFileLock` inside
`jade.jobs.cluster` is replaced by a non-blocking marker lock (O_EXCL create, else `filelock.Timeout` at once), so a
left-over marker yields `lockTimeout` deterministically; the `breakStale` flag of a case says whether the installed lock
library would remove a stale marker (op `breakMarker`).

Crash points (`{"k": "crash", "op": <api op>, "after": k, "lockGone": b}`): the process performing `op` is KILLED right before
its (k+1)-th file write (config_version.txt / cluster_config.json / job_status_version.txt / job_status.json, in whatever
order the code writes them; `_serialize_file` counts as one write).  The kill is a BaseException raised from the code's own
file-writing primitives, so no `except Exception` / re-creation of the lock file runs; the marker of the dead process is
removed iff `lockGone` (lock library reclaimed it / finalizer ran) and the dead handle is never used again.  Other handles -
including ones loaded before the torn write - act afterwards.

Torn file (`"torn": true` on a crash op; absent = false): the process is killed INSIDE its (k+1)-th file write instead of right
before it.  `_serialize_config_version` / `_serialize_job_status_version` are `open(f, "w")` (truncate) + `write()`: a kill
between the two leaves that version file EMPTY, and that is what a torn kill at a version-file write does (the file of the
dying handle is truncated, nothing is written).  For a data-file write (`_serialize_file`: rename to .bk / write / remove .bk)
the torn flag DEGENERATES to the plain crash - killed right before that write; a kill inside `_serialize_file` is outside this
suite (level_note of C10).  An empty version file is reported as `null` (`cfgVer` / `jsVer`); every reader of it in the
unchanged code dies in `int('')` (ValueError), i.e. the code fails closed until somebody rewrites the file (`forgeCfgVer` /
`forgeJsVer`).

Failed write (`{"k": "failWrite", "op": <api op>, "after": k, "torn": b}`; with `torn` a failing version-file write leaves the file
EMPTY - `open(f, "w")` succeeded, `write()` raised): the (k+1)-th file write of the call raises OSError(EDQUOT) - a
NON-FATAL failure: the exception passes through `_do_action_under_lock_internal` (lock released, deadlock marker re-created) to
the caller, and the SAME handle is used afterwards (like after an update that raises KeyError for an unknown job name or trips
an assertion: `bad_update` in clustergen).  Then other handles change the state and the handle that failed writes again.

Stalled call (`{"k": "stallBegin", "h": h, "op": <api op>, "after": k}` … `{"k": "stallEnd", "h": h}`): the real call runs in a
worker thread (harness/coop.py Scheduler) up to its (k+1)-th file write and PARKS there: a live process inside its lock section
(a hung write on the shared filesystem), its lock marker present - created, like every marker of `MarkerLock`, with an mtime one
hour in the past.  Meanwhile the other handles act: every call that takes the lock must time out and change nothing (oracles
`lock.broken_while_held`, `lock.two_in_section`, `lock.wrote_while_held`, `lock.not_excluded`); nothing is invoked through the
slot of the parked process (`busy`); `breakMarker` is refused (the marker of a live holder is not stale).  `stallEnd` lets the
call finish.

After EVERY operation the result/exception enum and the parsed content of cluster_config.json, config_version.txt,
job_status.json, job_status_version.txt (+ `.bk` files, + the lock marker) are compared with the Lean driver.
"""
import errno
import hashlib
import json
import os
import socket
from pathlib import Path

from common import Suite, Violation, err_enum, quiet, scratch_dir
import jadeenv
from jadeenv import jname, jid
import clustergen
import coop

FILES = ["cluster_config.json", "config_version.txt", "job_status.json", "job_status_version.txt"]
LOCK = "cluster_config.json.lock"
CFG_WRITERS = {"promote", "demote", "update", "markComplete", "markCanceled", "prepareResubmit"}
JS_WRITERS = {"update", "completeHpcId", "prepareResubmit"}
HOLDER_ONLY = {"demote", "update", "markComplete", "markCanceled", "completeHpcId", "prepareResubmit"}
ORDER = {"not_submitted": 0, "submitted": 1, "done": 2}
WRAPS = ("crash", "failWrite", "stallBegin")       # ops that wrap an API call (`"op"`)
# the API calls that run under the cluster lock (`Op.takesLock`): only these can be parked inside the lock section
LOCKED = {"load", "promote", "demote", "update", "markComplete", "markCanceled", "completeHpcId", "deserializeJobs", "allComplete", "read"}


def hostname(k):
    return f"host{k}"


MARKER_AGE = 3600.0     # seconds: every marker is created with an mtime one hour in the past


COARSE_NS = 1_700_000_000 * 10 ** 9


class MarkerLock:
    """non-blocking stand-in for filelock.SoftFileLock: the marker file IS the lock.

    The marker is created with an OLD mtime (`MARKER_AGE` ago): the worst case for any "this lock file has been there for too
    long, its owner must be dead" heuristic - the unchanged code never looks at the age of the file.  `break_lock()` (filelock
    3.32.7 has it) removes the marker whoever holds it.  `events` notes what happened to markers of LIVE holders (a call
    parked inside its lock section by `stallBegin`; the suite keeps their number in `parked`): ("break_lock", file) - the marker
    of a live holder was removed by somebody else - and ("entered_while_held", file) - a second process got the lock."""
    parked = 0       # calls that are parked INSIDE the cluster lock section right now (alive, holding the lock)
    events = []

    @classmethod
    def reset(cls):
        cls.parked = 0
        cls.events = []

    def __init__(self, lock_file, timeout=-1, **kw):
        self._f = os.fspath(lock_file)
        self.lock_file = self._f
        self._held = False

    @property
    def is_locked(self):
        return self._held

    def acquire(self, timeout=None, **kw):
        import filelock
        import time
        try:
            fd = os.open(self._f, os.O_WRONLY | os.O_CREAT | os.O_EXCL)
        except FileExistsError:
            raise filelock.Timeout(self._f)
        os.close(fd)
        old = time.time() - MARKER_AGE
        os.utime(self._f, (old, old))
        if MarkerLock.parked > 0:
            MarkerLock.events.append(("entered_while_held", os.path.basename(self._f)))
        self._held = True

    def release(self, force=False):
        self._held = False
        try:
            os.unlink(self._f)
        except FileNotFoundError:
            pass

    def break_lock(self):
        """remove the marker, whoever created it (filelock >= 3.13 `SoftFileLock.break_lock`)"""
        if MarkerLock.parked > 0:
            MarkerLock.events.append(("break_lock", os.path.basename(self._f)))
        try:
            os.unlink(self._f)
        except FileNotFoundError:
            pass


class Kill(BaseException):
    """the process dies here (not an Exception: no handler of the code under test may catch it)"""


PRIMITIVES = ["_serialize_config_version", "_serialize_job_status_version", "_serialize_file"]


def file_writers(cls):
    """the methods of `cls` that open a file for writing themselves (`open(f, "w")`, `Path.write_text`, `.open("w")`): on the
    unchanged tree exactly PRIMITIVES.  Found by what they do, so that renaming such a private helper does not leave the
    suite without its kill points (it used to die with KeyError: a failed check for a harmless rename)."""
    import ast
    import inspect
    import textwrap

    def writes(call, mode_pos):
        mode = call.args[mode_pos] if len(call.args) > mode_pos else next((k.value for k in call.keywords if k.arg == "mode"), None)
        return isinstance(mode, ast.Constant) and isinstance(mode.value, str) and any(c in mode.value for c in "wax+")

    out = []
    for name, raw in cls.__dict__.items():
        fn = raw.__func__ if isinstance(raw, (staticmethod, classmethod)) else raw
        if not inspect.isfunction(fn):
            continue
        try:
            tree = ast.parse(textwrap.dedent(inspect.getsource(fn)))
        except (OSError, TypeError, SyntaxError):
            continue
        for n in ast.walk(tree):
            if not isinstance(n, ast.Call):
                continue
            f = n.func
            if (isinstance(f, ast.Name) and f.id == "open" and writes(n, 1)) \
                    or (isinstance(f, ast.Attribute) and f.attr in ("write_text", "write_bytes")) \
                    or (isinstance(f, ast.Attribute) and f.attr == "open" and src_name(f.value) != "os" and writes(n, 0)):
                out.append(name)
                break
    return out


def src_name(node):
    return node.id if hasattr(node, "id") else None


def res_enum(exc):
    if type(exc).__name__ == "AttributeError":
        return {"error": "attributeError"}
    return {"error": err_enum(exc)}


def read_version(f):
    """content of a version file: the number, or None when the file is EMPTY (a writer died between truncate and write)"""
    t = f.read_text().strip()
    return int(t) if t else None


VERSION_FILE_OF = {"_serialize_config_version": "_config_version_file", "_serialize_job_status_version": "_job_status_version_file"}


def parse_disk(d):
    """abstract content of the four files (+ backups, + marker) — the shape `jdisk` prints"""
    cfgf = d / "cluster_config.json"
    if cfgf.exists():
        c = json.loads(cfgf.read_text())
        sub = c["submitter"]
        cfg = {"submitter": None if sub is None else int(sub[4:]), "submitted": c["submitted_jobs"], "completed": c["completed_jobs"],
               "numJobs": c["num_jobs"], "isComplete": c["is_complete"], "isCanceled": c["is_canceled"], "version": c["version"]}
    else:
        cfg = None
    j = json.loads((d / "job_status.json").read_text())
    js = {"jobs": [{"state": x["state"], "blockedBy": sorted(jid(b) for b in x["blocked_by"]), "cancel": x["cancel_on_blocking_job_failure"]}
                   for x in j["jobs"]],
          "hpcIds": [int(x) for x in j["hpc_job_ids"]], "batchIdx": j["batch_index"], "version": j["version"]}
    return {"cfg": cfg, "cfgVer": read_version(d / "config_version.txt"), "js": js,
            "jsVer": read_version(d / "job_status_version.txt"), "marker": (d / LOCK).exists(),
            "bk": sorted(p.name for p in d.glob("*.bk"))}


def raw_files(d):
    return {f: ((d / f).read_bytes() if (d / f).exists() else None) for f in FILES}


def summary_view(s):
    jobs = [{"state": x["state"].value if hasattr(x["state"], "value") else x["state"], "blockedBy": sorted(jid(b) for b in x["blocked_by"]),
             "cancel": x["cancel_on_blocking_job_failure"]} for x in s["job_status"]["jobs"]]
    return {"isComplete": s["is_complete"], "isCanceled": s["is_canceled"], "numJobs": s["num_jobs"], "completed": s["completed_jobs"],
            "notSubmitted": s["not_submitted_jobs"], "jobs": jobs}


def args_ok(js, disk_js, a):
    """`UpdateArgsOK`: what a submitter round guarantees about the arguments, stated over the job status on disk and
    the handle's in-memory copy (which a round has modified: blockers reduced, canceled jobs already DONE)"""
    if js is None:
        return False
    mem = [x.state.value for x in js.jobs]
    dsk = [x["state"] for x in disk_js["jobs"]]
    n = len(dsk)
    sub, blk, can, comp = a["submitted"], [b["j"] for b in a["blocked"]], a["canceled"], a["completed"]
    if len(mem) != n or any(j >= n for j in sub + blk + can + comp):
        return False
    if len(set(sub)) != len(sub) or len(set(comp)) != len(comp) or len(set(can)) != len(can):
        return False
    # in-memory copy = disk copy, except jobs the round canceled (NOT_SUBMITTED on disk, DONE in memory, reported as canceled)
    for j in range(n):
        if mem[j] != dsk[j] and not (dsk[j] == "not_submitted" and mem[j] == "done" and j in can):
            return False
        if not set(jid(q) for q in js.jobs[j].blocked_by) <= set(disk_js["jobs"][j]["blockedBy"]):
            return False
    if any(mem[j] != "not_submitted" for j in sub + blk):
        return False
    if set(blk) & set(sub) or set(comp) & (set(sub) | set(blk)):
        return False
    if not set(can) <= set(comp) or any(dsk[j] != "not_submitted" for j in can):
        return False
    if any(dsk[j] != "submitted" for j in comp if j not in can):
        return False
    # a round hands over the (already reduced) blocker sets of the status objects themselves
    for b in a["blocked"]:
        if not {jname(q) for q in b["by"]} <= set(js.jobs[b["j"]].blocked_by):
            return False
    return True


class ClusterSuite(Suite):
    name = "cluster"
    case_timeout = 20

    def setup(self):
        import jade.jobs.cluster as jc
        self._jc = jc
        self._saved = (jc.SoftFileLock, socket.gethostname)
        jc.SoftFileLock = MarkerLock
        # kill points: the three file-writing primitives of Cluster; any other write-open of one of the four files
        # from inside jade.jobs.cluster is recorded (`_unhooked`) and makes the case a harness failure
        self._kill = None
        self._sched = None
        self._parked = {}
        self._in_prim = 0
        self._unhooked = []
        prims = [n for n in PRIMITIVES if n in jc.Cluster.__dict__]
        prims += [n for n in file_writers(jc.Cluster) if n not in prims]
        self._saved_prims = {n: jc.Cluster.__dict__[n] for n in prims}
        suite = self

        def gated(name, orig):
            def w(*a, **kw):
                suite._gate(name, a)
                suite._in_prim += 1
                try:
                    return orig(*a, **kw)
                finally:
                    suite._in_prim -= 1
            return w
        for n, raw in self._saved_prims.items():
            if isinstance(raw, staticmethod):
                setattr(jc.Cluster, n, staticmethod(gated(n, raw.__func__)))
            else:
                setattr(jc.Cluster, n, gated(n, raw))

        def guarded_open(file, mode="r", *a, **kw):
            if any(c in mode for c in "wax+") and os.path.basename(str(file)) in FILES and not suite._in_prim:
                suite._unhooked.append(os.path.basename(str(file)))
            return open(file, mode, *a, **kw)
        jc.open = guarded_open

    def teardown(self):
        self._jc.SoftFileLock = self._saved[0]
        socket.gethostname = self._saved[1]
        for n, raw in getattr(self, "_saved_prims", {}).items():
            setattr(self._jc.Cluster, n, raw)
        if "open" in self._jc.__dict__:
            del self._jc.open

    def _gate(self, name, args):
        """called right before every file write of the code under test (`name`: the primitive, `args`: its arguments)"""
        sched = self._sched
        w = sched.current() if sched is not None else None
        if w is not None:
            # a call running in a worker thread (`stallBegin`): it parks right before its (k+1)-th file write, alive and
            # inside its lock section, until `stallEnd` lets it go on
            left = w.ctx.get("left", -1)
            if left == 0:
                w.ctx["left"] = -1
                MarkerLock.parked += 1
                try:
                    sched.yield_point("write", name, force=True)
                finally:
                    MarkerLock.parked -= 1
            elif left > 0:
                w.ctx["left"] = left - 1
            return
        if self._kill is not None:
            if self._kill["left"] == 0:
                self._kill["fired"] = True
                if self._kill.get("mode") == "oserror":
                    # a NON-FATAL write failure: this one write raises, the process (and its handle) lives on.  With "torn" the
                    # `open(f, "w")` of a version file had succeeded (file truncated) and `write()` raised: the file is EMPTY
                    self._kill["left"] = -1
                    if self._kill.get("torn") and name in VERSION_FILE_OF:
                        path = getattr(args[0], VERSION_FILE_OF[name])
                        open(path, "w").close()
                        self._kill["tornfile"] = os.path.basename(path)
                    raise OSError(errno.EDQUOT, "Disk quota exceeded")
                if self._kill.get("torn") and name in VERSION_FILE_OF:
                    # killed INSIDE the write of a version file: `open(f, "w")` has truncated it, `write()` never ran
                    path = getattr(args[0], VERSION_FILE_OF[name])
                    open(path, "w").close()
                    self._kill["tornfile"] = os.path.basename(path)
                # `_serialize_file`: the torn flag degenerates to "killed right before this write"
                raise Kill()
            self._kill["left"] -= 1

    # ---------------------------------------------------------------- generation
    def cases(self, rng, tier, prop):
        n = {"quick": 450, "thorough": 7000}[tier]
        out = clustergen.witness_cases()
        out += [clustergen.gen_case(rng) for _ in range(n)]
        return out

    def model_case(self, case):
        return {"op": "cluster.run", "host": case["host"], "breakStale": case["breakStale"], "jobs": case["jobs"], "ops": case["ops"]}

    # ---------------------------------------------------------------- implementation
    def impl(self, case):
        with quiet(), scratch_dir() as d:
            MarkerLock.reset()
            self._parked = {}      # slot -> (worker name, the API op parked inside its lock section)
            self._sched = None     # coop.Scheduler, created by the first `stallBegin` of the case
            try:
                return self._impl(case, d)
            finally:
                socket.gethostname = self._saved[1]
                if self._sched is not None:
                    self._sched.close()     # unwinds calls that are still parked (a case without the matching `stallEnd`)
                    self._sched = None
                self._parked = {}
                MarkerLock.reset()

    def _make_cluster(self, case, d):
        from jade.jobs.cluster import Cluster
        sc = {"jobs": [{"id": k, "group": 0, "est": 1, "blockers": j["blockers"], "cancel": j["cancel"]} for k, j in enumerate(case["jobs"])],
              "groups": [{"batchSize": 2, "timeBased": False, "tryAdd": False, "wallSec": 3600, "procs": None, "dryRun": False}], "maxNodes": None}
        config = jadeenv.make_config(sc)
        socket.gethostname = lambda: hostname(case["host"])
        return Cluster.create(str(d), config)

    def _impl(self, case, d):
        from jade.jobs.cluster import Cluster
        from jade.models import Job, JobState
        out = d / "out"
        out.mkdir()
        handles = {0: self._make_cluster(case, out)}
        init = parse_disk(out)
        steps, obs = [], []
        holders = [0]              # handles that were promoted (or created) and have not successfully demoted since
        protocol = True            # every op so far respected `Protocol`
        wellformed = True          # … and every update had well-formed arguments, nothing raised, nothing was forged
        forged = False
        prev_status = self._status(out)
        sync = {0: {"cfg": raw_files(out)["cluster_config.json"], "js": raw_files(out)["job_status.json"]}}
        self._unhooked = []
        faulted = False            # a file write of some call failed (OSError): an environment fault, like a forged file
        ahead = {}                 # handle -> {"cfg": b, "js": b}: a failed write left its in-memory version AHEAD of the version file
        for op in case["ops"]:
            kind = op["k"]
            crash = kind == "crash"
            # the API call: a crash / failWrite / stallBegin op wraps the call; `stallEnd` resumes the call parked by `stallBegin`
            if kind in WRAPS:
                eff = op["op"]
            elif kind == "stallEnd":
                eff = self._parked[op["h"]][1] if op["h"] in self._parked else {"k": "noStall", "h": op["h"]}
            else:
                eff = op
            if kind != "stallEnd" and eff.get("h") is not None and eff["h"] in self._parked:
                eff = {"k": "busy", "h": eff["h"]}      # the process behind this slot is inside a call: nothing is invoked
            k = eff["k"]
            h = eff.get("h")
            x = handles.get(h) if h is not None else None
            before_raw = raw_files(out)
            before = parse_disk(out)
            # a filesystem with coarse timestamps on which every write so far fell into one tick: the four state files
            # always show the same modification time when a call starts.  What a handle may trust is the CONTENT of the
            # version files, never their metadata.
            for fn in ("cluster_config.json", "job_status.json", "config_version.txt", "job_status_version.txt"):
                try:
                    os.utime(out / fn, ns=(COARSE_NS, COARSE_NS))
                except OSError:
                    pass
            MarkerLock.events = []
            o = {"k": k, "h": h, "crash": crash, "wrap": kind if kind in WRAPS or kind == "stallEnd" else None, "eff": eff,
                 "parked_before": sorted(self._parked), "resumed": kind == "stallEnd" and k != "noStall", "faulted_before": faulted,
                 "holders_before": list(holders), "protocol_before": protocol, "forged_before": forged,
                 "marker_before": before["marker"], "submitter_before": before["cfg"]["submitter"] if before["cfg"] else "missing",
                 # a version file is EMPTY (its writer died between truncate and write)
                 "cfg_torn": before["cfgVer"] is None, "js_torn": before["jsVer"] is None}
            # ---- is the acting handle's copy OLDER THAN THE CONTENTS on disk?  (bytes it last read or wrote vs. bytes now;
            #      independent of the version files, which a torn write can leave out of step with the contents)
            if x is not None and h in sync and k != "load":
                o["cfg_behind"] = sync[h]["cfg"] != before_raw["cluster_config.json"]
                o["js_behind"] = sync[h]["js"] is not None and x.job_status is not None and sync[h]["js"] != before_raw["job_status.json"]
            # ---- staleness of the acting handle, read off the real object and the real version files.  With an EMPTY version
            #      file "differs from the version file" is undefined: not stale in this sense (block (c) of the oracle does not
            #      apply, the rejection is a ValueError); the content-based `cfg_behind` / `js_behind` still decide (c')
            if x is not None:
                o["cfg_stale"] = before["cfgVer"] is not None and x.config.version != before["cfgVer"]
                o["js_stale"] = before["jsVer"] is not None and x.job_status is not None and x.job_status.version != before["jsVer"]
                o["js_loaded"] = x.job_status is not None
                o["mem_submitter"] = x.config.submitter
                o["mem_complete"] = x.config.is_complete
                o["handle_host"] = x._hostname
                o["ahead_cfg"] = bool(ahead.get(h, {}).get("cfg"))
                o["ahead_js"] = bool(ahead.get(h, {}).get("js"))
            # ---- Protocol bookkeeping (before the call)
            if k in HOLDER_ONLY and h not in holders:
                protocol = False
            if k == "load" and h in holders:
                protocol = False
            if k in ("forgeCfgVer", "forgeJsVer", "rmCfg"):
                protocol = False
                forged = True
            if k == "update":
                o["args_ok"] = x is not None and args_ok(x.job_status, before["js"], eff)
                if not o["args_ok"]:
                    wellformed = False
            if k in ("completeHpcId", "prepareResubmit") and x is not None and x.job_status is not None:
                # writes the in-memory job status as it is: it must be the disk's, up to reduced blocker sets
                if [j.state.value for j in x.job_status.jobs] != [j["state"] for j in before["js"]["jobs"]]:
                    wellformed = False
            self._tornfile = None
            self._write_failed = False
            res, summary = self._do(op, x, handles, out, case) if k != "busy" else ("busy", None)
            if self._tornfile:
                o["tornfile"] = self._tornfile
            o["lock_events"] = [list(e) for e in MarkerLock.events]
            o["stalled"] = res == "stalled"
            o["parked_after"] = sorted(self._parked)
            if self._write_failed:
                # one file write of the call raised OSError; the caller caught it and goes on with the same handle.  The
                # in-memory copy may now be AHEAD of the files (version bumped, nothing written): the role protocol of the
                # Lean theorems (every call completes) does not describe what follows
                o["write_failed"] = True
                faulted = True
                protocol = False
                y = handles.get(h) if h is not None and k != "load" else None
                if y is not None:
                    # `_serialize` / `_serialize_jobs` bump the in-memory version BEFORE they write the version file: when that
                    # write fails the handle holds a version number that is on no file
                    cv, jv = read_version(out / "config_version.txt"), read_version(out / "job_status_version.txt")
                    ahead[h] = {"cfg": cv is not None and y.config.version > cv,
                                "js": jv is not None and y.job_status is not None and y.job_status.version > jv}
            if k == "load" and isinstance(res, dict) and "bool" in res:
                ahead.pop(h, None)
            after = parse_disk(out)
            after_raw = raw_files(out)
            o["changed"] = [f for f in FILES if before_raw[f] != after_raw[f]]
            # ---- what each handle has seen of the two data files
            if res == "killed":
                o["killed"] = True
                if k != "load":
                    sync.pop(h, None)
            elif k == "load" and isinstance(res, dict) and "bool" in res:
                sync[h] = {"cfg": after_raw["cluster_config.json"] if "cluster_config.json" in o["changed"] else before_raw["cluster_config.json"],
                           "js": after_raw["job_status.json"] if eff["jobs"] else None}
            elif h in sync and x is not None:
                if "cluster_config.json" in o["changed"]:
                    sync[h]["cfg"] = after_raw["cluster_config.json"]
                if "job_status.json" in o["changed"] or (k == "deserializeJobs" and res == "ok"):
                    sync[h]["js"] = after_raw["job_status.json"]
            # ---- holders (after the call)
            if k in ("load", "promote") and res == {"bool": True}:
                if h not in holders:
                    holders.append(h)
            if k == "demote" and res == "ok" and h in holders:
                holders.remove(h)
            if res == "killed":
                # the dead process is gone; if the submitter field on disk is (still / already) set and no live handle holds
                # the role, the dead process holds it ("ghost"): nobody may be promoted any more
                wellformed = False
                if k != "load" and h in holders:
                    holders.remove(h)
                if after["cfg"] is not None and after["cfg"]["submitter"] is not None and not holders:
                    holders.append(f"dead{len(steps)}")
            if isinstance(res, dict) and "error" in res and res["error"] != "lockTimeout":
                wellformed = False
            if not protocol:
                wellformed = False
            o["holders_after"] = list(holders)
            o["protocol_after"] = protocol
            o["wellformed_after"] = wellformed
            o["submitter_after"] = after["cfg"]["submitter"] if after["cfg"] else "missing"
            # ---- status as `jade show-status` reads it, after every successful op while the lock is free
            if res in ("ok", {"bool": True}, {"bool": False}) and not after["marker"] and after["cfg"] is not None:
                st = self._status(out)
                o["status"] = st
            step = {"res": res, "disk": after}
            if summary is not None:
                step["summary"] = summary
            steps.append(step)
            obs.append(o)
        if self._unhooked:
            raise RuntimeError(f"jade.jobs.cluster wrote {sorted(set(self._unhooked))} outside the file-writing primitives {PRIMITIVES}: "
                               "the kill points of the suite no longer cover every write")
        return {"model": {"init": init, "steps": steps}, "obs": {"steps": obs, "init_status": prev_status}}

    def _status(self, out):
        """Cluster.deserialize(dir, deserialize_jobs=True)[0].get_status_summary(include_jobs=True) + the version files"""
        from jade.jobs.cluster import Cluster
        if (out / LOCK).exists() or not (out / "cluster_config.json").exists():
            return None
        socket.gethostname = lambda: "reader"
        c, _ = Cluster.deserialize(str(out), deserialize_jobs=True)
        s = summary_view(c.get_status_summary(include_jobs=True))
        s["cfgVersion"] = c.config.version
        s["jsVersion"] = c.job_status.version
        s["cfgVerFile"] = read_version(out / "config_version.txt")      # None: the file is empty
        s["jsVerFile"] = read_version(out / "job_status_version.txt")
        s["cfgBytes"] = hashlib.sha1((out / "cluster_config.json").read_bytes()).hexdigest()[:12]
        s["jsBytes"] = hashlib.sha1((out / "job_status.json").read_bytes()).hexdigest()[:12]
        return s

    def _do(self, op, x, handles, out, case):
        from jade.jobs.cluster import Cluster
        from jade.models import Job, JobState
        k = op["k"]
        summary = None
        if k == "crash":
            inner = op["op"]
            self._kill = {"left": op["after"], "fired": False, "torn": bool(op.get("torn", False))}
            try:
                return self._do(inner, x, handles, out, case)
            except Kill:
                self._tornfile = self._kill.get("tornfile")
                # no finally/except of the dead process matters any more; its lock marker stays unless the lock library
                # (or the interpreter's finalizers on Ctrl-C) removed it
                if op["lockGone"] and inner["k"] != "prepareResubmit" and (out / LOCK).exists():
                    (out / LOCK).unlink()
                if inner["k"] != "load":
                    handles.pop(inner.get("h"), None)
                return "killed", None
            finally:
                self._kill = None
        if k == "failWrite":
            # the (after+1)-th file write of the call raises OSError(EDQUOT) instead of writing; everything else - the
            # `except Exception` of `_do_action_under_lock_internal`, the caller, the handle - goes on
            self._kill = {"left": op["after"], "fired": False, "mode": "oserror", "torn": bool(op.get("torn", False))}
            try:
                r = self._do(op["op"], x, handles, out, case)
                self._write_failed = self._kill["fired"]
                self._tornfile = self._kill.get("tornfile")
                return r
            finally:
                self._kill = None
        if k == "stallBegin":
            inner = op["op"]
            if inner["k"] not in LOCKED or inner.get("h") is None:
                return self._do(inner, x, handles, out, case)       # only a call of a handle under the lock is parked
            if self._sched is None:
                self._sched = coop.Scheduler(step_timeout=15.0)
            name = f"call{len(self._sched.workers)}"
            w = self._sched.spawn(name)
            w.ctx["left"] = op["after"]
            stop = self._sched.advance(name, lambda: self._do(inner, x, handles, out, case))
            if stop.what == "yield":
                self._parked[inner.get("h")] = (name, inner)
                return "stalled", None
            if stop.what == "raised":
                raise stop.exc
            return stop.result
        if k == "stallEnd":
            if op["h"] not in self._parked:
                return "noStall", None
            name, _ = self._parked.pop(op["h"])
            stop = self._sched.advance(name)
            if stop.what == "raised":
                raise stop.exc
            if stop.what != "done":
                raise RuntimeError(f"resumed call parked again: {stop}")
            return stop.result
        try:
            if k == "load":
                socket.gethostname = lambda: hostname(op["host"])
                c, promoted = Cluster.deserialize(str(out), try_promote_to_submitter=op["promote"], deserialize_jobs=op["jobs"])
                handles[op["h"]] = c
                return {"bool": bool(promoted)}, None
            if k == "read":
                socket.gethostname = lambda: "reader"
                try:
                    c, _ = Cluster.deserialize(str(out), deserialize_jobs=True)
                    summary = summary_view(c.get_status_summary(include_jobs=True))
                    return "ok", summary
                except Exception as e:
                    return res_enum(e), res_enum(e)
            if k == "breakMarker":
                # the marker of a LIVE holder (a call parked inside its lock section) is not stale: the library leaves it
                if case["breakStale"] and (out / LOCK).exists() and not self._parked:
                    (out / LOCK).unlink()
                    return "ok", None
                return "disabled", None
            if k == "forgeCfgVer":
                (out / "config_version.txt").write_text(f"{op['n']}\n")
                return "ok", None
            if k == "forgeJsVer":
                (out / "job_status_version.txt").write_text(f"{op['n']}\n")
                return "ok", None
            if k == "rmCfg":
                f = out / "cluster_config.json"
                if f.exists():
                    f.unlink()
                return "ok", None
            if x is None:
                return "noHandle", None
            if k in ("memCancel", "memUnblock"):
                if x.job_status is None:
                    return {"error": "attributeError"}, None
                if op["j"] >= len(x.job_status.jobs):
                    return {"error": "keyError"}, None
                job = x.job_status.jobs[op["j"]]
                if k == "memCancel":
                    job.state = JobState.DONE
                    job.blocked_by.clear()
                else:
                    job.blocked_by.difference_update({jname(b) for b in op["done"]})
                return "ok", None
            if k == "promote":
                return {"bool": bool(x.promote_to_submitter())}, None
            if k == "demote":
                x.demote_from_submitter()
            elif k == "update":
                mk = lambda j, by=(): Job(name=jname(j), blocked_by={jname(b) for b in by}, state=JobState.NOT_SUBMITTED)
                x.update_job_status([mk(j) for j in op["submitted"]], [mk(b["j"], b["by"]) for b in op["blocked"]],
                                    [mk(j) for j in op["canceled"]], [jname(j) for j in op["completed"]],
                                    [str(i) for i in op["hpcIds"]], op["batchIdx"])
            elif k == "markComplete":
                x.mark_complete()
            elif k == "markCanceled":
                x.mark_canceled()
            elif k == "completeHpcId":
                x.complete_hpc_job_id(str(op["id"]))
            elif k == "deserializeJobs":
                x.deserialize_jobs()
            elif k == "allComplete":
                return {"bool": bool(x.are_all_jobs_complete())}, None
            elif k == "prepareResubmit":
                x.prepare_for_resubmission({jname(j) for j in op["sel"]}, {jname(b["j"]): {jname(q) for q in b["by"]} for b in op["blockers"]})
            else:
                raise RuntimeError(f"unknown op {k}")
            return "ok", None
        except Exception as e:  # noqa: the enum of the exception is the observation
            if isinstance(e, RuntimeError):
                raise
            return res_enum(e), None

    # ---------------------------------------------------------------- direct oracles
    def oracle(self, case, result):
        v = []
        steps = result.get("model", {}).get("steps", [])
        obs = (result.get("obs") or {}).get("steps", [])
        tainted = False
        reused = False
        last_status = (result.get("obs") or {}).get("init_status")
        for i, (op, st, o) in enumerate(zip(case["ops"], steps, obs)):
            prev_status = last_status
            if o.get("status") is not None:
                last_status = o["status"]
            crash = op["k"] == "crash"
            # the API call (crash: the call during which the process is killed; failWrite: the call one of whose writes raises;
            # stallBegin / stallEnd: the call that parks inside its lock section / goes on from there)
            op = o.get("eff") or (op["op"] if crash else op)
            k, res = op["k"], st["res"]
            where = f"op #{i} {k} h={op.get('h')}" + (" (process killed before one of its file writes)" if o.get("killed") else "") \
                + (" (one of its file writes raised OSError)" if o.get("write_failed") else "") \
                + (" (call parked inside its lock section)" if o.get("stalled") else "") + (" (parked call resumed)" if o.get("resumed") else "")
            success = res in ("ok", {"bool": True})
            # ---- known defect (findings/f9f): a handle one of whose version-file writes FAILED keeps the bumped version number in
            #      memory; once another process has written that very number, the handle's out-of-date copy passes the version
            #      compare and overwrites the newer contents.  Everything that follows is a consequence of this state
            if reused:
                continue
            if (o.get("ahead_cfg") and o.get("cfg_behind") and "cluster_config.json" in o["changed"]) or \
                    (o.get("ahead_js") and o.get("js_behind") and "job_status.json" in o["changed"]):
                reused = True
                v.append(Violation("C10", "failed_write.version_reused", f"{where}: an earlier write of this handle's version file failed "
                                   f"(OSError) after the version had been bumped in memory; another process has since written that version "
                                   f"number, and the handle's out-of-date copy was accepted and overwrote {o['changed']}"))
                continue
            # ---- C10 (e): the cluster lock serialises the lock sections of LIVE processes, however long one of them stays
            #      inside (a call parked by stallBegin is alive and holds the lock; its marker file is an hour old)
            if o.get("parked_before") and not o.get("resumed"):
                ev = [e[0] for e in o.get("lock_events", [])]
                if "break_lock" in ev or (not st["disk"]["marker"] and o.get("parked_after")):
                    v.append(Violation("C10", "lock.broken_while_held", f"{where}: the lock marker of a live process that is still inside its "
                                       f"lock section (handle(s) {o['parked_before']}, stalled) was removed by somebody else"))
                if "entered_while_held" in ev:
                    v.append(Violation("C10", "lock.two_in_section", f"{where}: acquired the cluster lock while the call of handle(s) "
                                       f"{o['parked_before']} was inside its lock section"))
                if o["changed"] and k in LOCKED:
                    v.append(Violation("C10", "lock.wrote_while_held", f"{where}: changed {o['changed']} while the call of handle(s) "
                                       f"{o['parked_before']} was inside its lock section"))
                if k in LOCKED and res not in ({"error": "lockTimeout"}, "noHandle"):
                    v.append(Violation("C10", "lock.not_excluded", f"{where}: returned {res} instead of timing out at the lock held by the "
                                       f"stalled call of handle(s) {o['parked_before']}"))
            # ---- C10 (c'): a handle whose copy is OLDER THAN THE CONTENTS on disk never overwrites them - whatever the version
            #      files say (they are out of step with the contents after a writer was killed between its file writes, or EMPTY
            #      after a writer was killed inside the write of a version file: the unchanged code then rejects EVERY write of
            #      that pair with ValueError; only the overwrite by an out-of-date handle is a violation of C10's text, so an
            #      accepted write by an up-to-date handle in that state is left to the correspondence with the model)
            if not o["forged_before"]:
                if o.get("cfg_behind") and "cluster_config.json" in o["changed"]:
                    v.append(Violation("C10", "stale.overwrote_newer_config", f"{where}: cluster_config.json had been rewritten by another process "
                                       f"since this handle read/wrote it, and the handle overwrote it (result {res})"))
                if o.get("js_behind") and "job_status.json" in o["changed"]:
                    v.append(Violation("C10", "stale.overwrote_newer_jobstatus", f"{where}: job_status.json had been rewritten by another process "
                                       f"since this handle read/wrote it, and the handle overwrote it (result {res})"))
            # ---- C10 (a): at most one believer under Protocol; the submitter field is set iff somebody holds the role
            if o["protocol_after"]:
                if len(o["holders_after"]) > 1:
                    v.append(Violation("C10", "mutex.two_submitters", f"{where}: handles {o['holders_after']} were all promoted and none has demoted"))
                if o["submitter_after"] != "missing" and (o["submitter_after"] is not None) != bool(o["holders_after"]):
                    v.append(Violation("C10", "mutex.submitter_field", f"{where}: submitter field {o['submitter_after']!r} but role holders {o['holders_after']}"))
            # ---- C10 (b): promotion while the role is held is refused and writes nothing
            #      (after a FAILED WRITE the submitter field on disk may lag behind what the process that failed holds - its demotion
            #      wrote the version file and not the data file: that handle's own calls are outside (b) and (b'))
            if k in ("load", "promote") and (k == "promote" or op["promote"]) and not o["marker_before"] \
                    and o["submitter_before"] not in (None, "missing") and (k == "load" or not (o["forged_before"] or o.get("faulted_before"))):
                if res == {"bool": True}:
                    v.append(Violation("C10", "promote.while_held", f"{where}: promoted although host{o['submitter_before']} holds the role"))
                if o["changed"]:
                    v.append(Violation("C10", "promote.refused_but_wrote", f"{where}: refused promotion changed {o['changed']}"))
            # ---- C10 (b'): the code's own guard — only a handle on the submitter's host can clear the role
            if k == "demote" and res == "ok" and not o["forged_before"] and not o.get("faulted_before"):
                if o["submitter_before"] in (None, "missing") or hostname(o["submitter_before"]) != o.get("handle_host"):
                    v.append(Violation("C10", "demote.foreign_host", f"{where}: handle on {o.get('handle_host')} cleared the role "
                                       f"of submitter {o['submitter_before']!r}"))
            # ---- C10 (c): a write by a stale handle is rejected with a version mismatch and leaves the files untouched
            if "cfg_stale" in o and not (o["marker_before"] and k != "prepareResubmit") and not o.get("resumed"):
                stale_cfg = o["cfg_stale"] and k in CFG_WRITERS
                stale_js = o["js_stale"] and k in JS_WRITERS
                if stale_cfg or (stale_js and k != "prepareResubmit"):
                    if success:
                        v.append(Violation("C10", "stale.write_accepted", f"{where}: handle with an out-of-date copy wrote successfully"))
                    if o["changed"]:
                        key = "update.stale_jobstatus.config_rewritten" if (k == "update" and not stale_cfg) else "stale.files_changed"
                        v.append(Violation("C10", key, f"{where}: rejected write ({res}) by a stale handle changed {o['changed']}"))
                    must_mismatch = (k == "markCanceled") or (k == "update" and (stale_cfg or o["js_loaded"])) or \
                        (k == "demote" and o["mem_submitter"] == o["handle_host"]) or \
                        (k == "markComplete" and not o["mem_complete"]) or (k == "promote" and o["mem_submitter"] is None)
                    # an EMPTY version file among the files the call reads: the rejection may be the ValueError of that read
                    # instead of the mismatch of the other pair - which comes first is the read order of the code
                    # (`_check_versions`: config first), not part of the property; the model correspondence pins it
                    torn_read = (o.get("cfg_torn") and k in CFG_WRITERS) or (o.get("js_torn") and k in JS_WRITERS)
                    if must_mismatch and not torn_read and res != {"error": "versionMismatch"}:
                        v.append(Violation("C10", "stale.no_mismatch", f"{where}: stale handle's write returned {res}, not a version mismatch"))
            # ---- C10 (d): under Protocol a holder is never stale when it writes
            if o["protocol_before"] and k in HOLDER_ONLY and op.get("h") in o["holders_before"] and not o["marker_before"] \
                    and not o.get("faulted_before"):
                if res == {"error": "versionMismatch"}:
                    v.append(Violation("C10", "protocol.holder_stale", f"{where}: the role holder's write was rejected as stale"))
            # ---- C09: the status `jade show-status` reads
            s = o.get("status")
            if s is not None and o["wellformed_after"] and not tainted:
                if k == "prepareResubmit":
                    bad = self._c09_state(where, s)
                    p = prev_status or {"jobs": []}
                    left = [j for j, job in enumerate(p["jobs"]) if job["state"] == "not_submitted" and j not in op["sel"]]
                    if bad and left and self._only_unselected_counted(s, len(left)):
                        # known defect 9.7 (and nothing else is wrong): everything that follows is a consequence of this state
                        tainted = True
                        v.append(Violation("C09", "resubmit.unselected_not_submitted_counted",
                                           f"after prepare_for_resubmission(sel={op['sel']}) while jobs {left} were never submitted: " + bad[0].msg))
                    else:
                        v += bad
                    continue
                v += self._c09_state(where, s)
                p = prev_status
                if p is not None:
                    v += self._c09_mono(where, p, s)
        # version monotonicity over the whole run (no forging).  An EMPTY version file (None) has no number: `last` keeps the last
        # number seen in each version file, so that a file that was empty in between is never "repaired" by JADE code into a
        # smaller number, and a data file never changes under an empty (or not larger) version file
        init = result.get("model", {}).get("init") or {}
        last = {"cfgVer": init.get("cfgVer"), "jsVer": init.get("jsVer")}
        bumped_by_parked = {}      # slot of a parked call -> the version files it had already bumped when it parked
        for i, (op, st, o) in enumerate(zip(case["ops"], steps, obs)):
            cur = st["disk"]
            op = o.get("eff") or (op["op"] if op["k"] == "crash" else op)
            larger = {f: cur[f] is not None and (last[f] is None or cur[f] > last[f]) for f in last}
            if o.get("stalled"):
                bumped_by_parked[op.get("h")] = dict(larger)
            if o.get("resumed"):
                # the call wrote the version file before it parked and writes the data file now
                for f, b in bumped_by_parked.pop(op.get("h"), {}).items():
                    larger[f] = larger[f] or b
            if op["k"] not in ("forgeCfgVer", "forgeJsVer"):
                if any(cur[f] is not None and last[f] is not None and cur[f] < last[f] for f in last):
                    v.append(Violation("C10", "version.decreased", f"op #{i} {op['k']}: a version file decreased"))
                if "cluster_config.json" in o["changed"] and op["k"] != "rmCfg" and not larger["cfgVer"]:
                    v.append(Violation("C10", "version.not_bumped", f"op #{i} {op['k']}: cluster_config.json changed without a larger config version"))
                if "job_status.json" in o["changed"] and not larger["jsVer"]:
                    v.append(Violation("C10", "version.not_bumped", f"op #{i} {op['k']}: job_status.json changed without a larger job-status version"))
                if cur["bk"]:
                    v.append(Violation("C10", "backup.left", f"op #{i} {op['k']}: backup files left behind {cur['bk']}"))
            for f in last:
                if cur[f] is not None:
                    last[f] = cur[f]
        seen, out = set(), []
        for x in v:
            if (x.prop, x.key) not in seen:
                seen.add((x.prop, x.key))
                out.append(x)
        return out

    @staticmethod
    def _c09_state(where, s):
        v = []
        n = s["numJobs"]
        submitted = n - s["notSubmitted"]
        done = sum(1 for j in s["jobs"] if j["state"] == "done")
        sub = sum(1 for j in s["jobs"] if j["state"] in ("submitted", "done"))
        if not (0 <= s["completed"] <= submitted <= n):
            v.append(Violation("C09", "status.counter_order", f"{where}: completed={s['completed']} submitted={submitted} total={n}"))
        if s["completed"] != done:
            v.append(Violation("C09", "status.completed_count", f"{where}: completed={s['completed']} but {done} jobs are done"))
        if submitted != sub:
            v.append(Violation("C09", "status.submitted_count", f"{where}: submitted={submitted} but {sub} jobs are submitted or done"))
        if any(j["blockedBy"] for j in s["jobs"] if j["state"] != "not_submitted"):
            v.append(Violation("C09", "status.blockers_after_submit", f"{where}: a submitted/done job still has blockers"))
        if s["cfgVersion"] != s["cfgVerFile"] or s["jsVersion"] != s["jsVerFile"]:
            v.append(Violation("C09", "status.version_files", f"{where}: version inside a file differs from its version file"))
        return v

    @staticmethod
    def _only_unselected_counted(s, nleft):
        """the status is off exactly by `submitted` counting the `nleft` unselected never-submitted jobs"""
        n = s["numJobs"]
        submitted = n - s["notSubmitted"]
        done = sum(1 for j in s["jobs"] if j["state"] == "done")
        sub = sum(1 for j in s["jobs"] if j["state"] in ("submitted", "done"))
        return (s["completed"] == done and submitted == sub + nleft and not any(j["blockedBy"] for j in s["jobs"] if j["state"] != "not_submitted")
                and s["cfgVersion"] == s["cfgVerFile"] and s["jsVersion"] == s["jsVerFile"])

    @staticmethod
    def _c09_mono(where, p, s):
        v = []
        if s["completed"] < p["completed"] or s["notSubmitted"] > p["notSubmitted"]:
            v.append(Violation("C09", "mono.counter_decreased", f"{where}: a counter decreased"))
        for a, b in zip(p["jobs"], s["jobs"]):
            if ORDER[b["state"]] < ORDER[a["state"]]:
                v.append(Violation("C09", "mono.state_backwards", f"{where}: job state went {a['state']} -> {b['state']}"))
            if not set(b["blockedBy"]) <= set(a["blockedBy"]):
                v.append(Violation("C09", "mono.blockers_grew", f"{where}: remaining blockers grew {a['blockedBy']} -> {b['blockedBy']}"))
        if p["isComplete"] and not s["isComplete"]:
            v.append(Violation("C09", "mono.complete_reverted", f"{where}: a complete submission became incomplete"))
        if s["cfgVersion"] < p["cfgVersion"] or s["jsVersion"] < p["jsVersion"]:
            v.append(Violation("C09", "mono.version_decreased", f"{where}: a version decreased"))
        if s["cfgBytes"] != p["cfgBytes"] and not s["cfgVersion"] > p["cfgVersion"]:
            v.append(Violation("C09", "mono.version_not_increased", f"{where}: config changed, version did not increase"))
        if s["jsBytes"] != p["jsBytes"] and not s["jsVersion"] > p["jsVersion"]:
            v.append(Violation("C09", "mono.version_not_increased", f"{where}: job status changed, version did not increase"))
        return v

    # ---------------------------------------------------------------- evidence
    def view(self, result):
        return result["model"] if isinstance(result, dict) and "model" in result else result

    def tags(self, case, result):
        t = set()
        t.add(f"kind.{case.get('kind', '?')}")
        steps = result.get("model", {}).get("steps", [])
        obs = (result.get("obs") or {}).get("steps", [])
        crashed = False
        failed = set()       # handles one of whose calls raised (and that are still in use)
        for op, st, o in zip(case["ops"], steps, obs):
            crash = op["k"] == "crash"
            if op["k"] == "failWrite":
                t.add(f"failWrite.{op['op']['k']}.after{op['after']}." + ("raised[" + ",".join(sorted(o["changed"])) + "]" if o.get("write_failed") else "notReached")
                      + (".emptied[" + o["tornfile"] + "]" if o.get("tornfile") else ""))
                op = op["op"]
            elif op["k"] == "stallBegin":
                t.add(f"stall.{op['op']['k']}.after{op['after']}." + ("parked[" + ",".join(sorted(o["changed"])) + "]" if o.get("stalled") else "notReached"))
                op = op["op"]
            elif op["k"] == "stallEnd":
                t.add("stallEnd." + ("resumed[" + ",".join(sorted(o["changed"])) + "]" if o.get("resumed") else "noStall"))
                op = o.get("eff") or op
            elif o.get("k") == "busy":
                op = o["eff"]
            if crash:
                t.add(f"crash.{op['op']['k']}.after{op['after']}." + ("killed" if o.get("killed") else "notReached"))
                if o.get("killed"):
                    t.add("crash.lockGone" if op["lockGone"] else "crash.markerStays")
                    t.add("crash.torn[" + ",".join(sorted(o["changed"])) + "]")
                    if op.get("torn"):
                        # killed INSIDE a file write: a version file was truncated, or (data file) the plain crash
                        t.add(f"crash.tornfile[{o['tornfile']}]" if o.get("tornfile") else "crash.tornfile.degenerate(data file)")
                        if o.get("tornfile"):
                            t.add(f"crash.tornfile.{op['op']['k']}.after{op['after']}")
                op = op["op"]
            k, res = op["k"], st["res"]
            r = res if isinstance(res, str) else ("err." + res["error"] if "error" in res else f"bool.{res['bool']}")
            t.add(f"{k}.{r}")
            if o.get("parked_before") and not o.get("resumed"):
                t.add(f"duringStall.{k}.{r}")
            hh = op.get("h")
            if hh in failed and not o.get("killed"):
                for pair, writers in (("cfg", CFG_WRITERS), ("js", JS_WRITERS)):
                    if k in writers and (o.get(pair + "_stale") or o.get(pair + "_behind")):
                        t.add(f"afterFailure.out_of_date_{pair}_write.{k}.{r}")
                    elif k in writers and "cfg_stale" in o and not o["marker_before"]:
                        t.add(f"afterFailure.up_to_date_{pair}_write.{k}.{r}")
            if k == "load" and isinstance(res, dict) and "bool" in res:
                failed.discard(hh)
            if isinstance(res, dict) and "error" in res and res["error"] != "lockTimeout" and k != "load" and hh is not None:
                failed.add(hh)
                t.add(f"failure.{k}.{res['error']}" + (".write" if o.get("write_failed") else ""))
            # operations executed while a version file is EMPTY
            for pair, flag, writers, behind in (("cfg", "cfg_torn", CFG_WRITERS, "cfg_behind"), ("js", "js_torn", JS_WRITERS, "js_behind")):
                if o.get(flag):
                    t.add(f"afterTorn.{pair}.{k}.{r}")
                    if k in writers and o.get(behind):
                        t.add(f"afterTorn.{pair}.write_by_out_of_date_handle.{r}")
                    if k in writers and "cfg_stale" in o and not o.get(behind) and not o["marker_before"]:
                        t.add(f"afterTorn.{pair}.write_by_up_to_date_handle.{r}")
            if crashed and not o.get("killed"):
                if o.get("cfg_stale") and k in CFG_WRITERS:
                    t.add(f"afterCrash.stale_cfg_write.{r}")
                if o.get("js_stale") and k in JS_WRITERS:
                    t.add(f"afterCrash.stale_js_write.{r}")
                if k == "load" and op["promote"]:
                    t.add(f"afterCrash.load_promote.{r}")
            crashed = crashed or bool(o.get("killed"))
            if o.get("cfg_stale") and k in CFG_WRITERS:
                t.add("stale.cfg.write_attempt")
            if o.get("js_stale") and not o.get("cfg_stale") and k in JS_WRITERS:
                t.add("stale.js_only.write_attempt")
                if k == "prepareResubmit" and o["changed"]:
                    t.add("finding.prepareResubmit.js_stale.config_rewritten")
            if len(o["holders_after"]) > 1:
                t.add("two_believers(protocol broken)" if not o["protocol_after"] else "two_believers")
            if st["disk"]["marker"]:
                t.add("marker.present")
        if not t:
            t.add("trivial")
        return sorted(t)

    def shrink(self, case):
        ops = case["ops"]
        for i in range(len(ops) - 1, -1, -1):
            yield dict(case, ops=ops[:i] + ops[i + 1:])
        if len(ops) > 1:
            yield dict(case, ops=ops[: len(ops) // 2])
        for i, op in enumerate(ops):
            if op["k"] in ("failWrite", "stallBegin"):
                yield dict(case, ops=ops[:i] + [op["op"]] + ops[i + 1:])
            if op["k"] in WRAPS and op["after"] > 0:
                yield dict(case, ops=ops[:i] + [dict(op, after=op["after"] - 1)] + ops[i + 1:])
            if op["k"] in WRAPS and op["op"]["k"] == "update":
                inner = op["op"]
                for f in ("submitted", "blocked", "canceled", "completed", "hpcIds"):
                    if inner[f]:
                        yield dict(case, ops=ops[:i] + [dict(op, op=dict(inner, **{f: inner[f][:-1]}))] + ops[i + 1:])
            if op["k"] == "update":
                for f in ("submitted", "blocked", "canceled", "completed", "hpcIds"):
                    if op[f]:
                        yield dict(case, ops=ops[:i] + [dict(op, **{f: op[f][:-1]})] + ops[i + 1:])


SUITE = ClusterSuite()
