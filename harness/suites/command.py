"""Suite `command` (C19): how a job is launched and how its outcome is recorded.

Real code driven:
  * `AsyncCliCommand.run()` (so `shlex.split` exactly as that method calls it) with the name `subprocess`
    inside `jade.jobs.async_cli_command` replaced by a fake whose `Popen` records argv / env / stdout /
    stderr and whose `poll()`/`returncode` the case controls; then `is_complete()` -> `_complete()` (or
    `cancel()`) appends to a real results file through `ResultsAggregator`, read back with
    `ResultsAggregator.load_node_results(...).get_results()`;
  * `GenericCommandExecution.generate_command` on real `GenericCommandParameters`;
  * `JobRunner._generate_jobs` of a real `JobRunner` on a real `GenericCommandConfiguration`;
  * (probe cases) the same path with the REAL `subprocess.Popen`: a tiny process that dumps its argv and
    environment and exits with a requested status.
Model side: Driver/Command.lean (`command.split`, `command.generate`, `command.record`, `command.job`).
"""
import itertools
import json
import os
import posixpath
import re
import subprocess as real_subprocess
import sys
import time
from pathlib import Path

from common import Suite, Violation, err_enum, quiet, scratch_dir

ALPHA = ["a", "b", " ", "\t", "\n", "'", '"', "\\", "$", "*", ";", "=", "-", "#", "é", "{", "}", "%", "{0}", "{name}"]
ALPHA_X = ALPHA + ["\r", "'", '"', "\\", " "]          # random stream: a little more quoting, plus \r
SUB10 = ["a", " ", "\t", "\n", "'", '"', "\\", "$", "#", "é"]
CORE5 = ["a", " ", "'", '"', "\\"]                       # thorough: exhaustive for lengths 6 and 7 as well
NAME_CHARS = "abcXYZ019_.-"
LEGAL_NAME = re.compile(r"\A[A-Za-z0-9_.-]+\Z")
BENIGN_PATH = re.compile(r"\A[A-Za-z0-9_.\-/]+\Z")
PLATFORM = sys.platform  # the platform the real code runs on here ("linux")
S = "/S"  # placeholder of the scratch directory in cases and results
PY = sys.executable
PROBE = ("import sys,json,os;print(json.dumps([sys.argv[1:],os.environ.get('JADE_JOB_NAME'),"
         "os.environ.get('JADE_RUNTIME_OUTPUT')]));sys.stderr.write('E');sys.exit(int(sys.argv[1]))")


# ------------------------------------------------------------------------------------------------
# reference word splitting, independent of shlex and of the Lean model: POSIX quoting as documented for
# shlex (whitespace = space, tab, CR, LF; '...' literal; "..." with \" and \\ only; \x outside quotes = x)
# ------------------------------------------------------------------------------------------------
_PIECE = r"""[^ \t\r\n'"\\]|\\.|'[^']*'|"(?:[^"\\]|\\.)*\""""
_WORD = re.compile(r"(?:%s)+" % _PIECE, re.S)
_PIECE_RE = re.compile(_PIECE, re.S)
_WS = re.compile(r"[ \t\r\n]*")


def ref_split(text):
    """list of words, or None when the text has an unterminated quote / trailing backslash"""
    pos, out = 0, []
    while True:
        pos = _WS.match(text, pos).end()
        if pos == len(text):
            return out
        m = _WORD.match(text, pos)
        if not m:
            return None
        word = []
        for p in _PIECE_RE.finditer(m.group(0)):
            s = p.group(0)
            if s[0] == "'":
                word.append(s[1:-1])
            elif s[0] == '"':
                word.append(re.sub(r"\\(.)", lambda k: k.group(1) if k.group(1) in '"\\' else k.group(0), s[1:-1], flags=re.S))
            elif s[0] == "\\":
                word.append(s[1])
            else:
                word.append(s)
        out.append("".join(word))
        pos = m.end()
        if pos < len(text) and text[pos] not in " \t\r\n":
            return None  # a quote that never closes / a backslash at the very end


def q_single(tok):
    return "'" + tok.replace("'", "'\"'\"'") + "'"


def q_double(tok):
    return '"' + tok.replace("\\", "\\\\").replace('"', '\\"') + '"'


def q_backslash(tok):
    if tok == "":
        return "''"
    return "".join("\\" + c if c in " \t\r\n'\"\\" else c for c in tok)


def q_mixed(tok, rng):
    """concatenation of differently quoted pieces"""
    if tok == "":
        return rng.choice(["''", '""', "''\"\""])
    cuts = sorted(rng.sample(range(len(tok) + 1), min(len(tok) + 1, rng.randint(0, 2))))
    parts, prev = [], 0
    for c in cuts + [len(tok)]:
        parts.append(tok[prev:c])
        prev = c
    return "".join(rng.choice([q_single, q_double, q_backslash])(p) if p else rng.choice(["", "''", '""']) for p in parts) or "''"


def is_safe_word(w):
    return w != "" and not any(c in " \t\r\n'\"\\" for c in w)


# ------------------------------------------------------------------------------------------------
# fakes at the process boundary
# ------------------------------------------------------------------------------------------------
class FakePopen:
    last = None
    script = {"rc": 0, "pending": 0}

    def __init__(self, args, env=None, stdout=None, stderr=None, **kwargs):
        self.args = list(args) if isinstance(args, (list, tuple)) else args
        self.env = dict(env) if env is not None else None
        self.base_env = dict(os.environ)
        self.stdout_name = getattr(stdout, "name", None)
        self.stderr_name = getattr(stderr, "name", None)
        self.stdout_mode = getattr(stdout, "mode", None)
        self.stderr_mode = getattr(stderr, "mode", None)
        self.extra_kwargs = sorted(kwargs)
        self.returncode = None
        self.pid = 4242
        self._pending = FakePopen.script["pending"]
        self._rc = FakePopen.script["rc"]
        FakePopen.last = self

    def poll(self):
        if self._pending > 0:
            self._pending -= 1
            return None
        self.returncode = self._rc
        return self.returncode


class FakeSubprocess:
    PIPE = -1
    Popen = FakePopen


class RecordingPopen(real_subprocess.Popen):
    """the real Popen; only remembers what it was given"""
    last = None

    def __init__(self, args, env=None, stdout=None, stderr=None, **kwargs):
        self.rec_args = list(args)
        self.env = dict(env) if env is not None else None
        self.base_env = dict(os.environ)
        self.stdout_name = getattr(stdout, "name", None)
        self.stderr_name = getattr(stderr, "name", None)
        self.stdout_mode = getattr(stdout, "mode", None)
        self.stderr_mode = getattr(stderr, "mode", None)
        self.extra_kwargs = sorted(kwargs)
        RecordingPopen.last = self
        kwargs.setdefault("stdin", real_subprocess.DEVNULL)   # the probes never read stdin
        super().__init__(args, env=env, stdout=stdout, stderr=stderr, **kwargs)


class RealSubprocess:
    PIPE = real_subprocess.PIPE
    Popen = RecordingPopen


class CommandSuite(Suite):
    name = "command"
    _eff_cache = {}

    # -------------------------------------------------------------------------------------------- setup
    def setup(self):
        import jade.jobs.async_cli_command as acc
        self._acc = acc
        self._saved_subprocess = acc.subprocess
        acc.subprocess = FakeSubprocess
        self._saved_env = {k: os.environ.get(k) for k in
                           ("JADE_RUNTIME_OUTPUT", "JADE_JOB_NAME", "SLURM_JOB_ID", "SLURM_NODEID")}
        for k in self._saved_env:
            os.environ.pop(k, None)
        self._scratch_cm = scratch_dir()
        self._scratch = self._scratch_cm.__enter__()
        self._n = 0
        self._split_dir = None

    def teardown(self):
        self._acc.subprocess = self._saved_subprocess
        for k, v in self._saved_env.items():
            if v is None:
                os.environ.pop(k, None)
            else:
                os.environ[k] = v
        self._scratch_cm.__exit__(None, None, None)

    # -------------------------------------------------------------------------------------------- generators
    def cases(self, rng, tier, prop):
        thorough = tier == "thorough"
        out = []
        out += self._split_fixed()
        out += self._split_exhaustive(5 if thorough else 3)
        if thorough:
            for n in (6, 7):
                out += [self._split("".join(t)) for t in itertools.product(CORE5, repeat=n)]
        out += self._split_random(rng, 20000 if thorough else 2500)
        out += self._split_structured(rng, 4000 if thorough else 700)
        out += self._generate_cases(rng, 1500 if thorough else 300)
        out += self._record_cases(rng, thorough)
        out += self._job_cases(rng, 2500 if thorough else 350)
        out += self._probe_cases(rng, thorough)
        # which node of an allocation is the manager node, and what a node records (multi-node allocations)
        out += [{"op": "replica.manager", "nodeId": v} for v in (None, "0", "1", "2", "3", "10", "17", "100")]      # what SLURM sets: plain decimals (or nothing outside an allocation)
        return out

    def _split(self, text, **kw):
        c = {"op": "command.split", "text": text, "platform": PLATFORM}
        c.update(kw)
        return c

    def _split_fixed(self):
        texts = [
            "", " ", "a", 'a""', "''", '""', "\"a\"'b'", "a\\\nb", "\\\n", "\\", "a\\", "'", '"', "'a", '"a\\"',
            "a b", " a  b ", "a\tb\nc\rd", "é ü", "a#b #c", "#", "$HOME *;x", "--x=\"a b\" 'c d' e\\ f",
            "python run.py --x=\"a b\" 'c d' e\\ f", "\"a\\$b\\\\c\\\"d\\nb\"", "'a\\'", "'a\\'b'", "a''b\"\"c",
            "'' ''", "a '' b", "\"\"a", "\\ ", " \\  ", "\\'", "\\\"", "a\\'b", "\"'\"", "'\"'", "\"\\'\"", "\"\\\n\"",
            "a\x0bb\x0cc", "a\u00a0b", "a\u2003b", "x=1;y=2", "-", "--", "=", "a=b=c",
        ]
        return [self._split(t) for t in texts]

    def _split_exhaustive(self, maxlen):
        out = []
        for n in range(0, maxlen + 1):
            for t in itertools.product(SUB10, repeat=n):
                out.append(self._split("".join(t)))
        return out

    def _split_random(self, rng, count):
        out = []
        for _ in range(count):
            n = rng.randint(0, 10)
            out.append(self._split("".join(rng.choice(ALPHA_X) for _ in range(n))))
        return out

    def _rand_token(self, rng, maxlen=5):
        r = rng.random()
        if r < .06:
            return ""
        if r < .45:
            return "".join(rng.choice("ab$*;=-#é{}%") for _ in range(rng.randint(1, maxlen)))
        return "".join(rng.choice(ALPHA) for _ in range(rng.randint(1, maxlen)))

    def _quote(self, rng, tok):
        if is_safe_word(tok) and rng.random() < .5:
            return tok
        r = rng.random()
        if r < .3:
            return q_single(tok)
        if r < .55:
            return q_double(tok)
        if r < .75:
            return q_backslash(tok)
        return q_mixed(tok, rng)

    def _join(self, rng, words):
        seps = [" ", " ", " ", "  ", "\t", "\n", " \t ", "\r\n"]
        text = rng.choice(["", "", " ", "\t"])
        for i, w in enumerate(words):
            if i:
                text += rng.choice(seps)
            text += w
        return text + rng.choice(["", "", " ", "\n"])

    def _split_structured(self, rng, count):
        out = []
        for _ in range(count):
            toks = [self._rand_token(rng) for _ in range(rng.randint(0, 5))]
            text = self._join(rng, [self._quote(rng, t) for t in toks])
            c = self._split(text, truth=toks)
            r = rng.random()
            if r < .08:  # malformed stream: break the text
                c = self._split(text + rng.choice(["'", '"', "\\", " 'x", ' "x\\"', " x\\"]))
            out.append(c)
        # commands shaped like the ones users write
        for _ in range(count // 4):
            prog = rng.choice(["python run.py", "bash run_job.sh", "/bin/echo", "julia --project=. sim.jl"])
            args = []
            for _ in range(rng.randint(0, 4)):
                v = rng.choice(["a b", "c d", "e f", "x", "1", "a'b", 'q"r', "p\\q", "$HOME", "*.csv", "", "é t",
                                '{"scale":0.5}', "{}", "{name}_*.csv", "{{print $1}}", "100%", "%s", "{output_dir}"])
                k = rng.choice(["--x=", "--name=", "-o", ""])
                style = rng.randint(0, 3)
                if style == 0:
                    args.append((k + v, k + q_double(v)))
                elif style == 1:
                    args.append((k + v, q_single(k + v)))
                elif style == 2:
                    args.append((k + v, q_backslash(k + v)))
                else:
                    args.append((k + v, k + q_single(v)))
            text = prog + "".join(" " + a[1] for a in args)
            out.append(self._split(text, truth=prog.split(" ") + [a[0] for a in args]))
        return out

    def _name(self, rng, legal=True):
        if legal:
            return "".join(rng.choice(NAME_CHARS) for _ in range(rng.randint(1, 8)))
        return rng.choice(["a b", "j 1", "x$y", "a;b", "n*", "a\tb", "job'1", 'j"2', "a\\b", "é1", "a=b", " lead", "trail "])

    def _command(self, rng):
        """(text, user tokens or None if the text does not split)"""
        r = rng.random()
        if r < .12:
            text = "".join(rng.choice(ALPHA_X) for _ in range(rng.randint(0, 10)))
            return text
        toks = [self._rand_token(rng) for _ in range(rng.randint(1, 4))]
        if rng.random() < .6:
            toks = [rng.choice(["python", "bash", "/bin/echo", "run.sh"])] + toks
        text = self._join(rng, [self._quote(rng, t) for t in toks])
        if rng.random() < .05:
            text += rng.choice(["\\", "'", '"'])
        return text

    def _generate_cases(self, rng, count):
        out = []
        outputs = ["out/job-outputs", "/scratch/u/run1/job-outputs", "job-outputs", "/job-outputs", "a//job-outputs",
                   "a/b/", "/", "", "x", "//x", "/a", "rel/dir/../o/job-outputs", "out put/job-outputs", "o.d-1/job-outputs"]
        for name_legal, a, b in itertools.product([True, False], [True, False], [True, False]):
            for o in outputs[:6]:
                out.append({"op": "command.generate", "name": self._name(rng, name_legal), "command": self._command(rng),
                            "appendJobName": a, "appendOutputDir": b, "output": o})
        for _ in range(count):
            out.append({"op": "command.generate", "name": self._name(rng, rng.random() < .85), "command": self._command(rng),
                        "appendJobName": rng.random() < .5, "appendOutputDir": rng.random() < .5,
                        "output": rng.choice(outputs)})
        return out

    def _rc(self, rng):
        r = rng.random()
        if r < .25:
            return 0
        if r < .4:
            return 1
        if r < .9:
            return rng.randint(0, 255)
        return rng.choice([-9, -15, -11, -1, 256, 1000, 2 ** 31, -2 ** 31])

    def _outdir(self, rng, benign=True):
        if benign:
            return S + "/" + rng.choice(["out", "output", "o.d-1", "run_2/out", "a/b/c"])
        return S + "/" + rng.choice(["out put", "o'q", "o$x", "o;x", "é"])

    def _record_cases(self, rng, thorough):
        out = []
        codes = list(range(256)) + [-9, -15, 256, 70000, -1]
        if not thorough:
            codes = [0, 1, 2, 126, 127, 128, 137, 254, 255, -9, -15, 256] + rng.sample(range(3, 254), 40)
        for rc in codes:
            for mode in ("complete", "cancel") if rc in (0, 1, 2, 255, -9) else ("complete",):
                out.append({"op": "command.record", "cmd": self._command(rng), "name": self._name(rng),
                            "output": self._outdir(rng), "hpc": rng.choice([None, "12345", "7", "9876543"]),
                            "batch": rng.choice([0, 1, 2, 17]), "manager": rng.random() < .8, "rc": rc,
                            "mode": mode, "pending": rng.choice([0, 0, 1, 2]), "platform": PLATFORM})
        for _ in range(600 if thorough else 120):
            out.append({"op": "command.record", "cmd": self._command(rng), "name": self._name(rng, rng.random() < .85),
                        "output": self._outdir(rng, rng.random() < .85), "hpc": rng.choice([None, "12345", "7", "55"]),
                        "batch": rng.choice([0, 1, 2, 17, 123]), "manager": rng.random() < .8, "rc": self._rc(rng),
                        "mode": rng.choice(["complete", "complete", "complete", "cancel"]),
                        "pending": rng.choice([0, 0, 1, 3]), "platform": PLATFORM})
        return out

    def _job_cases(self, rng, count):
        out = []
        combos = list(itertools.product([True, False], [True, False]))
        for i in range(count):
            a, b = combos[i % 4]
            hpc = rng.choice([None, "12345", "7", "4242424"])
            command = self._command(rng)
            if not command.strip():   # `add_job` rejects an empty command (InvalidConfiguration)
                command = "a"
            out.append({"op": "command.job", "name": self._name(rng, rng.random() < .9), "command": command,
                        "appendJobName": a, "appendOutputDir": b, "output": self._outdir(rng, rng.random() < .9),
                        "hpc": hpc, "batch": rng.choice([0, 1, 2, 17]),
                        "manager": True if hpc is None else rng.random() < .85, "rc": self._rc(rng),
                        "pending": rng.choice([0, 0, 1]), "platform": PLATFORM})
        return out

    def _probe_cases(self, rng, thorough):
        """real processes; `rc` is the status the process is asked to exit with"""
        out = []
        codes = list(range(256)) if thorough else [0, 1, 2, 77, 126, 127, 128, 255]

        def job(command, rc, i, **kw):
            c = {"op": "command.job", "name": f"probe_{i}", "command": command, "appendJobName": False,
                 "appendOutputDir": False, "output": S + "/out", "hpc": rng.choice([None, "31337"]), "batch": 1,
                 "manager": True, "rc": rc, "pending": 0, "platform": PLATFORM, "probe": "sh"}
            c.update(kw)
            return c
        for i, rc in enumerate(codes):
            out.append(job(f"/bin/sh -c 'exit {rc}'", rc, i))
        shapes = [
            ["a", "b c", "d"], ["--x=a b", "c d", "e f"], ["", "x", ""], ["a'b", 'c"d', "e\\f"], ["$HOME", "*", ";", "#x"],
            ["é", "ü ö"], ["a\nb", "c\td"], ["--k=v", "-", "--"], ["'", '"', "\\"], [" lead", "trail "],
        ]
        pcodes = codes if thorough else [0, 3, 255]
        for i, rc in enumerate(pcodes):
            toks = shapes[i % len(shapes)] if i < 2 * len(shapes) else [self._rand_token(rng) for _ in range(rng.randint(0, 4))]
            text = f"{PY} -c {q_double(PROBE) if i % 3 == 0 else q_single(PROBE)} {rc}" + "".join(" " + self._quote(rng, t) for t in toks)
            a, b = [(True, True), (True, False), (False, True), (False, False)][i % 4]
            out.append(job(text, rc, 1000 + i, probe="py", appendJobName=a, appendOutputDir=b, truth=toks))
        # killed by a signal: Popen reports -N
        out.append(job("/bin/sh -c 'kill -9 $$'", -9, 2000))
        out.append(job("/bin/sh -c 'kill -15 $$'", -15, 2001))
        return out

    # -------------------------------------------------------------------------------------------- implementation
    def impl(self, case):
        with quiet():
            return getattr(self, "_impl_" + case["op"].split(".")[1])(case)

    def _fresh_output(self, case_output):
        """a fresh directory tree for one case: <scratch>/<n>/<rel>; the result is canonicalised by
        mapping <scratch>/<n> back to the placeholder"""
        self._n += 1
        root = self._scratch / str(self._n)
        out = Path(str(root) + case_output[len(S):])
        (out / "job-stdio").mkdir(parents=True)
        (out / "results").mkdir()
        return root, out

    def _impl_manager(self, case):
        """real `SlurmManager.am_i_manager()` under the given SLURM_NODEID, then a real AsyncCliCommand built with that
        answer: does `_complete` / `cancel` append a row?"""
        from jade.hpc.slurm_manager import SlurmManager
        from jade.extensions.generic_command.generic_command_parameters import GenericCommandParameters
        saved = os.environ.pop("SLURM_NODEID", None)
        try:
            if case["nodeId"] is not None:
                os.environ["SLURM_NODEID"] = case["nodeId"]
            mgr = bool(SlurmManager(None).am_i_manager())
        finally:
            os.environ.pop("SLURM_NODEID", None)
            if saved is not None:
                os.environ["SLURM_NODEID"] = saved
        res = {"manager": mgr}
        for kind in ("Finished", "Canceled"):
            root, out = self._fresh_output(S + "/o")
            job = GenericCommandParameters(command="true", name="j")
            cmd = self._acc.AsyncCliCommand(job, "true", str(out), 1, mgr, "77")
            if kind == "Canceled":
                cmd.cancel()
            else:
                class _P:
                    returncode = 0
                class _F:
                    def close(self):
                        pass
                cmd._pipe, cmd._stdout_fp, cmd._stderr_fp, cmd._start_time = _P(), _F(), _F(), 0.0
                (out / "job-outputs" / "j").mkdir(parents=True, exist_ok=True)
                cmd._complete()
            f = out / "results" / "results_batch_1.csv"
            rows = [l for l in f.read_text().split("\n")[1:] if l.strip()] if f.exists() else []
            res["records" + kind] = len(rows) == 1 if rows else False
            if len(rows) > 1:
                res["records" + kind] = f"{len(rows)} rows"
        return res

    def _impl_split(self, case):
        from jade.jobs.async_cli_command import AsyncCliCommand
        from jade.extensions.generic_command.generic_command_parameters import GenericCommandParameters
        if self._split_dir is None:
            self._split_dir = self._scratch / "split"
            (self._split_dir / "job-stdio").mkdir(parents=True)
            self._split_job = GenericCommandParameters(command="unused", name="j", job_id=1)
        cmd = AsyncCliCommand(self._split_job, case["text"], str(self._split_dir), 1, True, None)
        FakePopen.last = None
        FakePopen.script = {"rc": 0, "pending": 0}
        try:
            cmd.run()
        except Exception as e:  # noqa
            return {"error": err_enum(e)}
        finally:
            for fp in (cmd._stdout_fp, cmd._stderr_fp):
                if fp is not None:
                    fp.close()
            cmd._is_pending = False
        return list(FakePopen.last.args)

    def _impl_generate(self, case):
        from jade.extensions.generic_command.generic_command_execution import GenericCommandExecution
        from jade.extensions.generic_command.generic_command_parameters import GenericCommandParameters
        job = GenericCommandParameters(command=case["command"], name=case["name"], job_id=1,
                                       append_job_name=case["appendJobName"], append_output_dir=case["appendOutputDir"])
        return GenericCommandExecution.generate_command(job, case["output"], "config.json", verbose=False)

    def _launch_view(self, p, root):
        """what the (fake or recording) Popen saw, canonicalised"""
        env = p.env
        base = p.base_env
        if env is None:
            diff, inherits = {}, True
        else:
            diff = {k: v for k, v in env.items() if base.get(k) != v}
            inherits = all(k in env for k in base)
        view = {"argv": list(getattr(p, "rec_args", None) or p.args), "env": diff, "inherits": inherits,
                "stdout": p.stdout_name, "stderr": p.stderr_name}
        if p.stdout_mode != "w" or p.stderr_mode != "w":
            view["modes"] = [p.stdout_mode, p.stderr_mode]
        if p.extra_kwargs:
            view["popen_kwargs"] = p.extra_kwargs
        return self._uncanon_root(view, root)

    def _uncanon_root(self, x, root):
        r = str(root)
        if isinstance(x, str):
            return x.replace(r, S)
        if isinstance(x, list):
            return [self._uncanon_root(v, root) for v in x]
        if isinstance(x, dict):
            return {k: self._uncanon_root(v, root) for k, v in x.items()}
        return x

    def _read_row(self, out):
        """the single row recorded under <out>/results, through ResultsAggregator"""
        from jade.jobs.results_aggregator import ResultsAggregator
        files = sorted((out / "results").glob("results_batch_*.csv"))
        rows = []
        for f in files:
            m = re.fullmatch(r"results_batch_(\d+)\.csv", f.name)
            batch = int(m.group(1)) if m else -1
            try:
                got = ResultsAggregator.load_node_results(str(out), batch).get_results()
            except Exception as e:  # noqa  (a row that cannot be read back is not a recorded result)
                return {"unreadable": f"{f.name}: {type(e).__name__}"}
            for r in got:
                rows.append({"name": r.name, "return_code": r.return_code, "status": r.status,
                             "hpc_job_id": r.hpc_job_id, "batch": batch})
        if not rows:
            return None
        if len(rows) > 1:
            return {"multiple": rows}
        return rows[0]

    def _drive(self, cmd, case, out, popen_cls):
        """run() then poll is_complete() until done; returns the Popen object or an error dict"""
        try:
            cmd.run()
        except Exception as e:  # noqa
            return {"error": err_enum(e)}
        p = popen_cls.last
        deadline = time.time() + 10
        polls = 0
        while not cmd.is_complete():
            polls += 1
            if popen_cls is RecordingPopen:
                time.sleep(0.001)
            if time.time() > deadline:
                if popen_cls is RecordingPopen:
                    p.kill()
                    p.wait()
                    cmd.is_complete()
                raise RuntimeError("job did not complete")
        self._polls = polls
        return p

    def _impl_record(self, case):
        from jade.jobs.async_cli_command import AsyncCliCommand
        from jade.extensions.generic_command.generic_command_parameters import GenericCommandParameters
        root, out = self._fresh_output(case["output"])
        job = GenericCommandParameters(command="unused", name=case["name"], job_id=1)
        cmd = AsyncCliCommand(job, self._uncanon_cmd(case["cmd"], root), str(out), case["batch"], case["manager"], case["hpc"])
        FakePopen.last = None
        FakePopen.script = {"rc": case["rc"], "pending": case.get("pending", 0)}
        if case["mode"] == "cancel":
            cmd.cancel()
            self._last_return_code = cmd.return_code
            return {"launch": None, "row": self._read_row(out)}
        p = self._drive(cmd, case, out, FakePopen)
        if isinstance(p, dict):
            return p
        self._last_return_code = cmd.return_code
        return {"launch": self._launch_view(p, root), "row": self._read_row(out)}

    def _uncanon_cmd(self, text, root):
        return text.replace(S + "/", str(root) + "/")

    def _impl_job(self, case):
        from jade.extensions.generic_command.generic_command_configuration import GenericCommandConfiguration
        from jade.extensions.generic_command.generic_command_parameters import GenericCommandParameters
        from jade.jobs.job_runner import JobRunner
        from jade.models import SubmissionGroup, SubmitterParams, HpcConfig
        root, out = self._fresh_output(case["output"])
        cfg = GenericCommandConfiguration()
        job = GenericCommandParameters(command=case["command"], name=case["name"],
                                       append_job_name=case["appendJobName"], append_output_dir=case["appendOutputDir"])
        cfg.add_job(job)
        if case["hpc"] is None:
            hpc = HpcConfig(hpc_type="local", hpc={})
            os.environ.pop("SLURM_JOB_ID", None)
            os.environ.pop("SLURM_NODEID", None)
        else:
            hpc = HpcConfig(hpc_type="slurm", hpc={"account": "acct"})
            os.environ["SLURM_JOB_ID"] = case["hpc"]
            os.environ["SLURM_NODEID"] = "0" if case["manager"] else "1"
        params = SubmitterParams(hpc_config=hpc, resource_monitor_type="none", generate_reports=False)
        cfg.append_submission_group(SubmissionGroup(name="default", submitter_params=params))
        probe = case.get("probe")
        popen_cls = RecordingPopen if probe else FakePopen
        self._acc.subprocess = RealSubprocess if probe else FakeSubprocess
        # JADE running inside a JADE job (a job whose command submits jobs) or in a shell that still exports the two
        # variables: the job must get ITS name and output directory, not the inherited ones.  Every other case.
        ambient = case.get("ambient", (len(case["name"]) + int(case["batch"])) % 2 == 0)
        if ambient:
            os.environ["JADE_JOB_NAME"] = "outer_job_7"
            os.environ["JADE_RUNTIME_OUTPUT"] = "/outer/output"
        try:
            runner = JobRunner(cfg, str(out), batch_id=case["batch"])
            jobs = runner._generate_jobs("config.json", False)
            if len(jobs) != 1:
                return {"error": f"{len(jobs)} jobs generated"}
            cmd = jobs[0]
            res = {"cmd": self._uncanon_root(cmd._cli_cmd, root)}
            popen_cls.last = None
            FakePopen.script = {"rc": case["rc"], "pending": case.get("pending", 0)}
            p = self._drive(cmd, case, out, popen_cls)
            if isinstance(p, dict):
                res.update(p)
                return res
            res["launch"] = self._launch_view(p, root)
            res["row"] = self._read_row(out)
            if probe:
                mism = self._probe_check(case, p, out, root)
                if mism:
                    res["os_mismatch"] = mism
            return res
        finally:
            self._acc.subprocess = FakeSubprocess
            os.environ.pop("SLURM_JOB_ID", None)
            os.environ.pop("SLURM_NODEID", None)
            os.environ.pop("JADE_JOB_NAME", None)
            os.environ.pop("JADE_RUNTIME_OUTPUT", None)

    def _probe_check(self, case, p, out, root):
        """what the operating system did with argv / env / exit status / stdio, against what Popen was given"""
        mism = []
        if p.returncode != case["rc"]:
            mism.append(f"process was asked to end with status {case['rc']}, Popen.returncode={p.returncode}")
        if case["probe"] == "py":
            so = Path(p.stdout_name).read_text()
            se = Path(p.stderr_name).read_text()
            try:
                seen_argv, seen_name, seen_out = json.loads(so)
            except Exception:  # noqa
                return mism + [f"probe stdout unreadable: {so[:80]!r}"]
            if seen_argv != p.rec_args[3:]:
                mism.append(f"process saw argv {seen_argv!r}, Popen was given {p.rec_args[3:]!r}")
            if seen_name != p.env.get("JADE_JOB_NAME") or seen_out != p.env.get("JADE_RUNTIME_OUTPUT"):
                mism.append(f"process saw env {seen_name!r}/{seen_out!r}")
            if se != "E":
                mism.append(f"stderr file content {se!r}")
        return mism

    # -------------------------------------------------------------------------------------------- effective configuration
    def _effective(self, case):
        """The job as the configuration stores it: the pydantic model of `GenericCommandParameters` strips
        leading/trailing whitespace of `command` and `name` (see the note in props/C19.py).  Model and oracle
        speak about the stored ("configured") values."""
        if case["op"] in ("command.split", "replica.manager"):
            return case
        key = (case.get("command"), case["name"])
        eff = self._eff_cache.get(key)
        if eff is None:
            from jade.extensions.generic_command.generic_command_parameters import GenericCommandParameters
            with quiet():
                job = GenericCommandParameters(command=case.get("command", "unused"), name=case["name"], job_id=1)
            eff = (job.command, job.name)
            if len(self._eff_cache) > 50000:
                self._eff_cache.clear()
            self._eff_cache[key] = eff
        c = dict(case)
        if "command" in case:
            c["command"] = eff[0]
        c["name"] = eff[1]
        return c

    def model_case(self, case):
        return self._effective(case)

    # -------------------------------------------------------------------------------------------- direct oracles
    def oracle(self, case, result):
        raw = case
        case = self._effective(case)
        op = case["op"]
        v = []
        if op == "replica.manager":
            want = case["nodeId"] == "0"
            if not isinstance(result, dict) or result.get("manager") != want:
                v.append(Violation("C19", "manager.node", f"SLURM_NODEID={case['nodeId']!r}: am_i_manager() = {result.get('manager') if isinstance(result, dict) else result!r}, "
                                   "the manager node of an allocation is the node with id 0 and no other"))
            for kind in ("Finished", "Canceled"):
                if isinstance(result, dict) and result.get("records" + kind) != want:
                    v.append(Violation("C19", "manager.records", f"SLURM_NODEID={case['nodeId']!r}: a node records a {kind.lower()} job's result: "
                                       f"{result.get('records' + kind)!r}, expected {want} (exactly the manager node records, once)"))
            return v
        if op == "command.split":
            exp = ref_split(case["text"])
            self._check_argv(v, "split.argv", case["text"], result if isinstance(result, list) else None,
                             result.get("error") if isinstance(result, dict) else None, exp)
            if "truth" in case and result != case["truth"]:
                v.append(Violation("C19", "split.tokens", f"command {case['text']!r} was written to carry the arguments "
                                                          f"{case['truth']!r} but the process would receive {result!r}"))
        elif op == "command.generate":
            exp = case["command"]
            if case["appendJobName"]:
                exp += " --jade-job-name=" + case["name"]
            if case["appendOutputDir"]:
                o = case["output"]
                d = o[: -len("/job-outputs")] if o.endswith("/job-outputs") and BENIGN_PATH.match(o) and "//" not in o and o != "/job-outputs" else posixpath.dirname(o)
                exp += " --jade-runtime-output=" + d
            if result != exp:
                v.append(Violation("C19", "generate.text", f"generated command {result!r}, configured {exp!r}"))
        elif op == "command.record":
            self._oracle_run(v, case, result, case["cmd"], None)
        elif op == "command.job":
            self._oracle_run(v, case, result, None, case)
        return v

    def _check_argv(self, v, key, text, argv, error, exp):
        if exp is None:
            if error != "valueError":
                v.append(Violation("C19", key, f"command {text!r} has an unterminated quote/escape but was launched as {argv!r} ({error})"))
        elif argv != exp:
            v.append(Violation("C19", key, f"command {text!r}: POSIX splitting gives {exp!r}, the process gets {argv!r} ({error})"))

    def _oracle_run(self, v, case, result, cmd_text, jobcase):
        if not isinstance(result, dict):
            v.append(Violation("C19", "run.shape", f"unexpected result {result!r}"))
            return
        if result.get("os_mismatch"):
            v.append(Violation("C19", "os.boundary", "; ".join(result["os_mismatch"])))
        name, out = case["name"], case["output"]
        cancel = case.get("mode") == "cancel"
        if jobcase is not None:
            # expected command text: configured command + documented flags
            cmd_text = case["command"]
            flags = []
            if case["appendJobName"]:
                flags.append("--jade-job-name=" + name)
            if case["appendOutputDir"]:
                flags.append("--jade-runtime-output=" + out)
            cmd_text += "".join(" " + f for f in flags)
            if result.get("cmd") != cmd_text:
                v.append(Violation("C19", "generate.text", f"generated command {result.get('cmd')!r}, configured {cmd_text!r}"))
        if not cancel:
            exp = ref_split(cmd_text)
            launch = result.get("launch")
            if launch is None:
                self._check_argv(v, "launch.argv", cmd_text, None, result.get("error"), exp)
                if exp is None:
                    return  # not launchable: nothing is recorded, nothing else to check
                return
            self._check_argv(v, "launch.argv", cmd_text, launch["argv"], None, exp)
            if jobcase is not None:
                user = ref_split(case["command"])
                legal = LEGAL_NAME.match(name) and BENIGN_PATH.match(out)
                if user is not None and legal and launch["argv"] != user + flags:
                    v.append(Violation("C19", "launch.flags", f"user arguments {user!r} + flags {flags!r} expected, process gets {launch['argv']!r}"))
                if "truth" in case and user is not None and launch["argv"][3 + 1:len(user)] != case["truth"]:
                    v.append(Violation("C19", "launch.tokens", f"probe arguments {case['truth']!r} expected, got {launch['argv'][4:len(user)]!r}"))
            if "popen_kwargs" in launch:
                v.append(Violation("C19", "launch.popen", f"process created with extra options {launch['popen_kwargs']} (shell/cwd/... change what is executed)"))
            want_env = {"JADE_RUNTIME_OUTPUT": out, "JADE_JOB_NAME": name}
            if launch["env"] != want_env or not launch["inherits"]:
                v.append(Violation("C19", "launch.env", f"environment additions {launch['env']!r} (inherits={launch['inherits']}), expected {want_env!r}"))
            if launch["stdout"] != f"{out}/job-stdio/{name}.o" or launch["stderr"] != f"{out}/job-stdio/{name}.e" or "modes" in launch:
                v.append(Violation("C19", "launch.stdio", f"stdout={launch['stdout']!r} stderr={launch['stderr']!r} modes={launch.get('modes')}, "
                                                          f"expected {out}/job-stdio/{name}.o|.e opened for writing"))
        row = result.get("row")
        if not case["manager"]:
            if row is not None:
                v.append(Violation("C19", "row.nonmanager", f"non-manager node recorded {row!r}"))
            return
        if row is None or "multiple" in row or "unreadable" in row:
            v.append(Violation("C19", "row.missing", f"expected exactly one recorded row in results_batch_{case['batch']}.csv, got {row!r}"))
            return
        if row["name"] != name:
            v.append(Violation("C19", "row.name", f"row name {row['name']!r}, job name {name!r}"))
        if row["batch"] != case["batch"]:
            v.append(Violation("C19", "row.batch", f"row written to batch file {row['batch']}, node runs batch {case['batch']}"))
        if row["hpc_job_id"] != case["hpc"]:
            v.append(Violation("C19", "row.hpc_job_id", f"row hpc_job_id {row['hpc_job_id']!r}, node's HPC job id {case['hpc']!r}"))
        if cancel:
            if row["return_code"] == 0 or row["status"] != "canceled":
                v.append(Violation("C19", "row.cancel", f"canceled job recorded as {row!r}"))
        else:
            if row["return_code"] != case["rc"]:
                v.append(Violation("C19", "row.return_code", f"process ended with {case['rc']}, recorded return_code {row['return_code']}"))
            if row["status"] != "finished":
                v.append(Violation("C19", "row.status", f"finished job recorded with status {row['status']!r}"))

    # -------------------------------------------------------------------------------------------- tags / shrink
    def tags(self, case, result):
        op = case["op"]
        t = [op]
        if op == "replica.manager":
            return t + [f"manager.nodeId={case['nodeId']!r}"]
        text = case.get("text", case.get("cmd", case.get("command", "")))
        if isinstance(result, dict) and "error" in result:
            t.append(op + ".error")
        if op == "command.split":
            if isinstance(result, list):
                t.append("split.ntok=%s" % min(len(result), 4))
                if "" in result:
                    t.append("split.emptyToken")
            for ch, nm in (("'", "squote"), ('"', "dquote"), ("\\", "escape"), ("#", "hash"), ("é", "nonascii")):
                if ch in text:
                    t.append("split." + nm)
            if "truth" in case:
                t.append("split.structured")
        elif op == "command.generate":
            t.append(f"generate.flags={int(case['appendJobName'])}{int(case['appendOutputDir'])}")
        else:
            if case.get("mode") == "cancel":
                t.append("record.cancel")
            else:
                rc = case["rc"]
                t.append("rc.zero" if rc == 0 else "rc.signal" if rc < 0 else "rc.1-255" if rc < 256 else "rc.large")
            t.append("manager" if case["manager"] else "nonmanager")
            t.append("hpc.none" if case["hpc"] is None else "hpc.id")
            if case.get("probe"):
                t.append("probe." + case["probe"])
            if op == "command.job":
                t.append(f"job.flags={int(case['appendJobName'])}{int(case['appendOutputDir'])}")
            if not LEGAL_NAME.match(case["name"]) or not BENIGN_PATH.match(case["output"]):
                t.append("outside.quantifier")
        return t

    def shrink(self, case):
        op = case["op"]
        out = []

        def texts(s):
            for i in range(len(s)):
                yield s[:i] + s[i + 1:]
            for i, ch in enumerate(s):
                if ch not in "a ":
                    yield s[:i] + "a" + s[i + 1:]
        if op == "command.split":
            for t in texts(case["text"]):
                c = {k: v for k, v in case.items() if k != "truth"}
                c["text"] = t
                out.append(c)
            return out
        key = "cmd" if op == "command.record" else "command"
        if case.get("probe"):
            return out
        rc = case.get("rc", 0)
        for k, val in (("appendJobName", False), ("appendOutputDir", False), ("pending", 0), ("hpc", "7"), ("batch", 1),
                       ("name", "j"), ("output", S + "/out"), ("rc", 3), ("rc", 1), ("rc", -1), ("rc", 2), ("rc", 130),
                       ("rc", int(rc / 2)), ("manager", True)):
            if k in case and case[k] != val and not (k == "manager" and case.get("hpc") is None):
                c = dict(case)
                c[k] = val
                out.append(c)
        for simple in ("a", "a b"):
            if case[key] != simple:
                c = dict(case)
                c[key] = simple
                out.append(c)
        for t in texts(case[key]):
            if len(out) > 60:
                break
            if op == "command.job" and not t.strip():
                continue
            c = dict(case)
            c[key] = t
            out.append(c)
        return out


SUITE = CommandSuite()
