"""Suite `config` (C17): configuration round trip and up-front validation of the real code vs Model/Config.lean.

Cases are *abstract configurations*: keyword arguments for the public models
(`GenericCommandParameters(**kw)`, `SubmissionGroup/SubmitterParams/HpcConfig`), the four lifecycle
commands, optionally a list of edits applied to the written file before it is loaded again.

    config.roundtrip : build -> config.dump(file) -> [edits] -> create_config_from_file(file)
    config.checks    : build -> JobSubmitter.create(config, out) and/or JobSubmitter.run_submit_jobs(config, out)
                       with `subprocess` faked inside jade.utils.run_command (sbatch calls are counted)
"""
import contextlib
import copy
import json
import os
import re
import signal
from pathlib import Path

from common import Suite, Violation, canon, err_enum, quiet, scratch_dir

P = "C17"
JOB_FIELDS = ["name", "command", "blocked_by", "cancel_on_blocking_job_failure", "estimated_run_minutes",
              "submission_group", "append_job_name", "append_output_dir", "use_multi_node_manager", "ext", "job_id"]
GROUP_PARAMS = ["max_nodes", "num_processes", "per_node_batch_size", "poll_interval", "try_add_blocked_jobs",
                "time_based_batching", "dry_run"]
GROUP_PARAM_FIELD = {"num_processes": "num_parallel_processes_per_node"}
GROUP_DEFAULTS = {"max_nodes": None, "num_processes": None, "per_node_batch_size": 500, "poll_interval": 10,
                  "try_add_blocked_jobs": True, "time_based_batching": False, "dry_run": False}
COMMANDS = ["setup_command", "teardown_command", "node_setup_command", "node_teardown_command"]
WALLS = ["4:00:00", "00:30:00", "1:40:00", "240:00:00", "0:05:00", "01:00:30", "0:00:59", "12:00:00"]
ODD_WALLS = ["30:00", "abc", "", "1-00:00:00", "2-12:30:00", "x1:2:3y", "1:2:x3:4:5", "::", "1:00:00:00"]
UNSET_WALL = 0xFFFFFFFF


# ------------------------------------------------------------------------------------------------
# fake process boundary
# ------------------------------------------------------------------------------------------------
class FakePopen:
    log = []
    n = 0

    def __init__(self, command, stdout=None, stderr=None, cwd=None, **kwargs):
        self.cmd = list(command)
        FakePopen.log.append(self.cmd)
        self.returncode = None

    def communicate(self):
        self.returncode = 0
        if self.cmd and self.cmd[0] == "sbatch":
            FakePopen.n += 1
            return f"Submitted batch job {FakePopen.n}\n".encode(), b""
        return b"", b""


class FakeSubprocess:
    PIPE = -1
    Popen = FakePopen

    @staticmethod
    def call(command, cwd=None, **kwargs):
        p = FakePopen(command)
        p.communicate()
        return 0


class HarnessTimeout(Exception):
    pass


@contextlib.contextmanager
def time_limit(seconds):
    def handler(signum, frame):
        raise HarnessTimeout(f"no result after {seconds}s")
    old = signal.signal(signal.SIGALRM, handler)
    signal.alarm(seconds)
    try:
        yield
    finally:
        signal.alarm(0)
        signal.signal(signal.SIGALRM, old)


WHY = [
    (r"command cannot be emtpy", "emptyCommand"),
    (r"is already stored", "dupName"),
    (r"is listed twice", "groupTwice"),
    (r"hpc_type values must be the same", "hpcType"),
    (r"^(\w+) must be the same in all groups", "mustBeSame:{0}"),
    (r"has an invalid submission group", "jobGroup"),
    (r"does not have a submission group assigned", "jobGroup"),
    (r"requires that each job define estimated_run_minutes", "estimateMissing"),
    (r"job ordering definitions are invalid", "dependencies"),
    (r"longer than wall_time", "runtime"),
]


# A reworded message must not look like a different decision: when no pattern matches, the check is identified by the
# jade function that raised (innermost jade frame of the traceback).  `check_submission_groups` raises for several
# reasons that only the text tells apart: "groups:?" stands for any of them (see ConfigSuite.agree).
WHY_BY_FUNCTION = {
    ("job_configuration.py", "check_job_dependencies"): "dependencies",
    ("job_configuration.py", "check_job_estimated_run_minutes"): "estimateMissing",
    ("job_configuration.py", "check_job_runtimes"): "runtime",
    ("job_configuration.py", "check_submission_groups"): "groups:?",
    ("generic_command_configuration.py", "add_job"): "emptyCommand",
    ("job_container_by_name.py", "add_job"): "dupName",
}
GROUP_WHYS = ("groupTwice", "hpcType", "jobGroup")


def raising_function(exc):
    import jade
    pkg = os.path.dirname(os.path.abspath(jade.__file__)) + os.sep
    tb, last = exc.__traceback__, None
    while tb is not None:
        code = tb.tb_frame.f_code
        if os.path.abspath(code.co_filename).startswith(pkg):
            last = (os.path.basename(code.co_filename), code.co_name)
        tb = tb.tb_next
    return last


def classify(exc):
    if type(exc).__name__ != "InvalidConfiguration":
        return None
    msg = str(exc)
    for rx, name in WHY:
        m = re.search(rx, msg)
        if m:
            return name.format(*m.groups())
    by_fn = WHY_BY_FUNCTION.get(raising_function(exc))
    if by_fn:
        return by_fn
    return "?:" + msg[:60]


def loosen(model, impl):
    """the model's output with every `why` the implementation could only attribute to check_submission_groups as a whole
    ("groups:?": its message was reworded) replaced by that same token"""
    if isinstance(model, dict) and isinstance(impl, dict):
        return {k: loosen(v, impl.get(k)) for k, v in model.items()}
    if impl == "groups:?" and isinstance(model, str) and (model in GROUP_WHYS or model.startswith("mustBeSame:")):
        return impl
    return model


def rej(stage, exc):
    return {"stage": stage, "error": err_enum(exc), "why": classify(exc)}


# ------------------------------------------------------------------------------------------------
# independent reading of the property on an abstract case (used by the oracle only)
# ------------------------------------------------------------------------------------------------
def parse_hms(w):
    m = re.fullmatch(r"(\d+):(\d+):(\d+)", w)
    if not m:
        return None
    return int(m.group(1)) * 3600 + int(m.group(2)) * 60 + int(m.group(3))


def group_wall(g):
    """seconds, UNSET_WALL, or None when the text is not H:M:S (outside the property's quantifier)"""
    if g["hpc_type"] == "local":
        return UNSET_WALL
    w = g.get("walltime")
    if w is None:
        w = "4:00:00"  # documented default of SlurmConfig.walltime
    return parse_hms(w)


def effective_names(jobs):
    names, next_id = [], 1
    for kw in jobs:
        jid = kw.get("job_id")
        if jid is None:
            jid = next_id
            next_id += 1
        names.append(kw["name"] if kw.get("name") is not None else str(jid))
    return names


def spec(case):
    """-> dict(build=[problems found while adding jobs], checks=[problems run_checks must find],
              outside=[reasons the case is outside the property's quantifier])"""
    jobs, groups = case["jobs"], case["groups"]
    build, checks, outside = [], [], []
    names = effective_names(jobs)
    seen = set()
    for kw, n in zip(jobs, names):
        if kw["command"] == "":
            if kw.get("use_multi_node_manager"):
                outside.append("empty command with use_multi_node_manager")
            else:
                build.append("emptyCommand")
        if n in seen:
            build.append("dupName")
        seen.add(n)
    if not groups:
        checks.append("noGroups")
        return dict(build=build, checks=checks, outside=outside)
    gnames = [g["name"] for g in groups]
    if len(set(gnames)) != len(gnames):
        checks.append("groupTwice")
    if len({g["hpc_type"] for g in groups}) > 1:
        checks.append("hpcType")
    if len({g.get("max_nodes") for g in groups}) > 1:
        checks.append("mustBeSame:max_nodes")
    if len({g.get("poll_interval", 10) for g in groups}) > 1:
        checks.append("mustBeSame:poll_interval")
    for kw in jobs:
        if kw.get("submission_group", "default") not in gnames:
            checks.append("jobGroup")
    for g in groups:
        if g.get("per_node_batch_size", 500) == 0:
            for kw in jobs:
                if kw.get("submission_group", "default") == g["name"] and kw.get("estimated_run_minutes") is None:
                    checks.append("estimateMissing")
    for kw in jobs:
        for b in kw.get("blocked_by", []):
            if str(b) not in names:
                checks.append("dependencies")
    for g in groups:
        if group_wall(g) is None:
            outside.append(f"walltime {g.get('walltime')!r} is not H:M:S")
        if g.get("time_based_batching") and g.get("per_node_batch_size", 500) != 0 and any(
                kw.get("submission_group", "default") == g["name"] and kw.get("estimated_run_minutes") is None for kw in jobs):
            outside.append("time-based batching without estimates (run_checks only looks at per_node_batch_size == 0)")
    if not outside and len(set(gnames)) == len(gnames):
        for kw in jobs:
            est = kw.get("estimated_run_minutes")
            gn = kw.get("submission_group", "default")
            if est is not None and gn in gnames:
                wall = group_wall(groups[gnames.index(gn)])
                if est * 60 > wall:
                    checks.append("runtime")
    return dict(build=build, checks=checks, outside=outside)


# ------------------------------------------------------------------------------------------------
def apply_edits(tree, edits):
    tree = copy.deepcopy(tree)
    for e in edits:
        path = e["path"]
        cur = tree
        for p in path[:-1]:
            cur = cur[p]
        last = path[-1]
        if "set" in e:
            if isinstance(cur, list) and last >= len(cur):
                cur.append(copy.deepcopy(e["set"]))
            else:
                cur[last] = copy.deepcopy(e["set"])
        else:
            if isinstance(cur, list):
                if last < len(cur):
                    del cur[last]
            else:
                cur.pop(last, None)
    return tree


def project_group(g):
    sp = g["submitter_params"]
    hc = sp["hpc_config"]
    hpc = {"walltime": hc["hpc"]["walltime"]} if "walltime" in hc["hpc"] else {}
    out = {"hpc_config": {"hpc_type": hc["hpc_type"], "hpc": hpc}}
    for k in GROUP_PARAMS:
        f = GROUP_PARAM_FIELD.get(k, k)
        out[f] = sp[f]
    return {"name": g["name"], "submitter_params": out}


def project_file(tree):
    """The written file on the keys the model carries: everything at top level and in the jobs; the
    submission groups restricted to the modelled parameters; set-valued entries sorted."""
    t = copy.deepcopy(tree)
    t["submission_groups"] = [project_group(g) for g in t["submission_groups"]]
    for j in t.get("jobs", []):
        if isinstance(j.get("blocked_by"), list):
            j["blocked_by"] = sorted(j["blocked_by"])
    return t


def dump_job(job):
    m = job.model
    return {
        "name": job.name, "model_name": m.name, "job_id": m.job_id, "command": m.command,
        "command_prop": job.command, "blocked_by": sorted(job.get_blocking_jobs()),
        "cancel_on_blocking_job_failure": job.cancel_on_blocking_job_failure,
        "estimated_run_minutes": job.estimated_run_minutes, "submission_group": job.submission_group,
        "append_job_name": m.append_job_name, "append_output_dir": m.append_output_dir,
        "use_multi_node_manager": m.use_multi_node_manager, "ext": m.ext,
    }


def dump_group(g):
    sp = g.submitter_params
    return {
        "name": g.name, "hpc_type": sp.hpc_config.hpc_type.value,
        "walltime": getattr(sp.hpc_config.hpc, "walltime", None),
        "max_nodes": sp.max_nodes, "num_processes": sp.num_parallel_processes_per_node,
        "per_node_batch_size": sp.per_node_batch_size, "poll_interval": sp.poll_interval,
        "try_add_blocked_jobs": sp.try_add_blocked_jobs, "time_based_batching": sp.time_based_batching,
        "dry_run": sp.dry_run,
    }


def dump_config(c):
    return {
        "jobs": [dump_job(j) for j in c.iter_jobs()],
        "groups": [dump_group(g) for g in c.submission_groups],
        "setup_command": c.setup_command, "teardown_command": c.teardown_command,
        "node_setup_command": c.node_setup_command, "node_teardown_command": c.node_teardown_command,
    }


def plain(x):
    """serialize() output -> comparable plain data (sets sorted, enums by value)"""
    import enum
    if isinstance(x, dict):
        return {k: plain(v) for k, v in x.items()}
    if isinstance(x, (list, tuple)):
        return [plain(v) for v in x]
    if isinstance(x, (set, frozenset)):
        return sorted(plain(v) for v in x)
    if isinstance(x, enum.Enum):
        return x.value
    return x


# ------------------------------------------------------------------------------------------------
class ConfigSuite(Suite):
    name = "config"

    # ---------------------------------------------------------------- set-up: fakes and probes
    def setup(self):
        import jade.utils.run_command as rc
        import jade.jobs.job_submitter as js
        from jade.jobs.cluster import Cluster
        self._rc, self._js, self._Cluster = rc, js, Cluster
        self._saved = (rc.subprocess, js.JobSubmitter.submit_jobs, js.JobSubmitter._save_repository_info,
                       Cluster.demote_from_submitter)
        rc.subprocess = FakeSubprocess
        events = self._events = []
        real_submit, real_demote = self._saved[1], self._saved[3]

        def submit_jobs(mgr, cluster, force_local=False):
            events.append("submit")
            return real_submit(mgr, cluster, force_local=force_local)

        def demote(cluster, *a, **k):
            events.append("demote")
            return real_demote(cluster, *a, **k)

        js.JobSubmitter.submit_jobs = submit_jobs
        js.JobSubmitter._save_repository_info = lambda self_, registry: None
        Cluster.demote_from_submitter = demote
        os.environ.setdefault("USER", "verif")

    def teardown(self):
        self._rc.subprocess = self._saved[0]
        self._js.JobSubmitter.submit_jobs = self._saved[1]
        self._js.JobSubmitter._save_repository_info = self._saved[2]
        self._Cluster.demote_from_submitter = self._saved[3]

    # ---------------------------------------------------------------- generators
    def cases(self, rng, tier, prop):
        n = {"quick": 1, "thorough": 6}[tier]
        out = []
        for i in range(140 * n):
            cfg = self._gen_valid(rng)
            if i % 3:
                cfg["build"] = ["ctor", "mutate", "setattr"][i % 3]
            out += self._both(cfg, "valid")
        for kind in INVALID:
            for _ in range(14 * n):
                cfg = self._gen_valid(rng, min_jobs=2)
                bad = INVALID[kind](self, rng, cfg)
                if bad is not None:
                    out += self._both(bad, "invalid:" + kind)
        for _ in range(30 * n):  # two invalidities at once: order of the checks
            cfg = self._gen_valid(rng, min_jobs=2)
            kinds = rng.sample(sorted(INVALID), 2)
            for k in kinds:
                try:
                    nxt = INVALID[k](self, rng, cfg)
                except (KeyError, IndexError, ValueError, TypeError):
                    nxt = None  # the first injection removed what the second one needs
                cfg = nxt if nxt is not None else cfg
            out += self._both(cfg, "invalid2:" + "+".join(kinds))
        out += self._degenerate(rng, 12 * n)
        out += self._file_edit_cases(rng, 60 * n)
        return out

    def _both(self, cfg, label):
        all_slurm = bool(cfg["groups"]) and all(g["hpc_type"] == "slurm" for g in cfg["groups"])
        a = dict(cfg, op="config.roundtrip", label=label)
        b = dict(cfg, op="config.checks", label=label, entries=["create", "submit"] if all_slurm else ["create"])
        return [a, b]

    def _gen_valid(self, rng, min_jobs=1):
        ng = rng.choice([1, 1, 2, 2, 3])
        hpc_type = rng.choice(["slurm"] * 6 + ["fake", "local"])
        gnames = rng.sample(["default", "g1", "g2", "big", "short-jobs"], ng)
        if rng.random() < .6 and "default" not in gnames:
            gnames[0] = "default"
        shared = {}
        if rng.random() < .5:
            shared["max_nodes"] = rng.choice([1, 4, 16])
        if rng.random() < .4:
            shared["poll_interval"] = rng.choice([1, 10, 30, 60])
        if rng.random() < .25:
            # same in every group: groups that disagree on dry_run make HpcSubmitter.run() sort str and int batch ids
            shared["dry_run"] = rng.choice([True, False])
        groups = []
        for gn in gnames:
            g = {"name": gn, "hpc_type": hpc_type}
            g.update(shared)
            if hpc_type == "fake" or (hpc_type == "slurm" and rng.random() < .7):
                g["walltime"] = rng.choice(WALLS)
            if rng.random() < .6:
                g["per_node_batch_size"] = rng.choice([0, 0, 1, 5, 500])
            for k, vals in (("time_based_batching", [True, False]), ("try_add_blocked_jobs", [True, False]),
                            ("num_processes", [1, 4, 36])):
                if rng.random() < .25:
                    g[k] = rng.choice(vals)
            if g.get("time_based_batching") and "num_processes" not in g:
                g["num_processes"] = rng.choice([1, 4, 36])  # _BatchJobs multiplies the wall time by it (None: TypeError)
            groups.append(g)
        nj = rng.choice([min_jobs, 1, 2, 3, 3, 4, 5, 6, 8])
        nj = max(nj, min_jobs)
        # names: explicit ones never collide with each other or with a defaulted "<job id>"
        pool = ["a", "b", "job_3", "x.y", "prep", "post", "run-1", "Z", "10", "11", "12", "é1"]
        rng.shuffle(pool)
        jobs = []
        for i in range(nj):
            kw = {"command": rng.choice(["echo 1", "true", "bash run.sh --n 3", "python a.py 'x y'", "sleep 0"])}
            if rng.random() < .5:
                kw["name"] = pool.pop()
            if rng.random() < .03:
                kw["job_id"] = 100 + i  # the public model accepts an explicit id; add_job keeps it
            jobs.append(kw)
        names = effective_names(jobs)
        rank = list(range(nj))
        rng.shuffle(rank)  # blockers only point "down" a random order: acyclic, but before and after in the listing
        for i, kw in enumerate(jobs):
            g = rng.choice(groups)
            if g["name"] != "default" or rng.random() < .4:
                kw["submission_group"] = g["name"]
            wall = group_wall(g)
            # (time-based batching without estimates passes run_checks and fails inside submit_jobs: kept out of
            #  the valid stream, see _degenerate)
            need = g.get("per_node_batch_size", 500) == 0 or g.get("time_based_batching", False)
            if need or rng.random() < .5:
                cap = wall // 60
                kw["estimated_run_minutes"] = rng.choice([0, 1, min(5, cap), cap, cap, max(cap - 1, 0), min(60, cap)])
            others = [n for k, n in enumerate(names) if rank[k] < rank[i]]
            if others and rng.random() < .55:
                bl = []
                for b in rng.sample(others, rng.randint(1, min(3, len(others)))):
                    bl.append(int(b) if b.isdigit() and b.isascii() and rng.random() < .7 else b)
                if rng.random() < .2:
                    bl.append(rng.choice(bl))  # a duplicate
                    if isinstance(bl[-1], int) and rng.random() < .5:
                        bl[-1] = str(bl[-1])   # the same blocker once as int and once as str
                kw["blocked_by"] = bl
            for k in ("cancel_on_blocking_job_failure", "append_job_name", "append_output_dir"):
                if rng.random() < .3:
                    kw[k] = rng.random() < .7
            if rng.random() < .06:
                kw["use_multi_node_manager"] = True
            if rng.random() < .2:
                kw["ext"] = rng.choice([{"k": 1}, {}, {"l": [1, "x", None, True], "d": {"z": -3}}, {"b": "a", "a": "b"}])
        cfg = {"jobs": jobs, "groups": groups}
        for c in COMMANDS:
            cfg[c] = rng.choice([None, None, "echo " + c, "bash hook.sh"])
        return cfg

    def _degenerate(self, rng, count):
        out = []
        for _ in range(count):
            cfg = self._gen_valid(rng)
            r = rng.random()
            if r < .25:
                cfg["groups"] = []
                out += self._both(cfg, "degenerate:noGroups")
            elif r < .45:
                cfg["jobs"] = []
                out += self._both(cfg, "degenerate:noJobs")
            elif r < .9:
                g = rng.choice(cfg["groups"])
                if g["hpc_type"] == "local":
                    continue
                g["walltime"] = rng.choice(ODD_WALLS)
                out += self._both(cfg, "degenerate:walltime")
            elif r < .95:
                cfg["jobs"][0]["command"] = ""
                cfg["jobs"][0]["use_multi_node_manager"] = True
                out += self._both(cfg, "degenerate:emptyMultiNode")
            else:
                kw = cfg["jobs"][0]
                g = [g for g in cfg["groups"] if g["name"] == kw.get("submission_group", "default")][0]
                g["time_based_batching"] = True
                if g.get("per_node_batch_size") == 0:
                    g["per_node_batch_size"] = 5
                kw.pop("estimated_run_minutes", None)
                both = self._both(cfg, "degenerate:timeBasedNoEstimate")
                both[1]["entries"] = ["create"]  # submit_jobs raises TypeError after the cluster was created
                out += both
        return out

    def _file_edit_cases(self, rng, count):
        out = []
        for _ in range(count):
            cfg = self._gen_valid(rng, min_jobs=2)
            nj = len(cfg["jobs"])
            i, k = rng.sample(range(nj), 2)
            names = effective_names(cfg["jobs"])
            kind = rng.choice(["dupName", "emptyCommand", "dropJobId", "dropJobIdAll", "dropExtension", "badExtension",
                               "dropFormat", "badClass", "dropModule", "blockers", "dropOptional", "dropJobs", "nullGroups",
                               "dupEntry", "swap", "setName", "unknownKey", "dropCommand", "noEdit"])
            ed = []
            if kind == "dupName":
                ed = [{"path": ["jobs", i, "name"], "set": names[k]}]
            elif kind == "emptyCommand":
                ed = [{"path": ["jobs", i, "command"], "set": ""}]
            elif kind == "dropJobId":
                ed = [{"path": ["jobs", i, "job_id"]}]
            elif kind == "dropJobIdAll":
                ed = [{"path": ["jobs", x, "job_id"]} for x in range(nj)]
            elif kind == "dropExtension":
                ed = [{"path": ["jobs", i, "extension"]}]
            elif kind == "badExtension":
                ed = [{"path": ["jobs", i, "extension"], "set": "no_such_extension"}]
            elif kind == "dropFormat":
                ed = [{"path": ["format_version"]}]
            elif kind == "badClass":
                ed = [{"path": ["configuration_class"], "set": "NoSuchConfiguration"}]
            elif kind == "dropModule":
                ed = [{"path": ["configuration_module"]}]
            elif kind == "blockers":
                pick = rng.sample(names, rng.randint(1, nj))
                bl = [int(b) if b.isdigit() and b.isascii() and rng.random() < .5 else b for b in pick]
                bl += [rng.choice(bl)]
                rng.shuffle(bl)
                ed = [{"path": ["jobs", i, "blocked_by"], "set": bl}]
            elif kind == "dropOptional":
                key = rng.choice(["name", "blocked_by", "cancel_on_blocking_job_failure", "estimated_run_minutes",
                                  "submission_group"])
                ed = [{"path": ["jobs", i, key]}]
            elif kind == "dropJobs":
                ed = [{"path": ["jobs"]}]
            elif kind == "nullGroups":
                ed = [{"path": ["submission_groups"], "set": None}]
            elif kind == "dupEntry":
                ed = [{"path": ["jobs", nj], "set": {"command": "true", "extension": "generic_command", "job_id": i + 1,
                                                      "name": None if rng.random() < .5 else "fresh"}}]
            elif kind == "swap":
                ed = [{"path": ["jobs", nj], "set": {"command": "echo new", "extension": "generic_command"}}]
            elif kind == "setName":
                ed = [{"path": ["jobs", i, "name"], "set": rng.choice(["renamed", None, str(k + 1)])}]
            elif kind == "unknownKey":
                ed = [{"path": ["jobs", i, "no_such_field"], "set": 1}]
            elif kind == "dropCommand":
                ed = [{"path": ["jobs", i, "command"]}]
            out.append(dict(cfg, op="config.roundtrip", label="file:" + kind, edits=ed))
        return out

    # ---- single injected invalidities (return a new abstract configuration or None if not applicable)
    def _inv_missing_blocker(self, rng, cfg):
        cfg = copy.deepcopy(cfg)
        kw = rng.choice(cfg["jobs"])
        cands = ["nope", 99, "0", len(cfg["jobs"]) + 1]
        # the generated id of a job that has an explicit name is NOT a job name: a blocker spelled like such an id
        # (as int or str) names no job although "a job with that number" exists
        names = set(effective_names(cfg["jobs"]))
        next_id = 1
        for j in cfg["jobs"]:
            jid = j.get("job_id")
            if jid is None:
                jid = next_id
                next_id += 1
            if j.get("name") is not None and str(jid) not in names:
                cands += [jid, str(jid)]
        kw["blocked_by"] = list(kw.get("blocked_by", [])) + [rng.choice(cands)]
        return cfg

    def _inv_dup_name(self, rng, cfg):
        cfg = copy.deepcopy(cfg)
        names = effective_names(cfg["jobs"])
        i, k = rng.sample(range(len(names)), 2)
        if "job_id" in cfg["jobs"][i]:
            return None
        cfg["jobs"][i]["name"] = names[k]
        return cfg

    def _inv_empty_command(self, rng, cfg):
        cfg = copy.deepcopy(cfg)
        kw = rng.choice(cfg["jobs"])
        kw["command"] = ""
        kw.pop("use_multi_node_manager", None)
        return cfg

    def _inv_bad_group(self, rng, cfg):
        cfg = copy.deepcopy(cfg)
        kw = rng.choice(cfg["jobs"])
        gnames = [g["name"] for g in cfg["groups"]]
        if "default" not in gnames and rng.random() < .5:
            kw.pop("submission_group", None)
        else:
            kw["submission_group"] = "undefined-group"
        return cfg

    def _inv_dup_group(self, rng, cfg):
        cfg = copy.deepcopy(cfg)
        g = copy.deepcopy(rng.choice(cfg["groups"]))
        cfg["groups"].insert(rng.randint(0, len(cfg["groups"])), g)
        return cfg

    def _inv_hpc_type(self, rng, cfg):
        cfg = copy.deepcopy(cfg)
        if len(cfg["groups"]) < 2:
            g = copy.deepcopy(cfg["groups"][0])
            g["name"] = "extra"
            cfg["groups"].append(g)
        g = rng.choice(cfg["groups"])
        old = g["hpc_type"]
        g["hpc_type"] = rng.choice([t for t in ("slurm", "fake", "local") if t != old])
        if g["hpc_type"] == "fake" and "walltime" not in g:
            g["walltime"] = "240:00:00"
        if g["hpc_type"] == "local":
            g.pop("walltime", None)
        # keep every estimate within the (possibly changed) wall time
        for kw in cfg["jobs"]:
            if kw.get("submission_group", "default") == g["name"] and kw.get("estimated_run_minutes") is not None:
                kw["estimated_run_minutes"] = 0
        return cfg

    def _inv_param(self, rng, cfg, param, vals):
        cfg = copy.deepcopy(cfg)
        if len(cfg["groups"]) < 2:
            g = copy.deepcopy(cfg["groups"][0])
            g["name"] = "extra"
            cfg["groups"].append(g)
        g = rng.choice(cfg["groups"])
        cur = g.get(param, GROUP_DEFAULTS[param])
        new = rng.choice([v for v in vals if v != cur])
        if new is None:
            g.pop(param, None)
        else:
            g[param] = new
        return cfg

    def _inv_max_nodes(self, rng, cfg):
        return self._inv_param(rng, cfg, "max_nodes", [None, 1, 2, 4, 16])

    def _inv_poll_interval(self, rng, cfg):
        return self._inv_param(rng, cfg, "poll_interval", [1, 10, 11, 30, 60])

    def _inv_estimate_too_long(self, rng, cfg):
        cfg = copy.deepcopy(cfg)
        gmap = {g["name"]: g for g in cfg["groups"]}
        cands = [kw for kw in cfg["jobs"] if gmap[kw.get("submission_group", "default")]["hpc_type"] != "local"]
        if not cands:
            return None
        kw = rng.choice(cands)
        wall = group_wall(gmap[kw.get("submission_group", "default")])
        kw["estimated_run_minutes"] = wall // 60 + rng.choice([1, 1, 2, 1000])
        return cfg

    def _inv_estimate_missing(self, rng, cfg):
        cfg = copy.deepcopy(cfg)
        kw = rng.choice(cfg["jobs"])
        gmap = {g["name"]: g for g in cfg["groups"]}
        gmap[kw.get("submission_group", "default")]["per_node_batch_size"] = 0
        for other in cfg["jobs"]:
            if other is not kw and other.get("submission_group", "default") == kw.get("submission_group", "default") \
                    and other.get("estimated_run_minutes") is None:
                other["estimated_run_minutes"] = 0
        kw.pop("estimated_run_minutes", None)
        return cfg

    # ---------------------------------------------------------------- implementation
    def _build(self, case):
        from jade.extensions.generic_command import GenericCommandConfiguration, GenericCommandParameters
        from jade.models import HpcConfig, SubmissionGroup, SubmitterParams
        try:
            style = case.get("build", "ctor")
            jobs = []
            for kw in case["jobs"]:
                late = {}
                if style != "ctor":
                    # the in-place idiom jade's own tests and user scripts use: create the job, then set attributes /
                    # mutate its blocked_by set (only for well-typed values, so that the outcome is the constructor's)
                    kw = dict(kw)
                    if isinstance(kw.get("blocked_by"), list) and all(isinstance(b, str) for b in kw["blocked_by"]):
                        late["blocked_by"] = kw.pop("blocked_by")
                    if style == "setattr":
                        for k in ("cancel_on_blocking_job_failure", "estimated_run_minutes", "submission_group"):
                            if k in kw and isinstance(kw[k], (bool, int, float, str)):
                                late[k] = kw.pop(k)
                j = GenericCommandParameters(**kw)
                for b in late.pop("blocked_by", []):
                    j.blocked_by.add(b)
                for k, v in late.items():
                    setattr(j, k, v)
                jobs.append(j)
            groups = []
            for g in case["groups"]:
                if g["hpc_type"] == "slurm":
                    hpc = {"account": "acct"}
                else:
                    hpc = {}
                if "walltime" in g:
                    hpc["walltime"] = g["walltime"]
                kw = {k: g[k] for k in GROUP_PARAMS if k in g}
                params = SubmitterParams(hpc_config=HpcConfig(hpc_type=g["hpc_type"], hpc=hpc), generate_reports=False,
                                         resource_monitor_type="none", **kw)
                groups.append(SubmissionGroup(name=g["name"], submitter_params=params))
        except Exception as e:  # pydantic refused the keyword arguments
            return None, rej("params", e)
        cmds = {c: case.get(c) for c in COMMANDS}
        if len(case["jobs"]) % 2 == 0:
            config = GenericCommandConfiguration(**{k: v for k, v in cmds.items() if v is not None})
        else:
            config = GenericCommandConfiguration()
            for k, v in cmds.items():
                if v is not None:
                    setattr(config, k, v)
        try:
            for j in jobs:
                config.add_job(j)
        except Exception as e:
            return None, rej("add_job", e)
        for g in groups:
            config.append_submission_group(g)
        return config, None

    def impl(self, case):
        with quiet():
            if case["op"] == "config.roundtrip":
                return self._impl_roundtrip(case)
            return self._impl_checks(case)

    def _impl_roundtrip(self, case):
        from jade.jobs.job_configuration_factory import create_config_from_file
        config, err = self._build(case)
        if err:
            return err
        with scratch_dir() as d:
            f = d / "config.json"
            try:
                config.dump(str(f))
            except Exception as e:
                return rej("dump", e)
            tree = json.loads(f.read_text())
            original = dump_config(config)
            ser0 = plain(config.serialize())
            file = project_file(tree)
            edits = case.get("edits") or []
            if edits:
                f.write_text(json.dumps(apply_edits(tree, edits)))
            else:
                self._prior_load_of_other_content(f, tree, create_config_from_file)
            try:
                c2 = create_config_from_file(str(f))
            except Exception as e:
                r = rej("load", e)
                r["file"] = file
                return r
            return {"stage": "ok", "file": file, "original": original, "reloaded": dump_config(c2),
                    "lossless": plain(c2.serialize()) == ser0}

    def _prior_load_of_other_content(self, f, tree, load):
        """The path held ANOTHER configuration a moment ago and this process loaded it: same byte size, same
        modification time (a coarse-granularity filesystem: NFS/Lustre with 1 s stamps).  Loading the file now must
        return what the file says now, whatever an earlier load of that path returned."""
        text = f.read_text()
        st = os.stat(f)
        try:
            cmd = tree["jobs"][0]["command"]
        except (KeyError, IndexError, TypeError):
            return
        if not isinstance(cmd, str) or not cmd or not (cmd[-1].isascii() and cmd[-1].isalnum()):
            return
        needle = '"command": ' + json.dumps(cmd)
        i = text.find(needle)
        if i < 0:
            return
        k = i + len(needle) - 2          # the last character of the command inside the file
        otext = text[:k] + ("X" if text[k] != "X" else "Y") + text[k + 1:]
        assert len(otext.encode()) == len(text.encode()) and otext != text
        try:
            f.write_text(otext)
            os.utime(f, ns=(st.st_atime_ns, st.st_mtime_ns))
            try:
                load(str(f))
            except Exception:
                pass
        finally:
            f.write_text(text)
            os.utime(f, ns=(st.st_atime_ns, st.st_mtime_ns))
        self.prior_loads = getattr(self, "prior_loads", 0) + 1

    def _impl_checks(self, case):
        from jade.jobs.job_submitter import JobSubmitter
        out = {"stage": "ok"}
        for entry in case["entries"]:
            config, err = self._build(case)  # a fresh configuration per entry: run_checks may mutate it
            if err:
                return err
            with scratch_dir() as d:
                o = d / "out"
                FakePopen.log = []
                del self._events[:]
                result, why = "ok", None
                try:
                    with time_limit(10):  # a configuration that should have been refused can make the submitter spin
                        if entry == "create":
                            JobSubmitter.create(config, str(o))
                        else:
                            JobSubmitter.run_submit_jobs(config, str(o))
                except Exception as e:
                    result, why = err_enum(e), classify(e)
                eff = []
                if entry == "submit" and o.is_dir():
                    eff.append("mkdirs")
                if (o / "results").is_dir():
                    eff.append("initDirs")
                if (o / "config.json").exists():
                    eff.append("dump")
                if (o / "cluster_config.json").exists() or (o / "job_status.json").exists():
                    eff.append("cluster")
                eff += [e for e in ("submit", "demote") if e in self._events]
                if result != "ok" and any(c and c[0] == "sbatch" for c in FakePopen.log):
                    eff.append("sbatch-after-error")
                out[entry] = {"result": result, "why": why, "effects": eff}
        return out

    def agree(self, model, result):
        return canon(loosen(model, result)) == canon(self.view(result))

    # ---------------------------------------------------------------- direct oracle
    def oracle(self, case, result):
        v = []
        if not isinstance(result, dict) or "harness_exception" in result:
            return v
        s = spec(case)
        stage = result.get("stage")
        if stage == "params":
            return v  # pydantic refused the keyword arguments: outside the model and the property
        # ---- jobs are added one by one: duplicates / empty commands are refused there
        if s["build"] and not s["outside"]:
            if stage != "add_job":
                v.append(Violation(P, "invalid.accepted:" + s["build"][0],
                                   f"configuration with {s['build']} was built without an error (stage={stage})"))
            elif result.get("error") != "invalidConfig":
                v.append(Violation(P, "invalid.wrong_error:" + s["build"][0],
                                   f"{s['build']} rejected with {result.get('error')} instead of InvalidConfiguration"))
            return v
        if stage == "add_job" and not s["outside"]:
            v.append(Violation(P, "valid.rejected:add_job", f"no duplicate name / empty command, but add_job raised {result.get('error')} ({result.get('why')})"))
            return v
        if stage == "add_job":
            return v
        if case["op"] == "config.roundtrip":
            v += self._oracle_roundtrip(case, result, s)
        else:
            v += self._oracle_checks(case, result, s)
        return v

    def _expected_jobs(self, case):
        out, next_id = [], 1
        for kw in case["jobs"]:
            jid = kw.get("job_id")
            if jid is None:
                jid = next_id
                next_id += 1
            out.append({
                "name": kw["name"] if kw.get("name") is not None else str(jid),
                "model_name": kw.get("name"), "job_id": jid, "command": kw["command"],
                "blocked_by": sorted({str(b) for b in kw.get("blocked_by", [])}),
                "cancel_on_blocking_job_failure": kw.get("cancel_on_blocking_job_failure", False),
                "estimated_run_minutes": kw.get("estimated_run_minutes"),
                "submission_group": kw.get("submission_group", "default"),
                "append_job_name": kw.get("append_job_name", False),
                "use_multi_node_manager": kw.get("use_multi_node_manager", False),
                "ext": kw.get("ext", {}),
            })
            if not kw.get("use_multi_node_manager"):  # (the multi-node manager forces the flag when it is given)
                out[-1]["append_output_dir"] = kw.get("append_output_dir", False)
        return out

    def _expected_groups(self, case):
        out = []
        for g in case["groups"]:
            e = {"name": g["name"], "hpc_type": g["hpc_type"]}
            e["walltime"] = None if g["hpc_type"] == "local" else g.get("walltime", "4:00:00")
            for k in GROUP_PARAMS:
                e[k] = g.get(k, GROUP_DEFAULTS[k])
            out.append(e)
        return out

    def _oracle_roundtrip(self, case, result, s):
        v = []
        edits = case.get("edits") or []
        stage = result.get("stage")
        if not edits:
            if stage != "ok":
                v.append(Violation(P, "roundtrip.failed:" + str(stage),
                                   f"writing and reloading the configuration failed at {stage}: {result.get('error')} {result.get('why')}"))
                return v
            if not result["lossless"]:
                v.append(Violation(P, "roundtrip.lossy", "serialize() of the reloaded configuration differs from the original's"))
            exp_jobs = self._expected_jobs(case)
            for side in ("original", "reloaded"):
                got = result[side]["jobs"]
                if [j["name"] for j in got] != [j["name"] for j in exp_jobs]:
                    v.append(Violation(P, f"roundtrip.{side}.order_or_names",
                                       f"{side} job names {[j['name'] for j in got]} != expected {[j['name'] for j in exp_jobs]}"))
                    continue
                for g, e in zip(got, exp_jobs):
                    for k, ev in e.items():
                        if g[k] != ev:
                            v.append(Violation(P, f"roundtrip.{side}.field:{k}", f"job {e['name']}: {k} is {g[k]!r}, configured {ev!r}"))
                if result[side]["groups"] != self._expected_groups(case):
                    v.append(Violation(P, f"roundtrip.{side}.groups", f"{side} groups {result[side]['groups']} != configured {self._expected_groups(case)}"))
                for c in COMMANDS:
                    if result[side][c] != case.get(c):
                        v.append(Violation(P, f"roundtrip.{side}.command:{c}", f"{c} is {result[side][c]!r}, configured {case.get(c)!r}"))
            if result["reloaded"] != result["original"]:
                v.append(Violation(P, "roundtrip.differs", "reloaded configuration differs from the original (abstract dump)"))
            if len(result["file"].get("jobs", [])) != len(case["jobs"]):
                v.append(Violation(P, "roundtrip.file.jobs", "the file does not list every job"))
            return v
        # ---- edited files: a file with duplicate names / an empty command must be refused when loaded
        if "file" not in result:
            return v
        try:
            tree = apply_edits(result["file"], edits)
        except Exception:
            return v
        jobs = tree.get("jobs")
        if not isinstance(jobs, list) or not all(isinstance(j, dict) and isinstance(j.get("command"), str) for j in jobs):
            return v
        if any(set(j) - set(JOB_FIELDS) - {"extension", "spark_config"} or j.get("extension") != "generic_command" for j in jobs):
            return v
        if any(k not in tree or tree[k] is None for k in ("format_version", "configuration_module", "configuration_class")) \
                or tree["configuration_class"] != "GenericCommandConfiguration":
            return v
        names = effective_names(jobs)
        dup = len(set(names)) != len(names)
        empty = any(j["command"] == "" and not j.get("use_multi_node_manager") for j in jobs)
        if (dup or empty) and not (stage == "load" and result.get("error") == "invalidConfig"):
            v.append(Violation(P, "load.invalid.accepted:" + ("dupName" if dup else "emptyCommand"),
                               f"a file with {'duplicate job names' if dup else 'an empty command'} was loaded: stage={stage} error={result.get('error')}"))
        if not dup and not empty and stage != "ok":
            v.append(Violation(P, "load.valid.rejected", f"a well-formed file was refused: {result.get('error')} {result.get('why')}"))
        if not dup and not empty and stage == "ok":
            got = [j["name"] for j in result["reloaded"]["jobs"]]
            if got != names:
                v.append(Violation(P, "load.names", f"loaded job names {got} != names in the file {names}"))
        return v

    def _oracle_checks(self, case, result, s):
        v = []
        for entry in case["entries"]:
            r = result.get(entry)
            if r is None:
                continue
            eff = set(r["effects"])
            handed = eff & {"dump", "cluster", "submit", "sbatch-after-error"}
            rejected = r["result"] != "ok"
            # whatever the reason of an error raised by the checks: nothing may have been written or submitted
            if rejected and r["result"] in ("invalidConfig", "assertion") and handed:
                v.append(Violation(P, f"rejected.late:{entry}", f"{entry} raised {r['result']} ({r['why']}) after {sorted(handed)}"))
            if s["outside"]:
                continue
            if s["checks"] == ["noGroups"]:
                if not rejected or handed:
                    v.append(Violation(P, f"invalid.accepted:noGroups:{entry}", f"a configuration without submission groups: result={r['result']} effects={sorted(eff)}"))
                continue
            if s["checks"]:
                cls = s["checks"][0]
                if not rejected:
                    v.append(Violation(P, f"invalid.accepted:{cls}", f"{entry}: configuration with {sorted(set(s['checks']))} was accepted; effects={r['effects']}"))
                elif r["result"] != "invalidConfig":
                    v.append(Violation(P, f"invalid.wrong_error:{cls}", f"{entry}: {sorted(set(s['checks']))} rejected with {r['result']} instead of InvalidConfiguration"))
                elif handed:
                    v.append(Violation(P, f"invalid.late:{cls}", f"{entry}: rejected only after {sorted(handed)}"))
            else:
                ok_zero_jobs = entry == "submit" and not case["jobs"] and r["result"] == "other:StopIteration"
                if rejected and not ok_zero_jobs:
                    v.append(Violation(P, f"valid.rejected:{r['why'] or r['result']}", f"{entry}: a valid configuration was rejected: {r['result']} ({r['why']})"))
                elif not rejected and "dump" not in eff:
                    v.append(Violation(P, "valid.not_written", f"{entry}: accepted but config.json was not written"))
        return v

    # ---------------------------------------------------------------- evidence tags, shrinking
    def tags(self, case, result):
        op = case["op"]
        t = [op, "label." + case.get("label", "?").split(":")[0]]
        if not isinstance(result, dict):
            return t
        st = result.get("stage")
        if st != "ok":
            t.append(f"{op}.stage.{st}.{result.get('why') or result.get('error')}")
        jobs = case["jobs"]
        if any(kw.get("name") is None for kw in jobs):
            t.append("name.defaulted")
        if any(isinstance(b, int) for kw in jobs for b in kw.get("blocked_by", [])):
            t.append("blocker.int")
        if any(isinstance(b, str) for kw in jobs for b in kw.get("blocked_by", [])):
            t.append("blocker.str")
        if any(kw.get("ext") for kw in jobs):
            t.append("ext")
        t.append(f"groups={len(case['groups'])}")
        if any(case.get(c) for c in COMMANDS):
            t.append("lifecycle.set")
        if op == "config.checks" and st == "ok":
            for e in case["entries"]:
                r = result[e]
                t.append(f"checks.{e}." + ("accept" if r["result"] == "ok" else f"reject.{r['why'] or r['result']}"))
        if op == "config.roundtrip" and st == "ok":
            t.append("roundtrip.lossless" if result["lossless"] else "roundtrip.changed")
        if case.get("edits"):
            t.append("file." + case.get("label", "?").split(":")[-1])
        return t

    def shrink(self, case):
        out = []
        jobs, groups = case["jobs"], case["groups"]
        if not case.get("edits"):
            for i in range(len(jobs)):
                out.append(dict(case, jobs=jobs[:i] + jobs[i + 1:]))
        for i in range(len(groups)):
            if len(groups) > 1:
                out.append(dict(case, groups=groups[:i] + groups[i + 1:]))
        for i, kw in enumerate(jobs):
            for k in list(kw):
                if k != "command":
                    kw2 = {a: b for a, b in kw.items() if a != k}
                    out.append(dict(case, jobs=jobs[:i] + [kw2] + jobs[i + 1:]))
            for b in range(len(kw.get("blocked_by", []))):
                kw2 = dict(kw, blocked_by=kw["blocked_by"][:b] + kw["blocked_by"][b + 1:])
                out.append(dict(case, jobs=jobs[:i] + [kw2] + jobs[i + 1:]))
        for i, g in enumerate(groups):
            for k in list(g):
                if k not in ("name", "hpc_type") and not (k == "walltime" and g["hpc_type"] == "fake"):
                    g2 = {a: b for a, b in g.items() if a != k}
                    out.append(dict(case, groups=groups[:i] + [g2] + groups[i + 1:]))
        for c in COMMANDS:
            if case.get(c) is not None:
                out.append(dict(case, **{c: None}))
        if case.get("edits"):
            for i in range(len(case["edits"])):
                out.append(dict(case, edits=case["edits"][:i] + case["edits"][i + 1:]))
        if case["op"] == "config.checks" and len(case["entries"]) > 1:
            for e in case["entries"]:
                out.append(dict(case, entries=[e]))
        return out


INVALID = {
    "missing_blocker": ConfigSuite._inv_missing_blocker,
    "dup_name": ConfigSuite._inv_dup_name,
    "empty_command": ConfigSuite._inv_empty_command,
    "bad_group": ConfigSuite._inv_bad_group,
    "dup_group": ConfigSuite._inv_dup_group,
    "hpc_type": ConfigSuite._inv_hpc_type,
    "max_nodes": ConfigSuite._inv_max_nodes,
    "poll_interval": ConfigSuite._inv_poll_interval,
    "estimate_too_long": ConfigSuite._inv_estimate_too_long,
    "estimate_missing": ConfigSuite._inv_estimate_missing,
}

SUITE = ConfigSuite()
