"""Suite `events` (C20): the real `log_event` / `StructuredLogEvent` / `EventsSummary` vs Model/Reports.lean.

A case is a set of per-process event log files (1-5 files named `*events.log`, plus an occasional decoy that
the glob must not pick up), each a list of structured events.  The events are written by the real
`log_event` through the real event logger; `EventsSummary(output)` is then constructed three times (first:
consolidates and saves; second: `preload=True`; third: lazy) and read back through `to_json`/`list_events`.

A second case kind, `events.aggregate`, is a HISTORY over one output directory (see `AggGen`): `run-jobs`
processes (real `JobRunner` objects) start on nodes, log events of their own, job processes append to
`job-outputs/<job>/events.log` the way `jade/cli/run.py` does, the runners call the REAL
`JobRunner._aggregate_events`, batches are killed before they aggregate, requeued under the same batch id,
jobs run again in later batches after a resubmission (which empties `events/`), submitter processes append to
`submit_jobs_events.log`, and `EventsSummary` is constructed in the middle and at the end.  Compared with
Model/ReportsAgg.lean; the direct oracle states "every event any process wrote is in the summary exactly once".
"""
import collections
import datetime as _dt
import fnmatch
import json
import logging
import os

from common import Suite, Violation, canon, err_enum, quiet, scratch_dir

RESOURCE = ["cpu_stats", "disk_stats", "mem_stats", "net_stats", "process_stats"]
NAMES = ["hpc_submit", "hpc_job_assigned", "hpc_job_state_change", "bytes_consumed", "unhandled_error",
         "log_error", "submit_started", "submit_completed", "config_exec_summary", "my-ext.event_1"]
FILES = ["submit_jobs_events.log", "run_jobs_batch_1_0_events.log", "run_jobs_batch_2_0_events.log",
         "run_jobs_batch_2_1_events.log", "stats_events.log", "events.log", "xevents.log", "resubmit_events.log"]
DECOYS = ["submit_jobs_events.log.bak", "events.txt", "run_jobs_batch_1_0.log", "events.log.1"]
CLOCK = ["2026-09-26 12:00:00", "2026-09-26 12:00:00.000001", "2026-09-26 12:00:00.500000", "2026-09-26 12:00:01",
         "2026-09-26 12:00:01.250000", "2026-09-26 09:59:59.999999", "2026-09-27 00:00:00", "2025-12-31 23:59:59.999999",
         "2026-09-26 12:00:10", "2026-09-26 12:00:09"]
ODD_TS = ["", "9", "10", "A", "a", "2026", "2026-09-26 12:00:00 ", "é", "Z9", "~"]


class FakeDatetime:
    """`jade.events.datetime` replacement: `now()` returns scripted real datetime objects."""
    script = []

    @classmethod
    def now(cls):
        return cls.script.pop(0)


def gen_value(rng, depth=0):
    r = rng.random()
    if depth >= 2 or r < .45:
        return rng.choice([0, 1, -7, 2 ** 40, 12345678901234567890, True, False, None, "", "x", "a b", "é中", "q\"uo\\te",
                           "line\nbreak", 0.5, 2.25, -1024.5, "2026-09-26 12:00:00"])
    if r < .7:
        return [gen_value(rng, depth + 1) for _ in range(rng.randint(0, 3))]
    return {rng.choice(["a", "b", "job", "n", "k e y", "ü"]): gen_value(rng, depth + 1) for _ in range(rng.randint(0, 3))}


def gen_event(rng, names, ts_pool, uid):
    name = rng.choice(names)
    ts = rng.choice(ts_pool)
    ev = {"name": name, "timestamp": ts, "source": rng.choice(["submitter", "job_17", "batch_1", "", "node-3"]),
          "category": rng.choice(["HPC", "Error", "ResourceUtilization", "Cat"]),
          "message": rng.choice(["m", "", "job submitted", "x y z", "é"]), "cls": "StructuredLogEvent"}
    if name in RESOURCE:
        # shape the Parquet path needs: flat numeric data (process_stats: a list of per-process dicts)
        if name == "process_stats":
            ev["data"] = {"processes": [{"name": f"j{k}", "rss": 1024 * (k + uid), "cpu_percent": 12.5} for k in range(rng.randint(1, 3))]}
        else:
            ev["data"] = {"cpu_percent": 12.5 * (uid % 8) + 0.25, "count": uid}
        ev["clock"] = ts in CLOCK
        return ev
    data = {"uid": uid}  # makes every generated event distinguishable
    for _ in range(rng.randint(0, 3)):
        data[rng.choice(["job_name", "batch", "state", "nested", "list", "bytes_consumed", "num_jobs"])] = gen_value(rng)
    if rng.random() < .15:
        del data["uid"]  # genuinely identical events must be kept as often as they were written
        data = {k: v for k, v in data.items() if rng.random() < .5}
    if rng.random() < .12:
        ev["cls"] = "StructuredErrorLogEvent"
        data.update({"exception": "<class 'ValueError'>", "error": "boom", "filename": "f.py", "lineno": uid})
    ev["data"] = data
    # `clock`: the timestamp is taken by the event itself (`str(datetime.now())`) from a scripted clock
    ev["clock"] = ts in CLOCK and rng.random() < .7
    return ev


def payload_of(ev):
    return {"source": ev["source"], "category": ev["category"], "message": ev["message"],
            "event_class": ev["cls"], "data": ev["data"]}


def model_event(ev):
    return {"name": ev["name"], "timestamp": ev["timestamp"], "payload": payload_of(ev)}


# ----------------------------------------------------------------------------------------------------------
# histories for `events.aggregate`
# ----------------------------------------------------------------------------------------------------------
AGG = "events.aggregate"
BASE_TS = _dt.datetime(2026, 9, 26, 12, 0, 0)
OTHER_FILES = ["stats_events.log", "events.log", "xevents.log", "collect_events.log"]
WRITERS = ("submitter", "runnerStart", "runnerLog", "jobRun", "other")


def ts_of(tick):
    """timestamp string of a tick of the case's clock, in the format `str(datetime.now())` gives"""
    return str(BASE_TS + _dt.timedelta(microseconds=250000 * tick))


class AggGen:
    """Seeded generator of one history.  Steps (`s`):
      submitter   {events}                         a jade submit-jobs / try-submit-jobs / resubmit-jobs process
      runnerStart {rid, batch, node, jobs, events} `jade-internal run-jobs` of batch `batch` starts on node `node`
      runnerLog   {rid, events}                    that process logs events of its own
      jobRun      {rid, job, file, events}         a job process of that batch runs (file=false: never opens events.log)
      aggregate   {rid}                            the runner calls `_aggregate_events`
      kill        {rid}                            the node dies / the batch is cancelled before the aggregation
      other       {file, events}                   another process appends to its own top-level file
      consolidate {preload}                        `EventsSummary(output, preload=…)`
      resubmit                                     `jade resubmit-jobs` empties events/
      clear                                        events/ emptied by hand (consolidate from scratch again)
    """

    def __init__(self, rng, i):
        self.rng, self.i = rng, i
        self.tick, self.uid, self.prev = 0, 0, []
        self.names = rng.sample(NAMES, rng.randint(1, 4))
        self.odd = rng.random() < .1

    def events(self, lo, hi, resource=False):
        rng = self.rng
        out = []
        t = self.tick
        for _ in range(rng.randint(lo, hi)):
            self.uid += 1
            if self.prev and rng.random() < .07:
                out.append(json.loads(json.dumps(rng.choice(self.prev))))  # a genuinely identical event
                continue
            t = max(0, t + rng.choice([0, 0, 1, 1, 1, 2, -1]))  # mostly increasing within a process
            names = self.names + ([rng.choice(RESOURCE)] if resource and rng.random() < .25 else [])
            ts = rng.choice(ODD_TS) if self.odd and rng.random() < .2 else ts_of(t)
            ev = gen_event(rng, names, [ts], 1000 * self.i + self.uid)
            if ev["name"] not in RESOURCE:
                ev["clock"] = ts not in ODD_TS and rng.random() < .5
                self.prev.append(ev)
            out.append(ev)
        return out

    def advance(self):
        self.tick += self.rng.choice([0, 0, 1, 1, 2, 3])

    def history(self):
        rng = self.rng
        njobs = rng.randint(2, 6)
        jobs = [f"j{k}" for k in range(njobs)]
        steps, killed = [], []      # killed: (batch, node, jobs) of batches that died before aggregating
        next_batch, rid = 1, 0
        rounds = rng.choice([1, 2, 2, 2, 3, 3])
        summary = False             # events/ may hold a summary
        for r in range(rounds):
            if r == 0:
                if rng.random() < .8:
                    steps.append({"s": "submitter", "events": self.events(0, 3)})
            else:
                steps.append({"s": "submitter", "events": self.events(0, 2)})
                if (summary and rng.random() < .9) or rng.random() < .25:
                    steps.append({"s": "resubmit"})
                    summary = False
            batches, avail = [], list(jobs)
            for kb in list(killed):
                if rng.random() < .6:   # SLURM requeue: same batch id, same node, same configuration
                    batches.append(kb)
                    killed.remove(kb)
                    avail = [j for j in avail if j not in kb[2]]
            pool = [j for j in avail if r == 0 or rng.random() < .6]
            if rng.random() < .2:
                rng.shuffle(pool)
            groups = [[] for _ in range(rng.choice([1, 1, 2, 2, 3]))]
            for j in pool:
                rng.choice(groups).append(j)
            for g in groups:
                if g:
                    batches.append((next_batch, rng.choice([0, 0, 0, 0, 1, 2]), g))
                    next_batch += 1
            seqs = []
            t0 = t1 = self.tick
            for b, node, js in batches:
                self.tick = t0 + rng.choice([0, 0, 1, 2])   # the batches of a round overlap in time
                seq = [{"s": "runnerStart", "rid": rid, "batch": b, "node": node, "jobs": list(js),
                        "events": self.events(0, 2, resource=True)}]
                dies = rng.random() < .25
                run_js = [j for j in js if rng.random() < .85]
                rng.shuffle(run_js)
                if dies:
                    run_js = run_js[:rng.randint(0, len(run_js))]
                for j in run_js:
                    self.advance()
                    m = rng.random()
                    if m < .12:
                        seq.append({"s": "jobRun", "rid": rid, "job": j, "file": False, "events": []})
                    else:
                        seq.append({"s": "jobRun", "rid": rid, "job": j, "file": True,
                                    "events": [] if m < .22 else self.events(1, 4)})
                    if rng.random() < .2:
                        seq.append({"s": "runnerLog", "rid": rid, "events": self.events(1, 2, resource=True)})
                seq.append({"s": "kill" if dies else "aggregate", "rid": rid})
                if dies:
                    killed.append((b, node, list(js)))
                seqs.append(seq)
                rid += 1
                t1 = max(t1, self.tick)
            self.tick = t1 + 1
            while any(seqs):   # the batches of a round run concurrently
                seq = rng.choice([q for q in seqs if q])
                steps.append(seq.pop(0))
                if rng.random() < .04:
                    f = rng.choice(OTHER_FILES + DECOYS[:2])
                    steps.append({"s": "other", "file": f, "events": self.events(1, 2)})
            if rng.random() < .5:
                steps.append({"s": "submitter", "events": self.events(0, 2)})
            if r < rounds - 1 and rng.random() < .5:
                steps.append({"s": "consolidate", "preload": rng.random() < .3})
                summary = True
        if summary and rng.random() < .5:
            steps.append({"s": "clear"})
        steps += [{"s": "consolidate", "preload": False}, {"s": "consolidate", "preload": True},
                  {"s": "consolidate", "preload": False}]
        if rng.random() < .3:
            steps += [{"s": "clear"}, {"s": "consolidate", "preload": rng.random() < .5}]
        return {"op": AGG, "steps": steps}


def agg_runners(case):
    """rid -> runnerStart step"""
    return {st["rid"]: st for st in case["steps"] if st["s"] == "runnerStart"}


def agg_line(raw):
    """one line of an event file -> the model's view of the event"""
    try:
        d = json.loads(raw)
        return {"name": d["name"], "timestamp": d["timestamp"],
                "payload": {k: d[k] for k in ("source", "category", "message", "event_class", "data")}}
    except Exception:
        return {"raw": raw}


class RealCodeError(Exception):
    """the code under test raised inside a history"""

    def __init__(self, where, exc):
        super().__init__(f"{where}: {type(exc).__name__}: {exc}")
        self.exc = exc


class EventsSuite(Suite):
    name = "events"

    def __init__(self):
        self._order = {}
        self._pq = {}

    # ------------------------------------------------------------------ generators
    def cases(self, rng, tier, prop):
        n = {"quick": 300, "thorough": 3000}[tier]
        out = []
        for i in range(n):
            out.append(self._gen(rng, i))
        m = {"quick": 130, "thorough": 1300}[tier]
        for i in range(m):
            out.append(AggGen(rng, n + i).history())
        return out

    def _gen(self, rng, i):
        r = rng.random()
        nfiles = rng.choice([1, 1, 2, 2, 3, 3, 4, 5])
        total = rng.choice([0, 1, 2, 3, 5, 8, 12, 20, 30, 40]) if r > .05 else 0
        names = rng.sample(NAMES, rng.randint(1, 4))
        if rng.random() < .15:
            names.append(rng.choice(RESOURCE))
        mode = rng.choice(["dups", "dups", "few", "distinct", "odd", "odd", "reversed", "sorted"])
        if mode in ("dups", "reversed", "sorted"):
            pool = rng.sample(CLOCK, rng.randint(1, 4))
        elif mode == "few":
            pool = rng.sample(CLOCK, 2)
        elif mode == "distinct":
            pool = list(CLOCK)
        else:
            pool = rng.sample(CLOCK, 2) + rng.sample(ODD_TS, rng.randint(1, 4))
        fnames = rng.sample(FILES, nfiles)
        files = [{"file": f, "events": []} for f in fnames]
        evs = [gen_event(rng, names, pool, 1000 * i + k) for k in range(total)]
        if mode == "reversed":
            evs.sort(key=lambda e: e["timestamp"], reverse=True)
        elif mode == "sorted":
            evs.sort(key=lambda e: e["timestamp"])
        for e in evs:
            rng.choice(files)["events"].append(e)
        case = {"op": "events.consolidate", "files": files, "later": [], "decoys": [], "absent": "no_such_event"}
        if rng.random() < .2:
            case["decoys"] = [{"file": rng.choice(DECOYS), "events": [gen_event(rng, [n for n in names if n not in RESOURCE] or NAMES[:1], pool, 1000 * i + 900)]}]
        if rng.random() < .12:
            lf = rng.choice([f for f in FILES if f not in fnames])
            case["later"] = [{"file": lf, "events": [gen_event(rng, [n for n in names if n not in RESOURCE] or NAMES[:1], pool, 1000 * i + 950 + k)
                                                   for k in range(rng.randint(1, 3))]}]
        return case

    # ------------------------------------------------------------------ implementation
    def setup(self):
        import jade.events as je
        self._je = je
        self._saved_dt = je.datetime
        je.datetime = FakeDatetime

    def teardown(self):
        self._je.datetime = self._saved_dt
        from jade.loggers import close_event_logging
        close_event_logging()
        lg = logging.getLogger("_jade_event")
        for h in list(lg.handlers):
            lg.removeHandler(h)

    def _write(self, path, events, mode="w"):
        from jade.loggers import setup_event_logging, close_event_logging
        setup_event_logging(str(path), mode=mode)
        try:
            self._log(events)
        finally:
            close_event_logging()

    @staticmethod
    def _log(events):
        """the real `log_event` on real event objects, through whatever file the event logger is set up with"""
        from jade.events import StructuredLogEvent, StructuredErrorLogEvent
        from jade.loggers import log_event
        for ev in events:
            cls = StructuredErrorLogEvent if ev["cls"] == "StructuredErrorLogEvent" else StructuredLogEvent
            kwargs = dict(ev["data"])
            if ev.get("clock"):
                FakeDatetime.script = [_dt.datetime.fromisoformat(ev["timestamp"])]
            else:
                kwargs["timestamp"] = ev["timestamp"]
            event = cls(source=ev["source"], category=ev["category"], name=ev["name"], message=ev["message"], **kwargs)
            log_event(event)

    @staticmethod
    def _out_event(e):
        return {"name": e.name, "timestamp": e.timestamp,
                "payload": {"source": e.source, "category": e.category, "message": e.message,
                            "event_class": e.event_class, "data": e.data}}

    def impl(self, case):
        if case.get("op") == AGG:
            return self._agg_impl(case)
        from jade.events import EventsSummary
        key = canon(case)
        with scratch_dir() as out:
            for f in case["files"] + case.get("decoys", []):
                self._write(out / f["file"], f["events"])
            probe = EventsSummary.__new__(EventsSummary)
            probe._output_dir = str(out)
            order = [p.name for p in probe._iter_event_files()]
            with quiet():
                s1 = EventsSummary(str(out))
                flat = json.loads(s1.to_json())
                names1 = list(dict.fromkeys(e["name"] for e in flat))
                first = [[n, [self._out_event(e) for e in s1.list_events(n)]] for n in names1]
                absent = [self._out_event(e) for e in s1.list_events(case["absent"])]
                parquet = sorted(p.stem for p in (out / "events").iterdir() if p.suffix == ".parquet")
                # contents of the per-process table (side channel for the oracle; the model compares table names only)
                try:
                    import pandas as pd
                    pq = out / "events" / "process_stats.parquet"
                    if pq.exists():
                        df = pd.read_parquet(pq)
                        self._pq[key] = sorted([str(r["name"]), int(r["rss"])] for _, r in df.iterrows()) if "name" in df.columns else None
                except Exception as e:  # noqa
                    self._pq[key] = f"unreadable: {type(e).__name__}"
            for f in case.get("later", []):  # not under quiet(): it disables logging, i.e. log_event
                self._write(out / f["file"], f["events"])
            order2 = [p.name for p in probe._iter_event_files()]
            with quiet():
                s2 = EventsSummary(str(out), preload=True)
                names2 = sorted(n[:-len(".json")] for n in s2.list_unique_names())
                second = [[n, [self._out_event(e) for e in s2.list_events(n)]] for n in names2]
                s3 = EventsSummary(str(out))
                names3 = sorted(n[:-len(".json")] for n in s3.list_unique_names())
                lazy = [[n, [self._out_event(e) for e in s3.list_events(n)]] for n in names3]
        self._order[key] = (order, order2)
        # JSON-normalise (tuples etc.) so that both sides are plain JSON values
        return json.loads(json.dumps({"first": first, "parquet": parquet, "second": second, "lazy": lazy, "absent": absent}))

    def _orders(self, case):
        key = canon(case)
        if key not in self._order:
            self.setup()
            try:
                self.impl(case)
            finally:
                self.teardown()
        return self._order[key]

    def model_case(self, case):
        if case.get("op") == AGG:
            return self._agg_model_case(case)
        order, order2 = self._orders(case)
        by = {f["file"]: f for f in case["files"] + case.get("decoys", [])}
        files = [[model_event(e) for e in by[n]["events"]] for n in order if n in by]
        lat = {f["file"]: f for f in case.get("later", [])}
        later = [[model_event(e) for e in lat[n]["events"]] for n in order2 if n in lat]
        return {"op": case["op"], "files": files, "later": later, "absent": case["absent"]}

    # ------------------------------------------------------------------ direct oracle
    def oracle(self, case, result):
        if case.get("op") == AGG:
            return self._agg_oracle(case, result)
        v = []
        if not isinstance(result, dict) or "first" not in result:
            return [Violation("C20", "events.crash", f"EventsSummary failed on well-formed event logs: {result!r}")]
        written = [f for f in case["files"] if fnmatch.fnmatchcase(f["file"], "*events.log")]
        allev = [model_event(e) for f in written for e in f["events"]]
        exp = collections.defaultdict(list)
        for e in allev:
            exp[e["name"]].append(e)
        got = {n: evs for n, evs in result["first"]}
        if len(got) != len(result["first"]):
            v.append(Violation("C20", "events.names", "an event name is listed twice in the summary"))
        exp_json = {n for n in exp if n not in RESOURCE}
        if set(got) != exp_json:
            v.append(Violation("C20", "events.names", f"names in the summary {sorted(got)} differ from the names written {sorted(exp_json)}"))
        if result["parquet"] != sorted(n for n in exp if n in RESOURCE):
            v.append(Violation("C20", "events.parquet", f"resource-stat tables {result['parquet']} differ from the resource-stat names written"))
        if "process_stats" in exp and canon(case) in self._pq:
            want = sorted([str(pr["name"]), int(pr["rss"])] for f in written for e in f["events"] if e["name"] == "process_stats"
                          for pr in e.get("data", {}).get("processes", []))
            have = self._pq[canon(case)]
            if have != want:
                v.append(Violation("C20", "events.process_rows", f"per-process samples in process_stats.parquet {have} differ from the samples "
                                   f"written {want} (every process of every process_stats event, exactly once, fields intact)"))
        order = self._order.get(canon(case), (None, None))[0]
        rank = {n: i for i, n in enumerate(order)} if order else None
        for n in sorted(exp_json):
            g = got.get(n, [])
            ce, cg = collections.Counter(canon(e) for e in exp[n]), collections.Counter(canon(e) for e in g)
            lost, extra = ce - cg, cg - ce
            if lost:
                v.append(Violation("C20", "events.lost", f"{sum(lost.values())} event(s) named {n!r} written to the logs are missing (or altered) in the summary, e.g. {next(iter(lost))}"))
            if extra:
                v.append(Violation("C20", "events.extra", f"{sum(extra.values())} event(s) named {n!r} in the summary were never written (duplicated or altered), e.g. {next(iter(extra))}"))
            ts = [e["timestamp"] for e in g]
            if any(a > b for a, b in zip(ts, ts[1:])):
                v.append(Violation("C20", "events.unsorted", f"events named {n!r} are not in timestamp order: {ts}"))
            elif not lost and not extra:
                # stability: equal timestamps keep file/line order
                for t in set(ts):
                    grp = [canon(e) for e in g if e["timestamp"] == t]
                    if rank is not None:
                        src_grp = [canon(model_event(e)) for f in sorted(written, key=lambda f: rank.get(f["file"], 99))
                                   for e in f["events"] if e["name"] == n and e["timestamp"] == t]
                        if grp != src_grp:
                            v.append(Violation("C20", "events.unstable", f"events named {n!r} with equal timestamp {t!r} do not keep their file/line order"))
                            break
        if not case.get("later"):
            for which in ("second", "lazy"):
                again = {n: evs for n, evs in result[which]}
                if again != got:
                    v.append(Violation("C20", "events.not_idempotent", f"constructing the summary again ({which}) changed it"))
        if result["absent"] != []:
            v.append(Violation("C20", "events.absent", "events reported for a name that was never written"))
        return v

    def tags(self, case, result):
        if case.get("op") == AGG:
            return self._agg_tags(case, result)
        n = sum(len(f["events"]) for f in case["files"])
        if n == 0:
            return ["trivial.noEvents"]
        t = ["events.consolidate", f"events.files={len(case['files'])}"]
        names = {e["name"] for f in case["files"] for e in f["events"]}
        t.append(f"events.names={min(len(names), 4)}")
        keys = collections.Counter((e["name"], e["timestamp"]) for f in case["files"] for e in f["events"])
        if any(c > 1 for c in keys.values()):
            t.append("events.dupTimestamps")
        perfile = [collections.Counter((e["name"], e["timestamp"]) for e in f["events"]) for f in case["files"]]
        if any(sum(1 for pf in perfile if k in pf) > 1 for k in keys):
            t.append("events.dupAcrossFiles")
        if names & set(RESOURCE):
            t.append("events.resourceStat")
        if case.get("later"):
            t.append("events.later")
        if case.get("decoys"):
            t.append("events.decoy")
        if any(e["cls"] != "StructuredLogEvent" for f in case["files"] for e in f["events"]):
            t.append("events.errorEvent")
        if any(e.get("clock") for f in case["files"] for e in f["events"]):
            t.append("events.clockTimestamp")
        if any(e["timestamp"] in ODD_TS for f in case["files"] for e in f["events"]):
            t.append("events.oddTimestamp")
        if n >= 20:
            t.append("events.n>=20")
        return t

    def shrink(self, case):
        if case.get("op") == AGG:
            return self._agg_shrink(case)
        out = []
        for key in ("later", "decoys"):
            if case.get(key):
                c = dict(case)
                c[key] = []
                out.append(c)
        for i in range(len(case["files"])):
            if len(case["files"]) > 1:
                c = dict(case)
                c["files"] = case["files"][:i] + case["files"][i + 1:]
                out.append(c)
        for i, f in enumerate(case["files"]):
            n = len(f["events"])
            cuts = [(0, n // 2), (n // 2, n)] if n > 3 else []
            cuts += [(k, k + 1) for k in range(n)]
            for a, b in cuts:
                c = dict(case)
                c["files"] = list(case["files"])
                c["files"][i] = {"file": f["file"], "events": f["events"][:a] + f["events"][b:]}
                out.append(c)
        for i, f in enumerate(case["files"]):
            for k, e in enumerate(f["events"]):
                if e["name"] not in RESOURCE and set(e["data"]) - {"uid", "exception"}:
                    c = dict(case)
                    c["files"] = list(case["files"])
                    ne = dict(e)
                    ne["data"] = {kk: vv for kk, vv in e["data"].items() if kk in ("uid", "exception")}
                    c["files"][i] = {"file": f["file"], "events": f["events"][:k] + [ne] + f["events"][k + 1:]}
                    out.append(c)
        return out


    # ================================================================== histories (`events.aggregate`)
    ENV = ("SLURM_NODEID", "SLURM_JOB_ID", "LOCAL_SCRATCH", "SLURM_CPUS_ON_NODE")

    @staticmethod
    def _real(where, fn):
        """a call into the code under test: what it raises is a finding, not a harness failure"""
        try:
            return fn()
        except Exception as e:
            raise RealCodeError(where, e)

    @staticmethod
    def _agg_config(jobs):
        """the configuration `config_batch_<n>.json` holds: that batch's jobs in order, one slurm submission group"""
        from jade.extensions.generic_command import GenericCommandConfiguration, GenericCommandParameters
        from jade.models import HpcConfig, SubmissionGroup, SubmitterParams
        cfg = GenericCommandConfiguration()
        for j in jobs:
            cfg.add_job(GenericCommandParameters(command=f"work {j}", name=j))
        params = SubmitterParams(hpc_config=HpcConfig(hpc_type="slurm", hpc={"account": "a"}),
                                 resource_monitor_type="none", generate_reports=False, poll_interval=1)
        cfg.append_submission_group(SubmissionGroup(name="default", submitter_params=params))
        return cfg

    def _job_process(self, out, job, events):
        """One job process: `jade-internal run <extension> --name <job> --output <output>/job-outputs --config-file …`
        through the REAL `jade.cli.run.run` (its makedirs, `setup_event_logging(<job dir>/events.log, mode=…)`,
        `setup_logging`), for an extension whose CLI logs the case's events through `log_event`."""
        import jade.cli.run as run_mod
        from jade.common import JOBS_OUTPUT_DIR
        from jade.loggers import close_event_logging
        suite = self

        class Cli:
            @staticmethod
            def run(config_file, name, output, output_format, verbose):
                suite._log(events)
                return 0

        class Reg:
            def is_registered(self, extension):
                return True

            def get_extension_class(self, extension, class_type):
                return Cli
        aux = out / "verif-aux"
        aux.mkdir(exist_ok=True)
        cfg = aux / "job_config.json"
        if not cfg.exists():
            cfg.write_text("{}")
        saved = run_mod.Registry
        run_mod.Registry = Reg
        try:
            run_mod.run.callback("verif_ext", name=job, output=str(out / JOBS_OUTPUT_DIR), config_file=str(cfg),
                                 output_format="csv", verbose=False)
        except SystemExit as e:
            if e.code not in (0, None):
                raise RuntimeError(f"jade-internal run exited with {e.code}")
        finally:
            run_mod.Registry = saved
            close_event_logging()
            self._drop_general_logging()

    @staticmethod
    def _drop_general_logging():
        """`setup_logging` of cli/run.py leaves file handlers (run.log in the scratch directory) on the package loggers"""
        for name, lg in list(logging.root.manager.loggerDict.items()):
            if isinstance(lg, logging.Logger) and name != "_jade_event":
                for h in list(lg.handlers):
                    if isinstance(h, logging.FileHandler) and "jadeverif-" in getattr(h, "baseFilename", ""):
                        lg.removeHandler(h)
                        h.close()

    def _agg_step(self, st, out, runners, probe, obs, sums):
        from jade.common import EVENTS_DIR, JOBS_OUTPUT_DIR
        from jade.events import EventsSummary
        from jade.jobs.job_runner import JobRunner
        from jade.loggers import setup_event_logging
        k = st["s"]
        # Every process is emulated by pointing the one `_jade_event` logger at that process's file (append mode, as
        # each jade command does) before its writes: the file contents are what matters.
        if k == "submitter":     # jade/cli/submit_jobs.py, try_submit_jobs.py, resubmit_jobs.py
            self._real("submitter", lambda: self._write(out / "submit_jobs_events.log", st["events"], mode="a"))
        elif k == "other":
            self._real("other process", lambda: self._write(out / st["file"], st["events"], mode="a"))
        elif k == "runnerStart":  # jade/cli/run_jobs.py
            os.environ.update({"SLURM_NODEID": str(st["node"]), "SLURM_JOB_ID": str(7000 + st["rid"]),
                               "LOCAL_SCRATCH": str(out / "node-scratch"), "SLURM_CPUS_ON_NODE": "2"})
            cfg = self._agg_config(st["jobs"])
            with quiet():
                runner = self._real("JobRunner()", lambda: JobRunner(cfg, str(out), batch_id=str(st["batch"])))
            runners[st["rid"]] = runner
            obs["nodefiles"][str(st["rid"])] = os.path.relpath(runner.event_filename, str(out))
            self._real("run-jobs log", lambda: self._write(runner.event_filename, st["events"], mode="a"))
        elif k == "runnerLog":
            runner = runners[st["rid"]]
            self._real("run-jobs log", lambda: self._write(runner.event_filename, st["events"], mode="a"))
        elif k == "jobRun":
            if st["file"]:
                self._real("jade-internal run", lambda: self._job_process(out, st["job"], st["events"]))
        elif k == "aggregate":
            runner = runners[st["rid"]]
            setup_event_logging(runner.event_filename, mode="a")   # the run-jobs process still has its file open
            with quiet():
                self._real("_aggregate_events", runner._aggregate_events)
        elif k == "kill":
            runners[st["rid"]]    # the process is gone; its files stay as they are
        elif k == "consolidate":
            obs["orders"].append(self._real("glob", lambda: [p.name for p in probe._iter_event_files()]))

            def construct():
                s = EventsSummary(str(out), preload=bool(st.get("preload")))
                names = sorted(n[:-len(".json")] for n in s.list_unique_names())
                evs = [[n, [self._out_event(e) for e in s.list_events(n)]] for n in names]
                parquet = sorted(p.stem for p in (out / EVENTS_DIR).iterdir() if p.suffix == ".parquet")
                return {"events": evs, "parquet": parquet}
            with quiet():
                sums.append(self._real("EventsSummary()", construct))
        elif k in ("resubmit", "clear"):   # jade/cli/resubmit_jobs.py: every file of events/ is unlinked
            d = out / EVENTS_DIR
            if d.exists():
                for p in list(d.iterdir()):
                    p.unlink()
        else:
            raise ValueError(f"unknown step {k}")

    def _agg_impl(self, case):
        from jade.common import JOBS_OUTPUT_DIR
        from jade.events import EventsSummary
        from jade.loggers import close_event_logging
        saved = {k: os.environ.get(k) for k in self.ENV}
        obs = {"orders": [], "nodefiles": {}, "at": None}
        sums = []
        try:
            with scratch_dir() as out:
                probe = EventsSummary.__new__(EventsSummary)
                probe._output_dir = str(out)
                runners = {}
                try:
                    for idx, st in enumerate(case["steps"]):
                        obs["at"] = idx
                        self._agg_step(st, out, runners, probe, obs, sums)
                except RealCodeError as e:
                    self._order[canon(case)] = obs["orders"]
                    return json.loads(json.dumps({"model": {"error": err_enum(e.exc)}, "obs": dict(obs, crash=str(e)[:300])}))
                close_event_logging()

                def lines(p):
                    with open(p) as f:
                        return [agg_line(l) for l in f]
                files = [[p.name, lines(p)] for p in sorted(out.iterdir()) if p.is_file()]
                jobfiles = []
                jd = out / JOBS_OUTPUT_DIR
                for d in (sorted(jd.iterdir()) if jd.is_dir() else []):
                    if d.is_dir():   # run.log: the job's general log (cli/run.py), not an event file
                        jobfiles += [[f"{d.name}/{f.name}", lines(f)] for f in sorted(d.iterdir())
                                     if f.is_file() and f.name != "run.log"]
                jobfiles.sort(key=lambda x: x[0])
        finally:
            close_event_logging()
            for k, v in saved.items():
                if v is None:
                    os.environ.pop(k, None)
                else:
                    os.environ[k] = v
        self._order[canon(case)] = obs["orders"]
        obs.pop("at")
        return json.loads(json.dumps({"model": {"files": files, "jobfiles": jobfiles, "summaries": sums}, "obs": obs}))

    def _agg_model_case(self, case):
        """the history as the Lean driver replays it; the glob orders are the ones the real code saw"""
        key = canon(case)
        if key not in self._order:
            self.setup()
            try:
                self._agg_impl(case)
            finally:
                self.teardown()
        orders = list(self._order[key])
        runners = agg_runners(case)

        def bn(rid):
            return {"batch": str(runners[rid]["batch"]), "node": str(runners[rid]["node"])}
        steps = []
        for st in case["steps"]:
            k = st["s"]
            evs = [model_event(e) for e in st.get("events", [])]
            if k == "submitter":
                steps += [{"s": "submitterStart"}, {"s": "submitterLog", "events": evs}]
            elif k == "other":
                steps.append({"s": "otherLog", "file": st["file"], "events": evs})
            elif k == "runnerStart":
                steps.append(dict(bn(st["rid"]), s="runnerStart"))
                steps.append(dict(bn(st["rid"]), s="runnerLog", events=evs))
            elif k == "runnerLog":
                steps.append(dict(bn(st["rid"]), s="runnerLog", events=evs))
            elif k == "jobRun":
                steps.append({"s": "jobRun", "job": st["job"], "events": evs if st["file"] else None})
            elif k == "aggregate":
                steps.append(dict(bn(st["rid"]), s="aggregate", jobs=list(runners[st["rid"]]["jobs"])))
            elif k == "consolidate":
                steps.append({"s": "consolidate", "order": orders.pop(0) if orders else []})
            elif k in ("resubmit", "clear"):
                steps.append({"s": k})
        return {"op": AGG, "steps": steps}

    # ------------------------------------------------------------------ direct oracle for histories
    def _agg_oracle(self, case, result):
        """C20 on the real result.  Ground truth: the events the harness handed to `log_event`, process by process.
        An event a job process wrote counts as "written into the submission's logs" once the runner of a batch that
        holds the job has aggregated (before that it sits in the per-job file of a batch that has not finished, or
        that was killed and not run again: it is pending, and must NOT be in the summary yet).  At every
        construction of the summary on an empty events/ the summary must hold exactly the non-pending events, each as
        often as it was written; on a non-empty events/ it must equal what is stored (idempotence)."""
        if not isinstance(result, dict) or "harness_exception" in result:
            return []
        model, obs = result.get("model") or {}, result.get("obs") or {}
        if result.get("timeout"):
            return [Violation("C20", "events.hang", "the reports code did not terminate on a history of well-formed event logs")]
        if "error" in model or "summaries" not in model:
            return [Violation("C20", "events.crash", f"the event aggregation/consolidation raised on well-formed event logs "
                                                     f"at step {obs.get('at')}: {obs.get('crash')}")]
        v = []
        runners = agg_runners(case)
        visible, pending = [], {}
        frozen, last_fresh, k = None, None, 0
        for idx, st in enumerate(case["steps"]):
            s = st["s"]
            evs = [model_event(e) for e in st.get("events", [])]
            if s in ("submitter", "runnerStart", "runnerLog"):
                visible += evs
            elif s == "other":
                if fnmatch.fnmatchcase(st["file"], "*events.log"):
                    visible += evs
            elif s == "jobRun":
                if st["file"]:
                    pending.setdefault(st["job"], []).extend(evs)
            elif s == "aggregate":
                for j in runners[st["rid"]]["jobs"]:
                    visible += pending.pop(j, [])
            elif s in ("resubmit", "clear"):
                frozen = None
            elif s == "consolidate":
                if k >= len(model["summaries"]):
                    break
                got = model["summaries"][k]
                k += 1
                where = f"summary #{k} (step {idx})"
                if frozen is not None:
                    if got != frozen:
                        v.append(Violation("C20", "events.not_idempotent", f"{where}: constructing the summary again on a non-empty events/ changed it"))
                    continue
                summ = {n: es for n, es in got["events"]}
                if len(summ) != len(got["events"]):
                    v.append(Violation("C20", "events.names", f"{where}: an event name is listed twice"))
                exp = collections.defaultdict(list)
                for e in visible:
                    exp[e["name"]].append(e)
                exp_json = {n for n in exp if n not in RESOURCE}
                if set(summ) != exp_json:
                    v.append(Violation("C20", "events.names", f"{where}: names in the summary {sorted(summ)} differ from the names written {sorted(exp_json)}"))
                if got["parquet"] != sorted(n for n in exp if n in RESOURCE):
                    v.append(Violation("C20", "events.parquet", f"{where}: resource-stat tables {got['parquet']} differ from the resource-stat names written"))
                for n in sorted(exp_json | set(summ)):
                    g = summ.get(n, [])
                    ce = collections.Counter(canon(e) for e in exp.get(n, []))
                    cg = collections.Counter(canon(e) for e in g)
                    for key in sorted(set(ce) | set(cg)):
                        if ce[key] > cg[key]:
                            v.append(Violation("C20", "events.lost", f"{where}: event written {ce[key]}x appears {cg[key]}x in the summary: {key}"))
                        elif ce[key] < cg[key]:
                            v.append(Violation("C20", "events.extra", f"{where}: event written {ce[key]}x (not counting events still pending "
                                                                      f"in per-job files) appears {cg[key]}x in the summary: {key}"))
                    if any(e.get("name") != n for e in g):
                        v.append(Violation("C20", "events.names", f"{where}: the list of {n!r} holds an event of another name"))
                    ts = [e.get("timestamp") for e in g]
                    if any(a > b for a, b in zip(ts, ts[1:])):
                        v.append(Violation("C20", "events.unsorted", f"{where}: events named {n!r} are not in timestamp order: {ts}"))
                # from scratch again on the same logs: same summary (up to the order of events with equal timestamps,
                # which follows the order in which the glob lists the files; the exact order is compared with the model)
                snap = collections.Counter(canon(e) for e in visible)
                norm = canon({"parquet": got["parquet"],
                              "events": [[n, sorted(es, key=lambda e: (e.get("timestamp"), canon(e)))] for n, es in got["events"]]})
                if last_fresh is not None and last_fresh[0] == snap and last_fresh[1] != norm:
                    v.append(Violation("C20", "events.not_idempotent", f"{where}: consolidating the same logs again from scratch changed the summary"))
                last_fresh = (snap, norm)
                if got["events"] or got["parquet"]:
                    frozen = got
        return v

    def _agg_tags(self, case, result):
        steps = case["steps"]
        runners = agg_runners(case)
        n = sum(len(st.get("events", [])) for st in steps)
        if n == 0:
            return ["trivial.noEvents"]
        t = ["agg.history", f"agg.runners={min(len(runners), 5)}"]
        active, aggregated_by, started, seen_bn = set(), {}, set(), set()
        pending_jobs, wrote_since, summary, cleared = set(), False, False, False
        for i, st in enumerate(steps):
            s = st["s"]
            if s == "runnerStart":
                bnk = (st["batch"], st["node"])
                if bnk in seen_bn:
                    t.append("agg.requeueSameBatch")
                seen_bn.add(bnk)
                if active:
                    t.append("agg.batchesOverlap")
                if st["node"] != 0:
                    t.append("agg.nodeIdNonzero")
                active.add(st["rid"])
            elif s == "jobRun":
                j = st["job"]
                if not st["file"]:
                    t.append("agg.jobWithoutFile")
                    continue
                if not st["events"]:
                    t.append("agg.emptyJobFile")
                if j in aggregated_by and st["events"] and runners[st["rid"]]["batch"] != aggregated_by[j]:
                    t.append("agg.rerunLaterBatch")
                if j in pending_jobs and st["rid"] not in active - {st["rid"]} and j in started:
                    t.append("agg.rerunOnPendingFile")
                pending_jobs.add(j)
                started.add(j)
            elif s == "aggregate":
                active.discard(st["rid"])
                for j in runners[st["rid"]]["jobs"]:
                    if j in pending_jobs:
                        aggregated_by[j] = runners[st["rid"]]["batch"]
                        pending_jobs.discard(j)
            elif s == "kill":
                active.discard(st["rid"])
                t.append("agg.killedBeforeAggregate")
            elif s == "consolidate":
                if summary and not cleared and wrote_since:
                    t.append("agg.staleSummary")
                if any(x["s"] in WRITERS and x.get("events") for x in steps[i + 1:]):
                    t.append("agg.consolidateMid")
                if pending_jobs:
                    t.append("agg.pendingAtConsolidate")
                summary, cleared, wrote_since = True, False, False
            elif s == "resubmit":
                if summary:
                    t.append("agg.resubmitClearsEvents")
                cleared, summary = True, False
            elif s == "clear":
                if summary:
                    t.append("agg.fromScratchAgain")
                cleared, summary = True, False
            if s in WRITERS and st.get("events"):
                wrote_since = True
            if s == "other":
                t.append("agg.otherProcess" if fnmatch.fnmatchcase(st["file"], "*events.log") else "agg.decoyFile")
        allev = [canon(model_event(e)) for st in steps for e in st.get("events", [])]
        if len(set(allev)) < len(allev):
            t.append("agg.identicalEvents")
        per = [{(e["name"], e["timestamp"]) for e in st.get("events", [])} for st in steps if st["s"] in WRITERS]
        if any(a & b for i, a in enumerate(per) for b in per[i + 1:]):
            t.append("agg.tsCollisionAcrossProcesses")
        if any(e["name"] in RESOURCE for st in steps for e in st.get("events", [])):
            t.append("agg.resourceStat")
        if isinstance(result, dict) and (result.get("model") or {}).get("jobfiles"):
            t.append("agg.jobFilesLeftAtEnd")
        return sorted(set(t))

    def _agg_shrink(self, case):
        steps = case["steps"]
        out = []

        def cand(new_steps):
            out.append({**case, "steps": new_steps})
        # whole runners
        for rid in agg_runners(case):
            cand([st for st in steps if st.get("rid") != rid])
        # trailing constructions / single steps that nothing refers to
        cons = [i for i, st in enumerate(steps) if st["s"] == "consolidate"]
        for i in reversed(cons):
            cand(steps[:i] + steps[i + 1:])
        for i, st in enumerate(steps):
            if st["s"] in ("submitter", "other", "runnerLog", "jobRun", "resubmit", "clear"):
                cand(steps[:i] + steps[i + 1:])
        # jobs of a configuration that never run
        for i, st in enumerate(steps):
            if st["s"] == "runnerStart":
                used = {x["job"] for x in steps if x["s"] == "jobRun"}
                keep = [j for j in st["jobs"] if j in used]
                if keep and keep != st["jobs"]:
                    cand(steps[:i] + [{**st, "jobs": keep}] + steps[i + 1:])
        # events
        for i, st in enumerate(steps):
            evs = st.get("events") or []
            n = len(evs)
            cuts = [(0, n)] if n > 1 else []
            cuts += [(0, n // 2), (n // 2, n)] if n > 3 else []
            cuts += [(k, k + 1) for k in range(n)]
            for a, b in cuts:
                cand(steps[:i] + [{**st, "events": evs[:a] + evs[b:]}] + steps[i + 1:])
        for i, st in enumerate(steps):
            for k, e in enumerate(st.get("events") or []):
                if e["name"] not in RESOURCE and (set(e["data"]) - {"uid", "exception"} or e.get("clock")):
                    ne = dict(e, clock=False)
                    ne["data"] = {kk: vv for kk, vv in e["data"].items() if kk in ("uid", "exception")}
                    evs = st["events"]
                    cand(steps[:i] + [{**st, "events": evs[:k] + [ne] + evs[k + 1:]}] + steps[i + 1:])
        return out


SUITE = EventsSuite()
