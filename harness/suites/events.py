"""Suite `events` (C20): the real `log_event` / `StructuredLogEvent` / `EventsSummary` vs Model/Reports.lean.

A case is a set of per-process event log files (1-5 files named `*events.log`, plus an occasional decoy that
the glob must not pick up), each a list of structured events.  The events are written by the real
`log_event` through the real event logger; `EventsSummary(output)` is then constructed three times (first:
consolidates and saves; second: `preload=True`; third: lazy) and read back through `to_json`/`list_events`.
"""
import collections
import datetime as _dt
import fnmatch
import json
import logging

from common import Suite, Violation, canon, quiet, scratch_dir

RESOURCE = ["cpu_stats", "disk_stats", "mem_stats", "net_stats", "process_stats"]
NAMES = ["hpc_submit", "hpc_job_assigned", "hpc_job_state_change", "bytes_consumed", "unhandled_error",
         "log_error", "submit_started", "submit_completed", "config_exec_summary", "my-ext.event_1"]
FILES = ["submit_jobs_events.log", "run_jobs_batch_1_0_events.log", "run_jobs_batch_2_0_events.log",
         "run_jobs_batch_2_1_events.log", "stats_events.log", "events.log", "xevents.log", "resubmit_events.log"]
DECOYS = ["submit_jobs_events.log.bak", "events.txt", "run_jobs_batch_1_0.log", "events.log.1"]
CLOCK = ["2026-09-26 12:00:00", "2026-09-26 12:00:00.000001", "2026-09-26 12:00:00.500000", "2026-09-26 12:00:01",
         "2026-09-26 12:00:01.250000", "2026-09-26 09:59:59.999999", "2026-09-27 00:00:00", "2025-12-31 23:59:59.999999",
         "2026-09-26 12:00:10", "2026-09-26 12:00:09"]
ODD_TS = ["", "9", "10", "A", "a", "2026", "2026-09-26 12:00:00 ", "é", "Z9", "~"]


class FakeDatetime:
    """`jade.events.datetime` replacement: `now()` returns scripted real datetime objects."""
    script = []

    @classmethod
    def now(cls):
        return cls.script.pop(0)


def gen_value(rng, depth=0):
    r = rng.random()
    if depth >= 2 or r < .45:
        return rng.choice([0, 1, -7, 2 ** 40, 12345678901234567890, True, False, None, "", "x", "a b", "é中", "q\"uo\\te",
                           "line\nbreak", 0.5, 2.25, -1024.5, "2026-09-26 12:00:00"])
    if r < .7:
        return [gen_value(rng, depth + 1) for _ in range(rng.randint(0, 3))]
    return {rng.choice(["a", "b", "job", "n", "k e y", "ü"]): gen_value(rng, depth + 1) for _ in range(rng.randint(0, 3))}


def gen_event(rng, names, ts_pool, uid):
    name = rng.choice(names)
    ts = rng.choice(ts_pool)
    ev = {"name": name, "timestamp": ts, "source": rng.choice(["submitter", "job_17", "batch_1", "", "node-3"]),
          "category": rng.choice(["HPC", "Error", "ResourceUtilization", "Cat"]),
          "message": rng.choice(["m", "", "job submitted", "x y z", "é"]), "cls": "StructuredLogEvent"}
    if name in RESOURCE:
        # shape the Parquet path needs: flat numeric data (process_stats: a list of per-process dicts)
        if name == "process_stats":
            ev["data"] = {"processes": [{"name": f"j{k}", "rss": 1024 * (k + uid), "cpu_percent": 12.5} for k in range(rng.randint(1, 2))]}
        else:
            ev["data"] = {"cpu_percent": 12.5 * (uid % 8) + 0.25, "count": uid}
        ev["clock"] = ts in CLOCK
        return ev
    data = {"uid": uid}  # makes every generated event distinguishable
    for _ in range(rng.randint(0, 3)):
        data[rng.choice(["job_name", "batch", "state", "nested", "list", "bytes_consumed", "num_jobs"])] = gen_value(rng)
    if rng.random() < .15:
        del data["uid"]  # genuinely identical events must be kept as often as they were written
        data = {k: v for k, v in data.items() if rng.random() < .5}
    if rng.random() < .12:
        ev["cls"] = "StructuredErrorLogEvent"
        data.update({"exception": "<class 'ValueError'>", "error": "boom", "filename": "f.py", "lineno": uid})
    ev["data"] = data
    # `clock`: the timestamp is taken by the event itself (`str(datetime.now())`) from a scripted clock
    ev["clock"] = ts in CLOCK and rng.random() < .7
    return ev


def payload_of(ev):
    return {"source": ev["source"], "category": ev["category"], "message": ev["message"],
            "event_class": ev["cls"], "data": ev["data"]}


def model_event(ev):
    return {"name": ev["name"], "timestamp": ev["timestamp"], "payload": payload_of(ev)}


class EventsSuite(Suite):
    name = "events"

    def __init__(self):
        self._order = {}

    # ------------------------------------------------------------------ generators
    def cases(self, rng, tier, prop):
        n = {"quick": 300, "thorough": 3000}[tier]
        out = []
        for i in range(n):
            out.append(self._gen(rng, i))
        return out

    def _gen(self, rng, i):
        r = rng.random()
        nfiles = rng.choice([1, 1, 2, 2, 3, 3, 4, 5])
        total = rng.choice([0, 1, 2, 3, 5, 8, 12, 20, 30, 40]) if r > .05 else 0
        names = rng.sample(NAMES, rng.randint(1, 4))
        if rng.random() < .15:
            names.append(rng.choice(RESOURCE))
        mode = rng.choice(["dups", "dups", "few", "distinct", "odd", "odd", "reversed", "sorted"])
        if mode in ("dups", "reversed", "sorted"):
            pool = rng.sample(CLOCK, rng.randint(1, 4))
        elif mode == "few":
            pool = rng.sample(CLOCK, 2)
        elif mode == "distinct":
            pool = list(CLOCK)
        else:
            pool = rng.sample(CLOCK, 2) + rng.sample(ODD_TS, rng.randint(1, 4))
        fnames = rng.sample(FILES, nfiles)
        files = [{"file": f, "events": []} for f in fnames]
        evs = [gen_event(rng, names, pool, 1000 * i + k) for k in range(total)]
        if mode == "reversed":
            evs.sort(key=lambda e: e["timestamp"], reverse=True)
        elif mode == "sorted":
            evs.sort(key=lambda e: e["timestamp"])
        for e in evs:
            rng.choice(files)["events"].append(e)
        case = {"op": "events.consolidate", "files": files, "later": [], "decoys": [], "absent": "no_such_event"}
        if rng.random() < .2:
            case["decoys"] = [{"file": rng.choice(DECOYS), "events": [gen_event(rng, [n for n in names if n not in RESOURCE] or NAMES[:1], pool, 1000 * i + 900)]}]
        if rng.random() < .12:
            lf = rng.choice([f for f in FILES if f not in fnames])
            case["later"] = [{"file": lf, "events": [gen_event(rng, [n for n in names if n not in RESOURCE] or NAMES[:1], pool, 1000 * i + 950 + k)
                                                   for k in range(rng.randint(1, 3))]}]
        return case

    # ------------------------------------------------------------------ implementation
    def setup(self):
        import jade.events as je
        self._je = je
        self._saved_dt = je.datetime
        je.datetime = FakeDatetime

    def teardown(self):
        self._je.datetime = self._saved_dt
        from jade.loggers import close_event_logging
        close_event_logging()
        lg = logging.getLogger("_jade_event")
        for h in list(lg.handlers):
            lg.removeHandler(h)

    def _write(self, path, events, mode="w"):
        from jade.events import StructuredLogEvent, StructuredErrorLogEvent
        from jade.loggers import setup_event_logging, log_event, close_event_logging
        setup_event_logging(str(path), mode=mode)
        try:
            for ev in events:
                cls = StructuredErrorLogEvent if ev["cls"] == "StructuredErrorLogEvent" else StructuredLogEvent
                kwargs = dict(ev["data"])
                if ev.get("clock"):
                    FakeDatetime.script = [_dt.datetime.fromisoformat(ev["timestamp"])]
                else:
                    kwargs["timestamp"] = ev["timestamp"]
                event = cls(source=ev["source"], category=ev["category"], name=ev["name"], message=ev["message"], **kwargs)
                log_event(event)
        finally:
            close_event_logging()

    @staticmethod
    def _out_event(e):
        return {"name": e.name, "timestamp": e.timestamp,
                "payload": {"source": e.source, "category": e.category, "message": e.message,
                            "event_class": e.event_class, "data": e.data}}

    def impl(self, case):
        from jade.events import EventsSummary
        key = canon(case)
        with scratch_dir() as out:
            for f in case["files"] + case.get("decoys", []):
                self._write(out / f["file"], f["events"])
            probe = EventsSummary.__new__(EventsSummary)
            probe._output_dir = str(out)
            order = [p.name for p in probe._iter_event_files()]
            with quiet():
                s1 = EventsSummary(str(out))
                flat = json.loads(s1.to_json())
                names1 = list(dict.fromkeys(e["name"] for e in flat))
                first = [[n, [self._out_event(e) for e in s1.list_events(n)]] for n in names1]
                absent = [self._out_event(e) for e in s1.list_events(case["absent"])]
                parquet = sorted(p.stem for p in (out / "events").iterdir() if p.suffix == ".parquet")
            for f in case.get("later", []):  # not under quiet(): it disables logging, i.e. log_event
                self._write(out / f["file"], f["events"])
            order2 = [p.name for p in probe._iter_event_files()]
            with quiet():
                s2 = EventsSummary(str(out), preload=True)
                names2 = sorted(n[:-len(".json")] for n in s2.list_unique_names())
                second = [[n, [self._out_event(e) for e in s2.list_events(n)]] for n in names2]
                s3 = EventsSummary(str(out))
                names3 = sorted(n[:-len(".json")] for n in s3.list_unique_names())
                lazy = [[n, [self._out_event(e) for e in s3.list_events(n)]] for n in names3]
        self._order[key] = (order, order2)
        # JSON-normalise (tuples etc.) so that both sides are plain JSON values
        return json.loads(json.dumps({"first": first, "parquet": parquet, "second": second, "lazy": lazy, "absent": absent}))

    def _orders(self, case):
        key = canon(case)
        if key not in self._order:
            self.setup()
            try:
                self.impl(case)
            finally:
                self.teardown()
        return self._order[key]

    def model_case(self, case):
        order, order2 = self._orders(case)
        by = {f["file"]: f for f in case["files"] + case.get("decoys", [])}
        files = [[model_event(e) for e in by[n]["events"]] for n in order if n in by]
        lat = {f["file"]: f for f in case.get("later", [])}
        later = [[model_event(e) for e in lat[n]["events"]] for n in order2 if n in lat]
        return {"op": case["op"], "files": files, "later": later, "absent": case["absent"]}

    # ------------------------------------------------------------------ direct oracle
    def oracle(self, case, result):
        v = []
        if not isinstance(result, dict) or "first" not in result:
            return [Violation("C20", "events.crash", f"EventsSummary failed on well-formed event logs: {result!r}")]
        written = [f for f in case["files"] if fnmatch.fnmatchcase(f["file"], "*events.log")]
        allev = [model_event(e) for f in written for e in f["events"]]
        exp = collections.defaultdict(list)
        for e in allev:
            exp[e["name"]].append(e)
        got = {n: evs for n, evs in result["first"]}
        if len(got) != len(result["first"]):
            v.append(Violation("C20", "events.names", "an event name is listed twice in the summary"))
        exp_json = {n for n in exp if n not in RESOURCE}
        if set(got) != exp_json:
            v.append(Violation("C20", "events.names", f"names in the summary {sorted(got)} differ from the names written {sorted(exp_json)}"))
        if result["parquet"] != sorted(n for n in exp if n in RESOURCE):
            v.append(Violation("C20", "events.parquet", f"resource-stat tables {result['parquet']} differ from the resource-stat names written"))
        order = self._order.get(canon(case), (None, None))[0]
        rank = {n: i for i, n in enumerate(order)} if order else None
        for n in sorted(exp_json):
            g = got.get(n, [])
            ce, cg = collections.Counter(canon(e) for e in exp[n]), collections.Counter(canon(e) for e in g)
            lost, extra = ce - cg, cg - ce
            if lost:
                v.append(Violation("C20", "events.lost", f"{sum(lost.values())} event(s) named {n!r} written to the logs are missing (or altered) in the summary, e.g. {next(iter(lost))}"))
            if extra:
                v.append(Violation("C20", "events.extra", f"{sum(extra.values())} event(s) named {n!r} in the summary were never written (duplicated or altered), e.g. {next(iter(extra))}"))
            ts = [e["timestamp"] for e in g]
            if any(a > b for a, b in zip(ts, ts[1:])):
                v.append(Violation("C20", "events.unsorted", f"events named {n!r} are not in timestamp order: {ts}"))
            elif not lost and not extra:
                # stability: equal timestamps keep file/line order
                for t in set(ts):
                    grp = [canon(e) for e in g if e["timestamp"] == t]
                    if rank is not None:
                        src_grp = [canon(model_event(e)) for f in sorted(written, key=lambda f: rank.get(f["file"], 99))
                                   for e in f["events"] if e["name"] == n and e["timestamp"] == t]
                        if grp != src_grp:
                            v.append(Violation("C20", "events.unstable", f"events named {n!r} with equal timestamp {t!r} do not keep their file/line order"))
                            break
        if not case.get("later"):
            for which in ("second", "lazy"):
                again = {n: evs for n, evs in result[which]}
                if again != got:
                    v.append(Violation("C20", "events.not_idempotent", f"constructing the summary again ({which}) changed it"))
        if result["absent"] != []:
            v.append(Violation("C20", "events.absent", "events reported for a name that was never written"))
        return v

    def tags(self, case, result):
        n = sum(len(f["events"]) for f in case["files"])
        if n == 0:
            return ["trivial.noEvents"]
        t = ["events.consolidate", f"events.files={len(case['files'])}"]
        names = {e["name"] for f in case["files"] for e in f["events"]}
        t.append(f"events.names={min(len(names), 4)}")
        keys = collections.Counter((e["name"], e["timestamp"]) for f in case["files"] for e in f["events"])
        if any(c > 1 for c in keys.values()):
            t.append("events.dupTimestamps")
        perfile = [collections.Counter((e["name"], e["timestamp"]) for e in f["events"]) for f in case["files"]]
        if any(sum(1 for pf in perfile if k in pf) > 1 for k in keys):
            t.append("events.dupAcrossFiles")
        if names & set(RESOURCE):
            t.append("events.resourceStat")
        if case.get("later"):
            t.append("events.later")
        if case.get("decoys"):
            t.append("events.decoy")
        if any(e["cls"] != "StructuredLogEvent" for f in case["files"] for e in f["events"]):
            t.append("events.errorEvent")
        if any(e.get("clock") for f in case["files"] for e in f["events"]):
            t.append("events.clockTimestamp")
        if any(e["timestamp"] in ODD_TS for f in case["files"] for e in f["events"]):
            t.append("events.oddTimestamp")
        if n >= 20:
            t.append("events.n>=20")
        return t

    def shrink(self, case):
        out = []
        for key in ("later", "decoys"):
            if case.get(key):
                c = dict(case)
                c[key] = []
                out.append(c)
        for i in range(len(case["files"])):
            if len(case["files"]) > 1:
                c = dict(case)
                c["files"] = case["files"][:i] + case["files"][i + 1:]
                out.append(c)
        for i, f in enumerate(case["files"]):
            n = len(f["events"])
            cuts = [(0, n // 2), (n // 2, n)] if n > 3 else []
            cuts += [(k, k + 1) for k in range(n)]
            for a, b in cuts:
                c = dict(case)
                c["files"] = list(case["files"])
                c["files"][i] = {"file": f["file"], "events": f["events"][:a] + f["events"][b:]}
                out.append(c)
        for i, f in enumerate(case["files"]):
            for k, e in enumerate(f["events"]):
                if e["name"] not in RESOURCE and set(e["data"]) - {"uid", "exception"}:
                    c = dict(case)
                    c["files"] = list(case["files"])
                    ne = dict(e)
                    ne["data"] = {kk: vv for kk, vv in e["data"].items() if kk in ("uid", "exception")}
                    c["files"][i] = {"file": f["file"], "events": f["events"][:k] + [ne] + f["events"][k + 1:]}
                    out.append(c)
        return out


SUITE = EventsSuite()
