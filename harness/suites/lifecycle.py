"""Suite `lifecycle` (C16): lifecycle commands of whole submissions, REAL code vs Model/Lifecycle.lean.

A case = scenario (jobs, groups, which of the four commands are set, their return codes, local/HPC) + plan (user
commands issued over the history: resubmissions after a completion, a cancel, try-submits at quiescence) + seed of the
schedule.  The real entry points (`run_submit_jobs`, `jade-internal run-jobs`, `try-submit-jobs`, `resubmit-jobs`,
`cancel-jobs`) run as virtual processes of harness/vcluster.py (fake subprocess boundary: the commands are logged with
the environment they were given).  On top of vcluster's observation wrappers this suite records the begin/end of every
call of `JobSubmitter.submit_jobs` and the return value of `HpcSubmitter.run`.

Correspondence: the history is cut into the calls of `submit_jobs` (in the order they happen — they are serialised by
the submitter role) and the node processes; for each, the environment's choices (entry point, batches handed to sbatch,
completion reported or not, rows listed, the node's queue run, return codes) go to the Lean driver, which interprets
the programs generated from the source; the projected event sequence of each call / node (commands with environment
and return code, sbatch, job starts, result rows, summary, flag, the node's try-submit, exception) must be equal.  What
is legitimately schedule dependent (interleaving of different processes) is not compared: per-call and per-node
projections only.

Direct oracle (independent of Lean): the text of C16 on the global event order.
"""
import json
import multiprocessing
import os
import random
import sys
import traceback

from common import Suite, Violation, scratch_dir
from jadeenv import jid

HOOKS = ("setup", "teardown", "node_setup", "node_teardown")
SUBMIT_SIDE = ("setup", "teardown")
MAX_OPS = 1200
MAX_USER_TRYSUBMITS = 10
ENTRY = {"submit": "submitJobs", "trysubmit": "trySubmit", "resubmit": "resubmit"}


# ----------------------------------------------------------------------------------------------
# generation
# ----------------------------------------------------------------------------------------------
def gen_scenario(rng, idx):
    n = rng.choice([1, 2, 2, 3, 3, 4, 4, 5, 6])
    ng = rng.choice([1, 1, 1, 2])
    groups = []
    for _ in range(ng):
        groups.append({"batchSize": rng.choice([1, 1, 2, 2, 3]), "timeBased": False, "tryAdd": rng.random() < .5, "wallSec": 6000,
                       "procs": rng.choice([1, 2, 3, None]), "dryRun": False})
    p = rng.choice([.0, .2, .4, .6])
    order = list(range(n))
    rng.shuffle(order)
    pos = {j: i for i, j in enumerate(order)}
    jobs = []
    for k in range(n):
        blockers = sorted(b for b in range(n) if b != k and pos[b] < pos[k] and rng.random() < p)
        jobs.append({"id": k, "group": rng.randrange(ng), "est": rng.choice([1, 5, 10, 30]), "blockers": blockers,
                     "cancel": rng.random() < .5, "rc": 0 if rng.random() < .6 else rng.randint(1, 255)})
    sc = {"jobs": jobs, "groups": groups, "maxNodes": rng.choice([1, 2, 2, 3, None]), "cpus": rng.choice([1, 2, 4])}
    # all 16 set/unset combinations in turn
    mask = idx % 16 if rng.random() < .7 else rng.randrange(16)
    sc["lifecycle"] = {k: f"hook {k}" for i, k in enumerate(HOOKS) if mask >> i & 1}
    rcs = {}
    for k in HOOKS:
        r = rng.random()
        # a failing setup / node setup aborts (check_run_command): keep those rarer so that most histories get far
        lim = .12 if k in ("setup", "node_setup") else .35
        if r < lim:
            rcs[k] = rng.choice([1, 2, 3, 127, 255])
    sc["hook_rc"] = rcs
    if idx % 3 == 2:
        sc["local"] = True
        sc["groups"] = sc["groups"][:1]
        for j in jobs:
            j["group"] = 0
    return sc


def gen_plan(rng, sc):
    plan = {"resubmits": [], "cancel_at": None}
    if sc.get("local"):
        return plan
    for _ in range(rng.choice([0, 0, 1, 1, 2])):
        plan["resubmits"].append(rng.choice([[True, True, False], [True, True, False], [True, False, False], [False, True, False], [False, False, True], [True, True, True]]))
    if rng.random() < .15:
        plan["cancel_at"] = rng.randrange(4, 60)
    return plan


# ----------------------------------------------------------------------------------------------
# one history
# ----------------------------------------------------------------------------------------------
class Run:
    def __init__(self, case, outdir):
        from vcluster import VCluster
        self.case = case
        self.sc = case["sc"]
        self.plan = case.get("plan") or {"resubmits": [], "cancel_at": None}
        self.rng = random.Random(case["seed"])
        self.vc = VCluster(self.sc, os.path.join(outdir, "out"), hook_rc=self.sc.get("hook_rc"))
        self.ops = []
        self.checks = []
        self.user_trysubmits = 0
        self.resubmits_done = 0
        self.cancel_done = False
        self.style = self.rng.choice(["uniform", "nodes", "submitters", "bursty"])
        self.last = None

    def bad(self, key, msg):
        if (key, msg) not in self.checks:
            self.checks.append((key, msg))

    # ------------------------------------------------------------------ extra observation (calls the original)
    def observe(self):
        import jade.jobs.job_submitter as js
        import jade.hpc.hpc_submitter as hs
        vc = self.vc

        def patch(obj, name, val):
            vc._patched.append((obj, name, getattr(obj, name, None), hasattr(obj, name)))
            setattr(obj, name, val)

        orig_submit = js.JobSubmitter.submit_jobs

        def submit_jobs(self_, cluster, force_local=False):
            pid = vc.cur().pid
            vc.log("round_begin", pid, bool(self_._is_new), bool(force_local))
            try:
                r = orig_submit(self_, cluster, force_local=force_local)
            except BaseException as e:  # noqa
                vc.log("round_end", pid, None, type(e).__name__)
                raise
            vc.log("round_end", pid, getattr(r, "name", str(r)), None)
            return r
        patch(js.JobSubmitter, "submit_jobs", submit_jobs)
        orig_run = hs.HpcSubmitter.run

        def run(self_):
            r = orig_run(self_)
            vc.log("hpcrun", vc.cur().pid, bool(r))
            return r
        patch(hs.HpcSubmitter, "run", run)

    # ------------------------------------------------------------------ schedule
    def menu(self):
        vc = self.vc
        m = []
        for p in vc.live():
            if vc.enabled(p.pid):
                w = 1.0
                if self.style == "nodes" and p.kind == "node":
                    w = 4.0
                if self.style == "submitters" and p.kind != "node":
                    w = 4.0
                if self.style == "bursty" and self.last == ("step", p.pid):
                    w = 6.0
                m.append((w, ["step", p.pid]))
        for h, b in vc.slurm.items():
            if b["state"] == "pending":
                m.append((1.5, ["startbatch", h]))
        for i, jp in enumerate(vc.jobprocs):
            if jp.exited is None and jp.returncode is None and vc.procs[jp.node].state == "ready":
                m.append((2.0, ["jobexit", i]))
        return m

    def apply(self, op):
        vc = self.vc
        k = op[0]
        self.ops.append(op)
        self.last = tuple(op[:2])
        if k == "step":
            vc.step(op[1])
        elif k == "startbatch":
            vc.start_batch(op[1])
        elif k == "jobexit":
            vc.job_exit(vc.jobprocs[op[1]])
        elif k == "spawn":
            vc.step_no += 1
            vc.spawn_user(op[1], *op[2:])

    def choose(self, menu):
        tot = sum(w for w, _ in menu)
        x = self.rng.random() * tot
        for w, op in menu:
            x -= w
            if x <= 0:
                return op
        return menu[-1][1]

    def quiescent_action(self):
        """nothing is enabled: the user command the plan issues next (None = the history ends here)"""
        vc = self.vc
        if self.sc.get("local") or vc.live():
            return None
        st = vc.read_status()
        if st is None:
            return None
        if st["complete"]:
            if self.resubmits_done < len(self.plan["resubmits"]):
                flags = self.plan["resubmits"][self.resubmits_done]
                self.resubmits_done += 1
                return ["spawn", "resubmit"] + list(flags)
            return None
        if self.user_trysubmits >= MAX_USER_TRYSUBMITS:
            return None
        self.user_trysubmits += 1
        return ["spawn", "trysubmit"]

    def maybe_cancel(self):
        at = self.plan.get("cancel_at")
        vc = self.vc
        if at is None or self.cancel_done or len(self.ops) < at:
            return None
        # user commands are issued against an existing submission: only after submit-jobs has returned
        if not vc.procs or vc.procs[1].state == "ready":
            return None
        st = vc.read_status()
        if st is None or st["complete"]:
            return None
        self.cancel_done = True
        return ["spawn", "cancel", True]

    def explore(self):
        self.apply(["spawn", "submit", True] if self.sc.get("local") else ["spawn", "submit"])
        while len(self.ops) < MAX_OPS:
            c = self.maybe_cancel()
            if c is not None:
                self.apply(c)
                continue
            menu = self.menu()
            if not menu:
                a = self.quiescent_action()
                if a is None:
                    break
                self.apply(a)
                continue
            self.apply(self.choose(menu))

    def replay(self, ops):
        vc = self.vc
        for op in ops:
            try:
                if op[0] == "step" and not (op[1] in vc.procs and vc.enabled(op[1])):
                    continue
                if op[0] == "startbatch" and vc.slurm.get(op[1], {}).get("state") != "pending":
                    continue
                if op[0] == "jobexit" and (op[1] >= len(vc.jobprocs) or vc.jobprocs[op[1]].exited is not None):
                    continue
                if op[0] == "spawn" and op[1] == "resubmit":
                    self.resubmits_done += 1
                if op[0] == "spawn" and op[1] == "cancel":
                    self.cancel_done = True
                if op[0] == "spawn" and op[1] == "trysubmit":
                    self.user_trysubmits += 1
                self.apply(list(op))
            except KeyError:
                continue
        while len(self.ops) < MAX_OPS:
            menu = self.menu()
            if not menu:
                a = self.quiescent_action()
                if a is None:
                    break
                self.apply(a)
                continue
            self.apply(menu[0][1])

    def run(self):
        vc = self.vc
        vc.install()
        try:
            self.observe()
            if "ops" in self.case:
                self.replay(self.case["ops"])
            else:
                self.explore()
            proj = self.project()
            self.oracle(proj)
        finally:
            vc.uninstall()
        return self.result(proj)

    # ------------------------------------------------------------------ projection
    def batch_group(self, pid, batch):
        if self.sc.get("local"):
            return "g0"
        x = next((x for x in self.vc.slurm.values() if x["node"] == pid), None)
        if x is None or not x["jobs"]:
            return None
        return f"g{self.sc['jobs'][x['jobs'][0][0]]['group']}"

    def hook_ev(self, e, group):
        _, _, pid, name, jro, jsg, kind, batch = e[:8]
        env = []
        if jro is not None:
            env.append("JADE_RUNTIME_OUTPUT" if jro == self.vc.out else f"JADE_RUNTIME_OUTPUT={jro}")
        if jsg is not None:
            env.append("JADE_SUBMISSION_GROUP" if jsg == group else f"JADE_SUBMISSION_GROUP={jsg}")
        return ["hook", name, env, int(self.sc.get("hook_rc", {}).get(name, 0))]

    def project(self):
        """cut the trace into calls of submit_jobs and node processes"""
        vc, sc = self.vc, self.sc
        tr = vc.trace
        local = bool(sc.get("local"))
        kinds = {p.pid: p.kind for p in vc.procs.values()}
        rounds, open_round = [], {}
        nodes = {}
        for p in vc.procs.values():
            if p.kind == "node":
                nodes[p.pid] = {"pid": p.pid, "batch": p.batch, "events": [], "queue": [], "err": None, "exit": None,
                                "state": p.state, "trysubmit": 0}
        for e in tr:
            k, pid = e[1], e[2] if len(e) > 2 else None
            if k == "round_begin":
                r = {"pid": pid, "kind": kinds.get(pid), "is_new": e[3], "local": e[4], "events": [], "queue": [], "batches": [],
                     "hpc": None, "rows": [], "err": None, "ended": False, "t0": e[0]}
                open_round[pid] = r
                rounds.append(r)
                continue
            if k == "round_end":
                r = open_round.pop(pid, None)
                if r is not None:
                    r["ended"] = True
                    r["err"] = e[4]
                continue
            if k == "spawn" and e[3] == "trysubmit":
                par = vc.procs[pid].parent
                if par in nodes:
                    nodes[par]["events"].append(["trySubmit"])
                    nodes[par]["trysubmit"] += 1
                continue
            if k == "procexit":
                if pid in nodes:
                    nodes[pid]["exit"] = e[4]
                    nodes[pid]["err"] = e[5].split(":")[0] if e[5] else None
                continue
            if pid in nodes and k in ("hook", "start", "row"):
                n = nodes[pid]
                if k == "hook":
                    n["events"].append(self.hook_ev(e, self.batch_group(pid, n["batch"])))
                elif k == "start":
                    n["events"].append(["start", n["batch"], jid(e[4])])
                    n["queue"].append(["start", jid(e[4])])
                elif k == "row" and e[3].startswith("results_batch_"):
                    n["events"].append(["row", n["batch"], jid(e[4][0])])
                    n["queue"].append(["row", jid(e[4][0])])
                continue
            r = open_round.get(pid)
            if r is None:
                continue
            if k == "hook":
                r["events"].append(self.hook_ev(e, "g0" if local else None))
            elif k == "sbatch" and e[4] is not None:
                r["events"].append(["sbatch", e[3]])
                r["batches"].append(e[3])
            elif k == "hpcrun":
                r["hpc"] = e[3]
            elif k == "summary":
                rows = sorted(x[0] for x in e[4])
                r["rows"] = rows
                r["events"].append(["summary", rows, sorted(e[3])])
            elif k == "markcomplete":
                r["events"].append(["flag"])
            elif k == "nextstage":
                r["events"].append(["nextStage"])
            elif k == "report":
                pass
            elif local and k == "start":
                r["events"].append(["start", 0, jid(e[4])])
                r["queue"].append(["start", jid(e[4])])
            elif local and k == "row" and e[3].startswith("results_batch_"):
                r["events"].append(["row", 0, jid(e[4][0])])
                r["queue"].append(["row", jid(e[4][0])])
            elif local and k == "collect":
                r["events"].append(["collect"])
        return {"rounds": rounds, "nodes": [nodes[k] for k in sorted(nodes)]}

    # ------------------------------------------------------------------ the property, stated on the observed events
    def oracle(self, proj):
        vc, sc = self.vc, self.sc
        tr = vc.trace
        life = sc.get("lifecycle", {})
        rcs = sc.get("hook_rc", {})
        local = bool(sc.get("local"))
        n = len(sc["jobs"])
        hooks = [e for e in tr if e[1] == "hook"]
        pos = {id(e): i for i, e in enumerate(tr)}

        def named(name):
            return [e for e in hooks if e[3] == name]

        # -- documented environment variables
        for e in hooks:
            _, _, pid, name, jro, jsg, kind, batch = e[:8]
            if jro != vc.out:
                self.bad("hook.env", f"the {name} command ran with JADE_RUNTIME_OUTPUT={jro!r}, expected the output directory {vc.out!r}")
            if name in ("node_setup", "node_teardown"):
                g = self.batch_group(pid, batch)
                if g is not None and jsg != g:
                    self.bad("hook.env", f"the {name} command of batch {batch} ran with JADE_SUBMISSION_GROUP={jsg!r}, expected {g!r}")
        for name in HOOKS:
            if name not in life and named(name):
                self.bad("hook.unconfigured", f"a {name} command ran although none is configured")
        # -- setup: once, on the submitting host, before any batch is handed to the HPC (before any job starts)
        if "setup" in life:
            s = named("setup")
            if len(s) != 1:
                self.bad("setup.count", f"the setup command ran {len(s)} times over the history ({self.history_desc()})")
            for x in s:
                if x[6] != "submit":
                    self.bad("setup.where", f"the setup command ran in a {x[6]} process, not in submit-jobs")
            if s:
                first = pos[id(s[0])]
                early = [e for e in tr[:first] if e[1] in ("sbatch", "start")]
                if early:
                    self.bad("setup.late", f"{early[0][1]} happened before the setup command ran")
            else:
                if any(e[1] in ("sbatch", "start") for e in tr):
                    self.bad("setup.late", "batches were handed to the HPC / jobs started although the setup command never ran")
        # -- teardown: exactly once per completion, after the summary (every job has an outcome or is reported
        #    missing), before the flag, whatever the jobs' results
        flags = [e for e in tr if e[1] == "markcomplete"]
        tds = named("teardown")
        used = set()
        for m in flags:
            pid = m[2]
            summ = [e for e in tr[:pos[id(m)]] if e[1] == "summary" and e[2] == pid]
            if not summ:
                continue   # C05's business
            s = summ[-1]
            between = [e for e in tds if e[2] == pid and pos[id(s)] < pos[id(e)] < pos[id(m)]]
            used |= {id(e) for e in between}
            if "teardown" in life and len(between) != 1:
                self.bad("teardown.count", f"the teardown command ran {len(between)} times between the results summary and the completion flag "
                                           f"(results: {self.outcome_desc(s)})")
            accounted = {x[0] for x in s[4]} | set(s[3])
            if "teardown" in life and accounted != set(range(n)):
                self.bad("teardown.unaccounted", f"completion (and teardown) although jobs {sorted(set(range(n)) - accounted)} have neither a result nor are reported missing")
        for e in tds:
            if id(e) not in used:
                pid = e[2]
                after_flag = any(m[2] == pid and pos[id(m)] < pos[id(e)] for m in flags)
                before_summary = not any(x[1] == "summary" and x[2] == pid and pos[id(x)] < pos[id(e)] for x in tr)
                if before_summary:
                    self.bad("teardown.early", "the teardown command ran before the results summary was written (not every job had an outcome)")
                elif after_flag:
                    self.bad("teardown.after_flag", "the teardown command ran after the completion flag was set")
                else:
                    self.bad("teardown.no_flag", "the teardown command ran but the completion flag was not set afterwards")
        # a summary without a flag: something between them (teardown!) prevented the completion
        for r in proj["rounds"]:
            evs = [x[0] for x in r["events"]]
            if "summary" in evs and "flag" not in evs and (r["ended"] or vc.procs[r["pid"]].state == "exited"):
                self.bad("teardown.blocks_completion", f"the results summary was written but the submission was not flagged complete (call ended with {r['err']})")
        # -- per batch: node setup before any job starts, node teardown after all ended, once each; results recorded
        units = []
        for nd in proj["nodes"]:
            hb = next((x for x in vc.slurm.values() if x["node"] == nd["pid"]), None)
            units.append((nd, [k for k, _ in hb["jobs"]] if hb else [], nd["state"] == "exited" and nd["exit"] == 0 and not nd["err"], nd["state"] == "exited"))
        if local:
            for r in proj["rounds"]:
                units.append(({"pid": r["pid"], "batch": 0, "events": r["events"], "err": r["err"]}, list(range(n)), r["ended"] and not r["err"], r["ended"]))
        rows_on_disk = {x[1] for x in vc.read_rows()}
        for nd, bjobs, finished_ok, ended in units:
            b = nd["batch"]
            evs = nd["events"]
            idx_start = [i for i, x in enumerate(evs) if x[0] == "start"]
            idx_row = [i for i, x in enumerate(evs) if x[0] == "row"]
            ns = [i for i, x in enumerate(evs) if x[0] == "hook" and x[1] == "node_setup"]
            nt = [i for i, x in enumerate(evs) if x[0] == "hook" and x[1] == "node_teardown"]
            ns_failed = "node_setup" in life and rcs.get("node_setup", 0) != 0
            if local and "setup" in life and rcs.get("setup", 0) != 0:
                ns_failed = True     # local mode: a failing setup command aborts the same call before the runner exists
            if "node_setup" in life:
                if len(ns) > 1 or ((idx_start or idx_row or finished_ok) and len(ns) != 1):
                    self.bad("node_setup.count", f"the node setup command ran {len(ns)} times for batch {b}")
                if ns and (idx_start + idx_row) and ns[0] > min(idx_start + idx_row):
                    self.bad("node_setup.late", f"the node setup command of batch {b} ran after a job of the batch had started")
            if "node_teardown" in life:
                if len(nt) > 1 or (finished_ok and len(nt) != 1):
                    self.bad("node_teardown.count", f"the node teardown command ran {len(nt)} times for batch {b} (the node ran to its end: {finished_ok})")
                if nt:
                    if any(i > nt[0] for i in idx_start + idx_row):
                        self.bad("node_teardown.early", f"the node teardown command of batch {b} ran before all jobs of the batch had ended")
                    done = {x[2] for x in evs[:nt[0]] if x[0] == "row"}
                    left = [k for k in bjobs if k not in done]
                    if left:
                        self.bad("node_teardown.early", f"the node teardown command of batch {b} ran while jobs {left} of the batch had no result yet")
            if finished_ok:
                lost = [k for k in bjobs if k not in rows_on_disk and not self.resubmitted_later(nd["pid"])]
                if lost:
                    self.bad("hooks.block_rows", f"the node of batch {b} ran to its end but jobs {lost} have no recorded result")
                if not local and not any(x[0] == "trySubmit" for x in evs):
                    self.bad("hooks.block_trysubmit", f"the node of batch {b} ran to its end without invoking try-submit-jobs")
            if ended and not finished_ok and not ns_failed and life:
                # no fault is injected in this suite: without a failing node setup the only thing that can make a node end
                # with an error is a lifecycle command
                self.bad("hooks.node_error", f"the node of batch {b} ended with {nd['err']} although its node setup command did not fail")
        # -- at the end: with no aborting command and no cancel, every job's result is in the final summary
        st = vc.read_status() if not local else None
        complete = bool(st and st["complete"])
        aborting = any(k in life and rcs.get(k, 0) != 0 for k in ("setup", "node_setup"))
        if not aborting and not self.cancel_done and (complete or local):
            try:
                res = json.load(open(os.path.join(vc.out, "results.json")))
            except Exception:
                res = None
            if res is None:
                self.bad("hooks.results_missing", "the history ended without results.json although no command aborted it")
            elif res["missing_jobs"]:
                self.bad("hooks.results_missing", f"jobs {sorted(res['missing_jobs'])} are reported missing in the final summary although every batch ran to its end")

    def resubmitted_later(self, pid):
        """rows of a batch may legitimately be erased by a later resubmission"""
        tr = self.vc.trace
        t = next((e[0] for e in tr if e[1] == "procexit" and e[2] == pid), None)
        return t is not None and any(e[1] == "spawn" and e[3] == "resubmit" and e[0] > t for e in tr)

    def history_desc(self):
        ks = [op[1] for op in self.ops if op[0] == "spawn"]
        return "user commands: " + ", ".join(ks)

    def outcome_desc(self, s):
        rows = s[4]
        ok = sum(1 for x in rows if x[1] == 0)
        return f"{ok} passed, {len(rows) - ok} failed or canceled, {len(s[3])} missing"

    # ------------------------------------------------------------------ result
    def result(self, proj):
        sc = self.sc
        life = sc.get("lifecycle", {})
        cfg = {k: (k in life) for k in HOOKS}
        rc = {k: int(v) for k, v in sc.get("hook_rc", {}).items()}
        local = bool(sc.get("local"))
        mrounds, vrounds = [], []
        for r in proj["rounds"]:
            entry = ENTRY.get(r["kind"], "trySubmit")
            m = {"entry": entry, "local": bool(r["local"]), "batches": r["batches"], "hpcComplete": bool(r["hpc"]), "rows": r["rows"], "rc": rc}
            if local:
                m.update(queue=r["queue"], batch=0, localInputs=True)
            mrounds.append(m)
            vrounds.append({"trace": r["events"], "err": _err(r["err"]), "partial": not r["ended"]})
        mnodes, vnodes = [], []
        for nd in proj["nodes"]:
            mnodes.append({"batch": nd["batch"], "queue": nd["queue"], "rc": rc, "distributed": True, "localInputs": False})
            vnodes.append({"trace": nd["events"], "err": _err(nd["err"]), "partial": nd["state"] != "exited"})
        kinds = {}
        for e in self.vc.trace:
            kinds[e[1]] = kinds.get(e[1], 0) + 1
        obs = {"checks": self.checks, "ops": self.ops, "n_ops": len(self.ops), "events": kinds,
               "rounds": len(proj["rounds"]), "nodes": len(proj["nodes"]), "completions": kinds.get("markcomplete", 0),
               "resubmits": self.resubmits_done, "cancel": self.cancel_done, "user_trysubmits": self.user_trysubmits,
               "hooks_run": sorted({e[3] for e in self.vc.trace if e[1] == "hook"}),
               "errors": [e[5] for e in self.vc.trace if e[1] == "procexit" and e[5]][:4],
               "unknown_ext": [list(e[3]) for e in self.vc.trace if e[1] == "unknown_ext"][:3]}
        mcase = {"op": "lifecycle.history", "cfg": cfg, "jobs": list(range(len(sc["jobs"]))), "rounds": mrounds, "nodes": mnodes}
        return {"model": {"rounds": vrounds, "nodes": vnodes}, "obs": obs, "mcase": mcase}


def _err(name):
    if not name:
        return None
    from common import err_enum
    return err_enum(type(name, (Exception,), {})())


def _run_case(case):
    try:
        with scratch_dir("jadelc-") as d:
            return Run(case, str(d)).run()
    except Exception as e:  # noqa
        return {"harness_exception": f"{type(e).__name__}: {e}", "tb": traceback.format_exc()[-1500:]}


class LifecycleSuite(Suite):
    name = "lifecycle"
    case_timeout = 120

    def cases(self, rng, tier, prop):
        n = {"quick": 160, "thorough": 3000}[tier]
        out = []
        for i in range(n):
            sc = gen_scenario(rng, i)
            out.append({"op": "lifecycle.history", "sc": sc, "plan": gen_plan(rng, sc), "seed": rng.randrange(1 << 30)})
        return out

    def impl(self, case):
        return _run_case(case)

    def impl_many(self, cases):
        if not cases:
            return []
        workers = min(14, max(1, (os.cpu_count() or 2) - 2))
        ctx = multiprocessing.get_context("fork")
        with ctx.Pool(workers, maxtasksperchild=25) as pool:
            return pool.map(_run_case, cases, chunksize=2)

    def view(self, result):
        return result.get("model")

    def model_from_result(self, case, result):
        if "mcase" not in result:
            return {"op": "lifecycle.history", "cfg": {}, "jobs": [], "rounds": [], "nodes": []}
        return result["mcase"]

    def agree(self, model, result):
        return not self.diff(model, result)

    def diff(self, model, result):
        v = result.get("model")
        if v is None:
            return []
        if "driver_error" in model:
            return [f"driver: {model['driver_error']}"]
        d = []
        for what in ("rounds", "nodes"):
            if len(model[what]) != len(v[what]):
                d.append(f"{what}: model {len(model[what])} observed {len(v[what])}")
                continue
            for i, (m, o) in enumerate(zip(model[what], v[what])):
                if o["partial"]:
                    # the process was killed (scancel) or never ended: what it did must be a prefix of the model's trace
                    if m["trace"][:len(o["trace"])] != o["trace"]:
                        d.append(f"{what}[{i}] (killed): observed {o['trace']} is not a prefix of the model's {m['trace']}")
                elif m["trace"] != o["trace"] or m["err"] != o["err"]:
                    d.append(f"{what}[{i}]: model {m} observed {o}")
        return d

    def oracle(self, case, result):
        if "harness_exception" in result or "obs" not in result:
            return []
        return [Violation("C16", k, m) for k, m in result["obs"]["checks"]]

    def tags(self, case, result):
        if "obs" not in result:
            return []
        o = result["obs"]
        sc = case["sc"]
        life = sc.get("lifecycle", {})
        t = ["mode.local" if sc.get("local") else "mode.hpc", "hooks." + "".join("1" if k in life else "0" for k in HOOKS)]
        for k in HOOKS:
            if k in o["hooks_run"]:
                t.append(f"ran.{k}")
            if k in life and sc.get("hook_rc", {}).get(k, 0) != 0 and k in o["hooks_run"]:
                t.append(f"failed.{k}")
        if o["nodes"] >= 2:
            t.append("batches>=2")
        if o["completions"] >= 2:
            t.append("completions>=2")
        elif o["completions"] == 1:
            t.append("completions=1")
        else:
            t.append("trivial.no_completion")
        if o["resubmits"]:
            t.append("resubmit")
        if o["cancel"]:
            t.append("cancel")
        if o["user_trysubmits"]:
            t.append("user.trysubmit")
        if o["errors"]:
            t.append("proc.error")
        return t

    def shrink(self, case):
        sc = case["sc"]
        base = {k: v for k, v in case.items() if k != "ops"}
        # drop the plan
        plan = case.get("plan") or {}
        if plan.get("cancel_at") is not None:
            yield dict(base, plan=dict(plan, cancel_at=None))
        if plan.get("resubmits"):
            yield dict(base, plan=dict(plan, resubmits=plan["resubmits"][:-1]))
        # fewer jobs (drop the last one; it blocks nobody after renumbering only if nobody names it)
        n = len(sc["jobs"])
        if n > 1:
            k = n - 1
            if not any(k in j["blockers"] for j in sc["jobs"]):
                yield dict(base, sc=dict(sc, jobs=sc["jobs"][:-1]))
            else:
                jobs = [dict(j, blockers=[b for b in j["blockers"] if b != k]) for j in sc["jobs"][:-1]]
                yield dict(base, sc=dict(sc, jobs=jobs))
        # no dependencies, all jobs pass
        if any(j["blockers"] for j in sc["jobs"]):
            yield dict(base, sc=dict(sc, jobs=[dict(j, blockers=[]) for j in sc["jobs"]]))
        # return codes back to 0, one at a time
        for k, v in sc.get("hook_rc", {}).items():
            if v:
                yield dict(base, sc=dict(sc, hook_rc={a: b for a, b in sc["hook_rc"].items() if a != k}))
        # unset commands, one at a time
        for k in list(sc.get("lifecycle", {})):
            yield dict(base, sc=dict(sc, lifecycle={a: b for a, b in sc["lifecycle"].items() if a != k}))
        if len(sc["groups"]) > 1:
            yield dict(base, sc=dict(sc, groups=sc["groups"][:1], jobs=[dict(j, group=0) for j in sc["jobs"]]))


SUITE = LifecycleSuite()
