"""Suite `pipeline` (C15): the pipeline driver of the real code vs Model/Pipeline.lean.

op `pipeline.run` — real code driven: `jade pipeline create` (click command, in-process) to write the pipeline config,
then a generated sequence of `jade pipeline submit <cfg> -o <dir>` / `jade pipeline submit-next-stage <dir>
--stage-num=k --return-code=r` through the real click group (`jade.cli.pipeline.pipeline.main(argv)`), i.e.
PipelineManager.create/load/submit_next_stage/_submit_next_stage/_serialize/_deserialize/_run_auto_config on real files.
Faked: the auto-config commands at the subprocess boundary of jade.utils.run_command (they "produce" the stage's real
configuration file or fail), and `JobSubmitter.run_submit_jobs` inside jade.jobs.pipeline_manager (a stub that records its
arguments and the bytes of pipeline.json at that moment, and returns a scripted code).  After every call the persisted
pipeline.json, the stub invocation and the exception type are compared with the Lean driver.

op `pipeline.completion` — the glue: the REAL `JobSubmitter.run_submit_jobs` (JobSubmitter.create, Cluster.create with
pipeline_stage_num, demote) with only `JobSubmitter.submit_jobs` replaced; each stage's submission is then completed by the
real `JobSubmitter._handle_completion` on a cluster re-loaded as `try-submit-jobs` does; the `jade pipeline
submit-next-stage …` command it issues arrives at the fake subprocess, which records whether `is_complete: true` is on disk
in the stage's cluster_config.json at that moment and then executes the command through the real click group (a child
"process" with its own environment).  `local` mode: the stage runs to completion inside `submit_jobs` (what the local HPC
type does), so the whole pipeline is one nest of calls.
"""
import json
import os
import re
import shlex
from pathlib import Path

import common
from common import Suite, Violation, err_enum, quiet, scratch_dir
import jadeenv

RCS = [0, 0, 0, 1, 1, 2, -1, 255, 7]
P_DIR = "<P>"


def _view_cfg(data):
    return {"stage_num": data["stage_num"], "is_complete": data["is_complete"],
            "return_codes": [s["return_code"] for s in data["stages"]]}


class _Ctx:
    """per-case recording shared with the fakes"""

    def __init__(self, pdir):
        self.pdir = Path(pdir)
        self.outcome = {"cfgOk": True, "ret": 0}
        self.stub_calls = []
        self.auto_calls = []
        self.events = []       # completion op: next-stage commands as they arrive
        self.submissions = []  # completion op: real run_submit_jobs -> submit_jobs entries
        self.stages = []
        self.local = False
        self.job_counts = []
        self.other_cmds = []
        self.completing = None
        self.limit = 10 ** 9   # runaway guard for the nested (local-mode) runs
        self.runaway = False

    def disk(self):
        p = self.pdir / "pipeline.json"
        return p.read_bytes() if p.exists() else None

    def state(self):
        b = self.disk()
        return None if b is None else _view_cfg(json.loads(b))


CTX = None
_CFG_CACHE = {}


def stage_config_text(k, njobs):
    """JSON text of a real GenericCommandConfiguration for stage k with `njobs` jobs named s<k>j<i>"""
    key = (k, njobs)
    if key not in _CFG_CACHE:
        from jade.extensions.generic_command import GenericCommandConfiguration, GenericCommandParameters
        import tempfile
        c = GenericCommandConfiguration()
        for i in range(njobs):
            c.add_job(GenericCommandParameters(command=f"echo stage{k} job{i}", name=f"s{k}j{i}"))
        with tempfile.TemporaryDirectory() as t:
            f = os.path.join(t, "c.json")
            c.dump(f, indent=2)
            _CFG_CACHE[key] = Path(f).read_text()
    return _CFG_CACHE[key]


def _stage_of_jobs(names):
    ks = {int(m.group(1)) for m in (re.match(r"s(\d+)j\d+$", n) for n in names) if m}
    return ks.pop() if len(ks) == 1 else -1


def _stage_of_dir(path, pdir):
    p = Path(path)
    m = re.match(r"output-stage(-?\d+)$", p.name)
    if not m or p.parent != Path(pdir):
        return -1
    return int(m.group(1))


class StubSubmitter:
    """replacement of the name `JobSubmitter` inside jade.jobs.pipeline_manager (op pipeline.run)"""

    @staticmethod
    def run_submit_jobs(config, output, *args, **kwargs):
        c = CTX
        b = c.disk()
        c.stub_calls.append({
            "stage": kwargs.get("pipeline_stage_num"), "output": str(output), "extra_args": len(args),
            "kw": sorted(kwargs), "jobs": [j.name for j in config.iter_jobs()], "groups": len(config.submission_groups),
            "bytes": b, "disk": _view_cfg(json.loads(b)) if b else None,
            "stage_id_env": os.environ.get("JADE_PIPELINE_STAGE_ID"),
            "auto_before": list(c.auto_calls),
        })
        return c.outcome["ret"]


def _run_cli(argv):
    """`jade pipeline <argv>` in-process through the real click group; returns the result enum"""
    from jade.cli.pipeline import pipeline
    try:
        pipeline.main(list(argv), standalone_mode=False)
        return "returned"
    except SystemExit as e:
        if e.code in (0, None):
            return "ok"
        return "dirExists" if e.code == 1 else f"exit:{e.code}"
    except Exception as e:  # noqa
        return _res_enum(e)


def _res_enum(e):
    n = type(e).__name__
    if n == "IndexError":
        return "indexError"
    if n in ("NameError", "UnboundLocalError"):
        return "nameError"
    if CTX is not None and not CTX.pdir.exists() and n in ("ValueError", "FileNotFoundError", "OSError"):
        # submit-next-stage on a missing directory dies in setup_logging (cannot open pipeline_submit.log)
        return "noPipeline"
    return err_enum(e)


class FakeSub:
    """fake `subprocess` for jade.utils.run_command"""
    PIPE = -1

    class Popen:
        def __init__(self, command, stdout=None, stderr=None, cwd=None, **kw):
            self.command = list(command)
            self.returncode = None

        def communicate(self):
            self.returncode = FakeSub.call(self.command)
            return b"", b""

    @staticmethod
    def call(command, cwd=None, **kw):
        c = CTX
        cmd = list(command)
        if cmd and cmd[0] == "autoconfig":
            k = int(cmd[1])
            c.auto_calls.append({"stage": k, "stage_id_env": os.environ.get("JADE_PIPELINE_STAGE_ID"),
                                 "out_env": os.environ.get("JADE_PIPELINE_OUTPUT_DIR"), "disk": c.state()})
            o = c.outcome
            if not o["cfgOk"]:
                return 0 if o.get("cfgFail") == "nofile" else 3
            nj = c.job_counts[k - 1] if 0 < k <= len(c.job_counts) else 1
            Path(f"config-stage{k}.json").write_text(stage_config_text(k, nj))
            return 0
        if cmd[:3] == ["jade", "pipeline", "submit-next-stage"]:
            return FakeSub._next_stage(c, cmd)
        c.other_cmds.append(cmd)
        return 0

    @staticmethod
    def _next_stage(c, cmd):
        if len(c.events) >= c.limit:
            c.runaway = True  # a correct n-stage pipeline issues at most n commands: stop the endless re-submission here
            return 1
        flags = {}
        for p in sorted(c.pdir.glob("output-stage*/cluster_config.json")):
            d = json.loads(p.read_text())
            flags[p.parent.name] = {"is_complete": d["is_complete"], "stage": d["pipeline_stage_num"]}
        ev = {"argv": [a.replace(str(c.pdir), P_DIR) for a in cmd], "flags": flags, "before": c.state(), "res": None,
              "completing": c.completing}
        c.events.append(ev)
        # environment's behaviour for the stage this command is going to submit
        m = re.match(r"--stage-num=(-?\d+)$", cmd[4]) if len(cmd) > 4 else None
        nxt = int(m.group(1)) if m else None
        if nxt is not None and 1 <= nxt <= len(c.stages):
            c.outcome = {"cfgOk": c.stages[nxt - 1]["cfgOk"], "ret": 0}
        saved_env = dict(os.environ)
        saved_completing = c.completing
        try:
            res = _run_cli(cmd[2:])
        finally:
            os.environ.clear()
            os.environ.update(saved_env)  # a child process cannot change its parent's environment
            c.completing = saved_completing
        ev["res"] = res
        return 0 if res == "ok" else 1


class PipelineSuite(Suite):
    name = "pipeline"
    case_timeout = 10

    def setup(self):
        import jade.utils.run_command as rc
        import jade.jobs.pipeline_manager as pm
        import jade.jobs.job_submitter as js
        self._rc, self._pm, self._js = rc, pm, js
        self._saved = (rc.subprocess, rc.time, pm.JobSubmitter, js.JobSubmitter.submit_jobs, os.getcwd(), dict(os.environ))
        rc.subprocess = FakeSub
        # Everything here runs in one thread: a cluster lock that is held (only possible after the code under test
        # raised under the lock and re-created the marker) can never be released by waiting, so the 300 s wait of
        # Cluster is cut short.  On the unchanged tree no lock is ever contended.
        import jade.jobs.cluster as cl
        self._cl = cl
        self._saved_lock = cl.SoftFileLock

        class QuickLock(self._saved_lock):
            def acquire(self, timeout=None, *a, **k):
                return super().acquire(0.2, *a, **k)
        cl.SoftFileLock = QuickLock

        class _T:
            @staticmethod
            def sleep(s):
                pass

            time = staticmethod(__import__("time").time)
        rc.time = common.dual_time(_T)
        jadeenv.no_repo_info()
        os.environ.setdefault("USER", "verif")

    def teardown(self):
        global CTX
        rc, pm, js = self._rc, self._pm, self._js
        rc.subprocess, rc.time, pm.JobSubmitter, js.JobSubmitter.submit_jobs, cwd, env = self._saved
        self._cl.SoftFileLock = self._saved_lock
        os.chdir(cwd)
        os.environ.clear()
        os.environ.update(env)
        CTX = None

    # ---------------------------------------------------------------- generation
    def _outcome(self, rng, mode, pfail):
        o = {"cfgOk": True, "ret": 0}
        r = rng.random()
        if r < pfail and mode == "commands":
            o["cfgOk"] = False
            o["cfgFail"] = rng.choice(["ret", "nofile"])
        elif r < 2 * pfail:
            o["ret"] = rng.choice([1, 1, 2, -1])
        return o

    def gen_run(self, rng, maxlen=12):
        n = rng.choice([1, 2, 2, 3, 3, 3, 4, 4])
        mode = "commands" if rng.random() < .7 else "files"
        pfail = rng.choice([0, 0, .05, .1, .2])
        style = rng.choice(["walk", "walk", "walk", "noisy", "random"])
        length = rng.randint(1, maxlen)
        ops = []
        cur = None  # generator's own idea of the current stage, only to bias the choices
        for _ in range(length):
            o = self._outcome(rng, mode, pfail)
            r = rng.random()
            if cur is None:
                if r < .85 or style == "walk":
                    ops.append(dict(t="start", **o))
                    cur = 1
                else:
                    ops.append(dict(t="next", k=rng.randint(0, n + 2), rc=rng.choice(RCS), **o))
                continue
            p_good = {"walk": .8, "noisy": .45, "random": 0}[style]
            if r < p_good:
                k = cur + 1
            elif r < p_good + .04:
                ops.append(dict(t="start", **o))
                continue
            else:
                k = rng.choice([cur, cur, cur + 2, cur - 1, cur + 1, 1, 2, n + 1, n + 2, 0, -1, rng.randint(-2, n + 3)])
            ops.append(dict(t="next", k=k, rc=rng.choice(RCS), **o))
            if k == cur + 1 and cur <= n:
                cur += 1
        return {"op": "pipeline.run", "n": n, "mode": mode, "jobs": [rng.choice([1, 1, 2, 3]) for _ in range(n)], "ops": ops}

    def gen_api(self, rng):
        """API-level calls without return code (not reachable from the CLI): restart of the current stage, assertion"""
        c = self.gen_run(rng, maxlen=8)
        pos = rng.randint(0, len(c["ops"]))
        o = self._outcome(rng, c["mode"], .1)
        c["ops"].insert(pos, dict(t="raw", k=rng.choice([1, 1, 1, 2, 0, c["n"] + 1]), rc=rng.choice([None, None, 0, 1]), **o))
        c["api"] = True
        return c

    def gen_completion(self, rng):
        n = rng.choice([1, 2, 2, 3, 3, 4])
        standalone = rng.random() < .12
        local = rng.random() < .35
        stages = []
        for _ in range(n):
            nj = rng.choice([1, 2, 2, 3])
            stages.append({"numJobs": nj, "numResults": nj if rng.random() < .7 else rng.randint(0, nj - 1),
                           "cfgOk": rng.random() < .93})
        if standalone:
            stages = stages[:1]
            stages[0]["cfgOk"] = True
        return {"op": "pipeline.completion", "stages": stages, "standalone": standalone, "local": local and not standalone,
                "completions": len(stages) if (local or standalone) else rng.choice([len(stages)] * 3 + list(range(len(stages) + 1)))}

    def witness_cases(self):
        good = {"cfgOk": True, "ret": 0}
        w = [
            # 3 stages, a duplicate and an out-of-order call in between, then calls after completion
            {"op": "pipeline.run", "n": 3, "mode": "commands", "jobs": [1, 2, 1], "ops": [
                dict(t="start", **good), dict(t="next", k=2, rc=0, **good), dict(t="next", k=2, rc=1, **good),
                dict(t="next", k=4, rc=1, **good), dict(t="next", k=3, rc=1, **good), dict(t="next", k=4, rc=0, **good),
                dict(t="next", k=4, rc=0, **good), dict(t="next", k=5, rc=0, **good), dict(t="start", **good)]},
            # what is persisted when run_submit_jobs fails / the auto-config fails; the retry is refused
            {"op": "pipeline.run", "n": 3, "mode": "commands", "jobs": [1, 1, 1], "ops": [
                dict(t="start", **good), dict(t="next", k=2, rc=0, cfgOk=True, ret=1), dict(t="next", k=2, rc=0, **good),
                dict(t="next", k=3, rc=0, cfgOk=False, ret=0, cfgFail="ret"), dict(t="next", k=3, rc=0, **good),
                dict(t="next", k=4, rc=0, **good)]},
            {"op": "pipeline.run", "n": 1, "mode": "files", "jobs": [2], "ops": [
                dict(t="next", k=2, rc=0, **good), dict(t="start", cfgOk=True, ret=2), dict(t="start", **good),
                dict(t="next", k=2, rc=3, **good)]},
            # API-level restart of a running pipeline re-submits the current stage (documented hazard, not CLI-reachable)
            {"op": "pipeline.run", "n": 3, "mode": "commands", "jobs": [1, 1, 1], "api": True, "ops": [
                dict(t="start", **good), dict(t="next", k=2, rc=0, **good), dict(t="raw", k=1, rc=None, **good),
                dict(t="raw", k=2, rc=None, **good)]},
        ]
        for n in (1, 2, 3, 4):
            st = [{"numJobs": 2, "numResults": 2 if k != 1 else 1, "cfgOk": True} for k in range(n)]
            w.append({"op": "pipeline.completion", "stages": st, "standalone": False, "local": False, "completions": n})
            w.append({"op": "pipeline.completion", "stages": st, "standalone": False, "local": True, "completions": n})
        w.append({"op": "pipeline.completion", "stages": [{"numJobs": 2, "numResults": 2, "cfgOk": True}], "standalone": True,
                  "local": False, "completions": 1})
        return w

    def cases(self, rng, tier, prop):
        nrun, napi, ncomp = {"quick": (450, 40, 50), "thorough": (9000, 600, 700)}[tier]
        out = self.witness_cases()
        out += [self.gen_run(rng) for _ in range(nrun)]
        out += [self.gen_api(rng) for _ in range(napi)]
        out += [self.gen_completion(rng) for _ in range(ncomp)]
        if tier == "thorough":
            out += self.exhaustive_small()
        return out

    def exhaustive_small(self):
        """every call sequence of length <= 4 over {start, next k (k in 1..n+2)} for n in {1, 2}, good environment"""
        import itertools
        good = {"cfgOk": True, "ret": 0}
        out = []
        for n in (1, 2):
            alphabet = [dict(t="start", **good)] + [dict(t="next", k=k, rc=k % 2, **good) for k in range(1, n + 3)]
            for length in range(1, 5):
                for seq in itertools.product(alphabet, repeat=length):
                    out.append({"op": "pipeline.run", "n": n, "mode": "commands", "jobs": [1] * n, "ops": [dict(o) for o in seq]})
        return out

    # ---------------------------------------------------------------- model line
    def model_case(self, case):
        if case["op"] == "pipeline.run":
            ops = []
            for o in case["ops"]:
                m = {"t": o["t"], "cfgOk": o["cfgOk"], "ret": o["ret"]}
                if o["t"] != "start":
                    m["k"] = o["k"]
                    m["rc"] = o["rc"]
                ops.append(m)
            return {"op": "pipeline.run", "n": case["n"], "ops": ops}
        return {"op": "pipeline.completion", "dir": P_DIR, "local": case["local"], "standalone": case["standalone"],
                "completions": case["completions"],
                "stages": [{"numResults": s["numResults"], "numJobs": s["numJobs"], "cfgOk": s["cfgOk"]} for s in case["stages"]]}

    # ---------------------------------------------------------------- implementation
    def impl(self, case):
        global CTX
        cwd = os.getcwd()
        env = dict(os.environ)
        with quiet(), scratch_dir() as d:
            try:
                os.chdir(d)
                if case["op"] == "pipeline.run":
                    return self._impl_run(case, d)
                return self._impl_completion(case, d)
            finally:
                os.chdir(cwd)
                os.environ.clear()
                os.environ.update(env)
                CTX = None
                import logging
                logging.shutdown()

    def _create_pipeline(self, d, n, mode, jobs):
        """`jade pipeline create` through the real click command; returns the pipeline config file"""
        cfg = d / "pipeline.json"
        argv = ["create", "-l", "-c", str(cfg), "--no-reports"]
        if mode == "commands":
            for k in range(1, n + 1):
                argv += ["-a", f"autoconfig {k}"]
        else:
            for k in range(1, n + 1):
                f = d / f"given-stage{k}.json"
                f.write_text(stage_config_text(k, jobs[k - 1]))
                argv += ["-f", str(f)]
        r = _run_cli(argv)
        if r != "returned" or not cfg.exists():
            raise RuntimeError(f"jade pipeline create failed: {r}")
        return cfg

    def _impl_run(self, case, d):
        global CTX
        from jade.jobs.pipeline_manager import PipelineManager
        n = case["n"]
        pdir = d / "out"
        c = CTX = _Ctx(pdir)
        c.job_counts = case["jobs"]
        self._pm.JobSubmitter = StubSubmitter
        cfg = self._create_pipeline(d, n, case["mode"], case["jobs"])
        steps, obs = [], []
        for o in case["ops"]:
            c.outcome = o
            before = c.disk()
            nb = len(c.stub_calls)
            na = len(c.auto_calls)
            if o["t"] == "start":
                res = _run_cli(["submit", str(cfg), "-o", str(pdir)])
            elif o["t"] == "next":
                res = _run_cli(["submit-next-stage", str(pdir), f"--stage-num={o['k']}", f"--return-code={o['rc']}"])
            else:
                try:
                    PipelineManager.load(str(pdir)).submit_next_stage(o["k"], return_code=o["rc"])
                    res = "ok"
                except Exception as e:  # noqa
                    res = _res_enum(e)
            after = c.disk()
            new = c.stub_calls[nb:]
            h = None
            if new:
                s = new[0]
                h = {"stage": s["stage"], "cfg": _stage_of_jobs(s["jobs"]), "out": _stage_of_dir(s["output"], pdir), "disk": s["disk"]}
            steps.append({"res": res, "state": c.state(), "handover": h})
            obs.append({"unchanged": before == after, "existed": before is not None, "calls": len(new),
                        "no_write_after_handover": (new[-1]["bytes"] == after) if new else None,
                        "stub": [{k: v for k, v in s.items() if k != "bytes"} for s in new],
                        "auto": c.auto_calls[na:],
                        "env_left": sorted(k for k in os.environ if k.startswith("JADE_PIPELINE"))})
        model = {"steps": steps, "submitted": [s["stage"] for s in c.stub_calls]}
        return {"model": model, "obs": {"steps": obs, "other_cmds": c.other_cmds}}

    # ---- completion glue
    def _impl_completion(self, case, d):
        global CTX
        from jade.jobs.job_submitter import JobSubmitter
        from jade.jobs.cluster import Cluster
        from jade.jobs.results_aggregator import ResultsAggregator
        from jade.enums import Status
        stages = case["stages"]
        n = len(stages)
        pdir = d / "out"
        c = CTX = _Ctx(pdir)
        c.stages = stages
        c.local = case["local"]
        c.job_counts = [s["numJobs"] for s in stages]
        c.completing = None
        self._pm.JobSubmitter = JobSubmitter  # the real one
        suite = self

        c.limit = 3 * n + 6

        def fake_submit_jobs(mgr, cluster, force_local=False):
            k = cluster.config.pipeline_stage_num
            if len(c.submissions) >= c.limit:
                c.runaway = True
                return Status.IN_PROGRESS
            prev = {}
            for p in sorted(c.pdir.glob("output-stage*/cluster_config.json")):
                dd = json.loads(p.read_text())
                prev[p.parent.name] = dd["is_complete"]
            c.submissions.append({"stage": k, "output": str(mgr._output).replace(str(c.pdir), P_DIR), "flags": prev,
                                  "pipeline": c.state(), "completing": c.completing})
            ResultsAggregator.create(mgr._output)
            if c.local:
                suite._write_results(mgr._output, cluster, stages[k - 1] if k else stages[0])
                c.completing = k
                return mgr._handle_completion(cluster)
            return Status.IN_PROGRESS
        JobSubmitter.submit_jobs = fake_submit_jobs

        if case["standalone"]:
            # an ordinary submission (no pipeline): run_submit_jobs without a stage number, then its completion
            from jade.jobs.job_configuration_factory import create_config_from_file
            from jade.models import HpcConfig, SubmitterParams
            f = d / "config.json"
            f.write_text(stage_config_text(1, stages[0]["numJobs"]))
            config = create_config_from_file(str(f))
            config.assign_default_submission_group(SubmitterParams(
                hpc_config=HpcConfig(hpc_type="slurm", hpc={"account": "a"}), generate_reports=False, resource_monitor_type="none"))
            out = d / "standalone" / "output"
            c.pdir = d / "standalone"
            ret = JobSubmitter.run_submit_jobs(config, str(out))
            status = None
            if not case["local"]:
                status = self._complete(str(out), stages[0], None)
            cc = json.loads((out / "cluster_config.json").read_text())
            events = [{"status": status, "actions": ([["markComplete"]] if cc["is_complete"] else []) +
                       [["runCmd", " ".join(e["argv"])] for e in c.events], "before": None, "res": None}]
            return {"model": {"events": events, "final": None, "submitted": []},
                    "obs": {"events": c.events, "submissions": c.submissions, "stage_num_field": cc["pipeline_stage_num"], "ret": ret}}

        cfg = self._create_pipeline(d, n, "commands", c.job_counts)
        c.outcome = {"cfgOk": stages[0]["cfgOk"], "ret": 0}
        start_res = _run_cli(["submit", str(cfg), "-o", str(pdir)])
        statuses = {}
        if not case["local"]:
            for i in range(case["completions"]):
                k = i + 1
                out = pdir / f"output-stage{k}"
                if not (out / "cluster_config.json").exists():
                    continue
                c.completing = k
                statuses[k] = self._complete(str(out), stages[i], k)
                c.completing = None
        # events in the model's shape: one per completed stage, in stage order
        events = []
        complete_flags = {}
        for p in sorted(pdir.glob("output-stage*/cluster_config.json")):
            dd = json.loads(p.read_text())
            complete_flags[_stage_of_dir(p.parent, pdir)] = dd
        for k in sorted(complete_flags):
            dd = complete_flags[k]
            if not dd["is_complete"]:
                continue
            evs = [e for e in c.events if e["completing"] == k]
            results = ResultsAggregator.list_results(str(pdir / f"output-stage{k}"))
            acts = []
            # order of the two actions as observed: the flag seen on disk when the command arrived
            for e in evs:
                seen = e["flags"].get(f"output-stage{k}", {}).get("is_complete")
                if seen:
                    acts = [["markComplete"], ["runCmd", " ".join(e["argv"])]]
                else:
                    acts = [["runCmd", " ".join(e["argv"])], ["markComplete"]]
            if not evs:
                acts = [["markComplete"]]
            st = json.loads((pdir / f"output-stage{k}" / "results.json").read_text())
            status = 0 if not st["missing_jobs"] else 1
            events.append({"status": status, "actions": acts, "before": evs[0]["before"] if evs else None,
                           "res": evs[0]["res"] if evs else None})
        model = {"events": events, "final": c.state(), "submitted": [s["stage"] for s in c.submissions]}
        obs = {"events": c.events, "submissions": c.submissions, "start": start_res, "statuses": {str(k): v for k, v in statuses.items()},
               "stage_fields": {str(k): v["pipeline_stage_num"] for k, v in complete_flags.items()},
               "other_cmds": c.other_cmds, "runaway": c.runaway}
        return {"model": model, "obs": obs}

    @staticmethod
    def _write_results(out, cluster, st):
        from jade.jobs.results_aggregator import ResultsAggregator
        from jade.result import Result
        from jade.enums import JobCompletionStatus
        agg = ResultsAggregator.load(out)
        names = [j.name for j in cluster.job_status.jobs][: st["numResults"]]
        for nme in names:
            agg.append_result(Result(nme, 0, JobCompletionStatus.FINISHED, 1.0, hpc_job_id="1"))
        agg.process_results()

    def _complete(self, out, st, k):
        """what `jade try-submit-jobs <out>` does when the last batch has finished: promote, then _handle_completion"""
        from jade.jobs.cluster import Cluster
        from jade.jobs.job_submitter import JobSubmitter
        cluster, promoted = Cluster.deserialize(out, try_promote_to_submitter=True, deserialize_jobs=True)
        if not promoted:
            raise RuntimeError("could not promote")
        self._write_results(out, cluster, st)
        mgr = JobSubmitter.load(out)
        try:
            r = mgr._handle_completion(cluster)
        finally:
            cluster.demote_from_submitter()
        return r.value

    # ---------------------------------------------------------------- direct oracle (independent of the Lean model)
    def oracle(self, case, result):
        if result.get("timeout") or "obs" not in result or "model" not in result:
            return []
        if case["op"] == "pipeline.run":
            return self._oracle_run(case, result)
        return self._oracle_completion(case, result)

    def _oracle_run(self, case, result):
        v = []
        V = lambda key, msg: v.append(Violation("C15", key, msg))  # noqa
        n = case["n"]
        steps, obs = result["model"]["steps"], result["obs"]["steps"]
        api = bool(case.get("api"))
        started = False
        accepted = []      # (k, rc) of accepted submit-next-stage calls, in order
        handed = []        # stages handed to run_submit_jobs
        skipped = set()    # stages whose configuration step failed (never handed over)
        complete_seen = False
        for i, (o, s, ob) in enumerate(zip(case["ops"], steps, obs)):
            res, st = s["res"], s["state"]
            where = f"call {i} ({o['t']} {o.get('k', '')})"
            is_acc = res in ("ok", "execError")
            if ob["calls"] > 1:
                V("run.double_submit_in_call", f"{where}: run_submit_jobs invoked {ob['calls']} times in one call")
            if ob["env_left"]:
                V("run.env_left", f"{where}: pipeline environment variables left behind: {ob['env_left']}")
            if o["t"] == "start":
                if started or (ob["existed"]):
                    if res != "dirExists" or not ob["unchanged"] or ob["calls"]:
                        V("run.restart", f"{where}: `jade pipeline submit` on an existing pipeline was not refused unchanged (res={res})")
                    continue
                started = True
                if st is None:
                    V("run.no_state", f"{where}: no pipeline.json after submit")
                    continue
            elif o["t"] == "next":
                if not started:
                    if ob["calls"] or st is not None:
                        V("run.next_before_start", f"{where}: submit-next-stage acted on a pipeline that was never submitted")
                    continue
                exp = 2 + len(accepted)
                should = (o["k"] == exp) and len(accepted) < n
                if is_acc and not should:
                    V("run.accepted_out_of_order", f"{where}: accepted although the next stage to report is {exp} (N={n}, complete={complete_seen})")
                if not is_acc and should:
                    V("run.rejected_in_order", f"{where}: the in-order call for stage {exp} was refused with {res}")
                if not is_acc:
                    if not ob["unchanged"]:
                        V("run.rejected_changed_state", f"{where}: refused with {res} but pipeline.json changed")
                    if ob["calls"]:
                        V("run.rejected_submitted", f"{where}: refused with {res} but a stage was submitted")
                    if res not in ("invalidParam", "indexError"):
                        V("run.reject_kind", f"{where}: refused with {res}")
                    continue
                accepted.append((o["k"], o["rc"]))
            else:  # API-level call: only sanity
                if st is None:
                    continue
                if o["rc"] is not None and is_acc:
                    accepted.append((o["k"], o["rc"]))
                if not is_acc and not ob["unchanged"]:
                    V("run.rejected_changed_state", f"{where}: refused with {res} but pipeline.json changed")
                if not is_acc:
                    continue
            if st is None:
                continue
            # ---- state after an accepted call
            if st["stage_num"] != 1 + len(accepted):
                V("run.stage_num", f"{where}: persisted stage_num {st['stage_num']} != 1 + {len(accepted)} accepted calls")
            want = [rc for _, rc in accepted] + [None] * (n - len(accepted))
            if st["return_codes"] != want[:n]:
                V("run.return_codes", f"{where}: persisted return codes {st['return_codes']} != reported {want[:n]}")
            if st["is_complete"] != (len(accepted) == n):
                V("run.is_complete", f"{where}: is_complete={st['is_complete']} after {len(accepted)} of {n} stage reports")
            cur = 1 + len(accepted)
            if len(accepted) == n:
                complete_seen = True
                if ob["calls"]:
                    V("run.submit_after_complete", f"{where}: a stage was submitted by the call that completed the pipeline")
                continue
            # a stage is due: it is handed over unless the configuration step failed
            if not o["cfgOk"]:
                skipped.add(cur)
                if ob["calls"]:
                    V("run.submit_after_config_failure", f"{where}: stage submitted although its auto-config failed")
                if res != "execError":
                    V("run.config_failure_silent", f"{where}: auto-config failed but the call reported {res}")
                continue
            if ob["calls"] != 1:
                V("run.not_submitted", f"{where}: stage {cur} is due but run_submit_jobs was not invoked")
                continue
            sb = ob["stub"][0]
            h = s["handover"]
            if not (sb["stage"] == cur and h["cfg"] == cur and h["out"] == cur):
                V("run.wrong_stage_submitted", f"{where}: stage {cur} is due but run_submit_jobs got pipeline_stage_num={sb['stage']}, "
                  f"the configuration of stage {h['cfg']} and the output directory of stage {h['out']}")
            if sb["disk"] is None or sb["disk"]["stage_num"] != cur or sb["disk"]["return_codes"] != want[:n]:
                V("run.submit_before_persist", f"{where}: stage {cur} handed to run_submit_jobs while pipeline.json said {sb['disk']}")
            if ob["no_write_after_handover"] is False:
                V("run.write_after_handover", f"{where}: pipeline.json rewritten after stage {cur} was handed to run_submit_jobs")
            if sb["groups"] < 1:
                V("run.no_submission_group", f"{where}: stage {cur} submitted without a submission group")
            if case["mode"] == "commands":
                au = ob["auto"]
                if len(au) != 1 or au[0]["stage"] != cur or au[0]["stage_id_env"] != str(cur) or (au[0]["disk"] or {}).get("stage_num") != cur:
                    V("run.auto_config", f"{where}: auto-config of stage {cur} ran as {au}")
            if (o["ret"] != 0) != (res == "execError"):
                V("run.submit_result", f"{where}: run_submit_jobs returned {o['ret']} but the call reported {res}")
            if cur in handed and not api:
                V("run.stage_submitted_twice", f"{where}: stage {cur} handed to run_submit_jobs a second time")
            handed.append(cur)
        # global: the stub invocations are stages 1..m, each once, in order (minus stages whose configuration failed)
        sub = result["model"]["submitted"]
        if not api:
            if any(not isinstance(x, int) for x in sub) or sub != sorted(set(sub)) or any(x < 1 or x > n for x in sub):
                V("run.submitted_not_increasing", f"stages handed to run_submit_jobs: {sub} (N={n})")
            elif not skipped and sub != list(range(1, len(sub) + 1)):
                V("run.submitted_not_prefix", f"stages handed to run_submit_jobs: {sub} is not 1..m")
        return v

    def _oracle_completion(self, case, result):
        v = []
        V = lambda key, msg: v.append(Violation("C15", key, msg))  # noqa
        obs = result["obs"]
        stages = case["stages"]
        n = len(stages)
        if case["standalone"]:
            if obs["events"]:
                V("glue.cmd_for_standalone", f"a submission that is not a pipeline stage issued {obs['events'][0]['argv']}")
            if obs["stage_num_field"] is not None:
                V("glue.stage_field", "pipeline_stage_num set for an ordinary submission")
            return v
        if obs.get("runaway"):
            V("glue.runaway", f"the {n}-stage pipeline keeps re-submitting: more than {3 * n + 6} stage submissions / next-stage commands "
                              f"(stages submitted so far: {[s['stage'] for s in obs['submissions']][:12]}...)")
            return v
        seen_stage = set()
        for e in obs["events"]:
            k = e["completing"]
            a = e["argv"]
            if k is None:
                V("glue.cmd_without_completion", f"next-stage command {a} outside a completion")
                continue
            flag = e["flags"].get(f"output-stage{k}", {})
            if not flag.get("is_complete"):
                V("glue.cmd_before_mark_complete", f"stage {k}: `{' '.join(a)}` issued while is_complete was not yet on disk in its cluster_config.json")
            st = stages[k - 1]
            want_rc = 0 if st["numResults"] == st["numJobs"] else 1
            want = ["jade", "pipeline", "submit-next-stage", P_DIR, f"--stage-num={k + 1}", f"--return-code={want_rc}"]
            if a != want:
                V("glue.cmd_args", f"stage {k} completed (status {want_rc}) but the command was `{' '.join(a)}`, expected `{' '.join(want)}`")
            if k in seen_stage:
                V("glue.cmd_twice", f"stage {k}: next-stage command issued twice")
            seen_stage.add(k)
        for s in obs["submissions"]:
            k = s["stage"]
            if not isinstance(k, int) or s["output"] != f"{P_DIR}/output-stage{k}":
                V("glue.stage_plumbing", f"submission in {s['output']} carries pipeline_stage_num={k}")
                continue
            for j in range(1, k):
                if not s["flags"].get(f"output-stage{j}"):
                    V("glue.submit_before_prev_complete", f"stage {k} submitted while stage {j} was not complete on disk ({s['flags']})")
            if s["pipeline"] is None or s["pipeline"]["stage_num"] != k:
                V("glue.submit_stage_mismatch", f"stage {k} submitted while pipeline.json said {s['pipeline']}")
        subs = [s["stage"] for s in obs["submissions"]]
        if subs != list(range(1, len(subs) + 1)):
            V("glue.submissions_order", f"stages submitted: {subs}")
        for k, f in obs["stage_fields"].items():
            if str(f) != k:
                V("glue.stage_plumbing", f"output-stage{k}/cluster_config.json has pipeline_stage_num={f}")
        # end state: everything that completed is recorded; complete iff the last stage completed
        fin = result["model"]["final"]
        done = sorted(seen_stage)
        if fin is not None:
            all_cfg = all(s["cfgOk"] for s in stages)
            ncomp = n if case["local"] else case["completions"]
            if all_cfg:
                want_done = list(range(1, ncomp + 1))
                if done != want_done:
                    V("glue.chain_broken", f"completions of stages {want_done} issued next-stage commands only for {done}")
                want_rcs = [(0 if s["numResults"] == s["numJobs"] else 1) for s in stages[:ncomp]] + [None] * (n - ncomp)
                if fin["return_codes"] != want_rcs:
                    V("glue.return_codes", f"recorded return codes {fin['return_codes']} != stage statuses {want_rcs}")
                if fin["stage_num"] != ncomp + 1 or fin["is_complete"] != (ncomp == n):
                    V("glue.final_state", f"after {ncomp} of {n} completions: stage_num={fin['stage_num']} is_complete={fin['is_complete']}")
                if subs != list(range(1, min(ncomp + 1, n) + 1)):
                    V("glue.submissions", f"after {ncomp} of {n} completions the stages submitted are {subs}")
        return v

    # ---------------------------------------------------------------- tags / shrink
    def tags(self, case, result):
        m = result.get("model") or {}
        t = []
        if case["op"] == "pipeline.run":
            if "steps" not in m:
                return ["run.error"]
            t.append(f"run.n={case['n']}")
            t.append(f"run.mode={case['mode']}")
            kinds = {s["res"] for s in m["steps"]}
            t += [f"res.{k}" for k in sorted(kinds)]
            if any(s["state"] and s["state"]["is_complete"] for s in m["steps"]):
                t.append("run.completed")
                idx = next(i for i, s in enumerate(m["steps"]) if s["state"] and s["state"]["is_complete"])
                if idx + 1 < len(m["steps"]):
                    t.append("run.calls_after_complete")
            if any(not o["cfgOk"] for o in case["ops"]):
                t.append("env.cfgFail")
            if any(o["ret"] != 0 for o in case["ops"]):
                t.append("env.submitFail")
            if case.get("api"):
                t.append("run.api_call")
            t.append(f"run.submitted={len(m['submitted'])}")
            if kinds <= {"noPipeline"}:
                return ["trivial.nostart"]
            return t
        if "events" not in m:
            return ["glue.error"]
        t.append("glue.standalone" if case["standalone"] else ("glue.local" if case["local"] else "glue.async"))
        t.append(f"glue.n={len(case['stages'])}")
        t.append(f"glue.events={len(m['events'])}")
        if any(e["status"] for e in m["events"]):
            t.append("glue.status_error")
        if m["final"] and m["final"]["is_complete"]:
            t.append("glue.completed")
        return t

    def shrink(self, case):
        if case["op"] == "pipeline.run":
            ops = case["ops"]
            for i in range(len(ops) - 1, -1, -1):
                if len(ops) > 1:
                    yield dict(case, ops=ops[:i] + ops[i + 1:])
            for i, o in enumerate(ops):
                if not o["cfgOk"] or o["ret"] != 0:
                    o2 = {k: v for k, v in o.items() if k != "cfgFail"}
                    o2.update(cfgOk=True, ret=0)
                    yield dict(case, ops=ops[:i] + [o2] + ops[i + 1:])
                if o.get("rc") not in (None, 0):
                    yield dict(case, ops=ops[:i] + [dict(o, rc=0)] + ops[i + 1:])
            if case["n"] > 1 and all(o.get("k", 0) <= case["n"] for o in ops):
                yield dict(case, n=case["n"] - 1, jobs=case["jobs"][:-1])
            if any(j != 1 for j in case["jobs"]):
                yield dict(case, jobs=[1] * case["n"])
            if case["mode"] == "files" and all(o["cfgOk"] for o in ops):
                yield dict(case, mode="commands")
        else:
            st = case["stages"]
            if len(st) > 1 and not case["standalone"]:
                yield dict(case, stages=st[:-1], completions=min(case["completions"], len(st) - 1))
            if case["completions"] > 1 and not case["local"]:
                yield dict(case, completions=case["completions"] - 1)
            if case["local"]:
                yield dict(case, local=False)
            for i, s in enumerate(st):
                if s["numResults"] != s["numJobs"] or s["numJobs"] != 1 or not s["cfgOk"]:
                    yield dict(case, stages=st[:i] + [{"numJobs": 1, "numResults": 1, "cfgOk": True}] + st[i + 1:])


SUITE = PipelineSuite()
