"""Suite `queue` (node level of C02, C04, C06; starts/rows of C01/C03): the compute-node job queue.

Real code driven, step by step:
  * `JobQueue.submit` / `JobQueue.process_queue` (and through it `_check_completions`, `_run_job`, `is_full`) on a
    real `JobQueue`, one op at a time;
  * `JobQueue.run_jobs` -> `run` -> `wait` to completion under a schedule (the only things replaced are the name
    `time` inside `jade.jobs.job_queue` (sleep advances the schedule) and, to get hold of the instance, a subclass of
    `JobQueue` that overrides nothing but remembers `self`);
  * `JobRunner._run_jobs` of a real `JobRunner` on a real `GenericCommandConfiguration` (jobs from the real
    `_generate_jobs`), with an HPC interface whose `get_num_cpus()` the case controls: the worker computation.
Jobs are either (mode `stub`) minimal `AsyncJobInterface` objects, or (modes `cli`, `runner`) REAL `AsyncCliCommand`
objects over real `GenericCommandParameters`, with the name `subprocess` inside `jade.jobs.async_cli_command` replaced
by a fake whose `Popen.poll()` is answered by the case's exit events; `_complete()` / `cancel()` append to the real
`results/results_batch_<b>.csv` through `ResultsAggregator`, and the rows are read back from that file after every op.
Model side: Driver/Queue.lean (`queue.run`, `queue.runAll`).
"""
import os
import sys
import time as real_time
from pathlib import Path

import common
from common import Suite, Violation, err_enum, quiet, scratch_dir

BATCH = 3


def jname(k):
    return f"j{k}"


def jid(name):
    return int(str(name)[1:])


class Exhausted(BaseException):
    """the schedule of a run-to-completion case is used up while the queue is still busy"""


# ------------------------------------------------------------------------------------------------
# the environment shared by the fakes: exit events, launches, live processes
# ------------------------------------------------------------------------------------------------
class World:
    def __init__(self, jobs, rows_reader):
        self.jobs = {j["id"]: j for j in jobs}
        self.polls = []          # exit events of the current process_queue call: one dict name->rc per pass
        self.counts = {}         # polls per process within the current call (= pass number)
        self.launches = []       # {"id", "missing": configured blockers without a row when the process was launched}
        self.live = set()        # launched, exit not yet seen by a poll
        self.max_live = 0
        self.delivered = {}      # id -> return code handed over by poll()
        self.rows_reader = rows_reader
        self.stub_rows = []

    def begin_call(self, polls):
        self.polls = [{jname(a): b for a, b in p} for p in polls]
        self.counts = {}

    def on_launch(self, name):
        k = jid(name)
        have = {r[0] for r in self.rows_reader()}
        cfg = self.jobs.get(k, {"blockers": []})
        self.launches.append({"id": k, "missing": sorted(b for b in cfg["blockers"] if b not in have)})
        self.live.add(name)
        self.max_live = max(self.max_live, len(self.live))

    def poll(self, name):
        n = self.counts.get(name, 0)
        self.counts[name] = n + 1
        ev = self.polls[n] if n < len(self.polls) else {}
        if name in ev:
            self.live.discard(name)
            self.delivered[jid(name)] = ev[name]
            return ev[name]
        return None


W = None  # the current World


class FakePopen:
    def __init__(self, args, env=None, stdout=None, stderr=None, **kwargs):
        self.args = args
        self.name = (env or {}).get("JADE_JOB_NAME")
        self.returncode = None
        self.pid = 1000 + len(W.launches)
        W.on_launch(self.name)

    def poll(self):
        if self.returncode is None:
            self.returncode = W.poll(self.name)
        return self.returncode


class FakeSubprocess:
    PIPE = -1
    Popen = FakePopen


def make_stub_class():
    from jade.jobs.async_job_interface import AsyncJobInterface
    from jade.enums import Status

    class StubJob(AsyncJobInterface):
        """the least an AsyncJobInterface can be: launch = a log entry, completion = what the poll says"""

        def __init__(self, k, blockers, flag):
            self._name = jname(k)
            self._blockers = {jname(b) for b in blockers}
            self._flag = flag
            self._rc = None
            self._done = False
            self._started = False

        def cancel(self):
            self._rc = 1
            self._done = True
            W.stub_rows.append((jid(self._name), 1, "canceled"))

        @property
        def cancel_on_blocking_job_failure(self):
            return self._flag

        def get_id(self):
            return 1

        def is_complete(self):
            if self._done:
                return True
            assert self._started
            rc = W.poll(self._name)
            if rc is not None:
                self._rc = rc
                self._done = True
                W.stub_rows.append((jid(self._name), rc, "finished"))
            return self._done

        @property
        def name(self):
            return self._name

        @property
        def return_code(self):
            return self._rc

        def run(self):
            assert not self._started
            self._started = True
            W.on_launch(self._name)
            return Status.GOOD

        def get_blocking_jobs(self):
            return self._blockers

        def remove_blocking_job(self, name):
            self._blockers.remove(name)

        def set_blocking_jobs(self, jobs):
            self._blockers = jobs

    return StubJob


class FakeIntf:
    """the node's HPC interface with a controlled CPU count (everything else: the real LocalManager)"""

    def __init__(self, real, cpus):
        self._real = real
        self._cpus = cpus

    def get_num_cpus(self):
        return self._cpus

    def __getattr__(self, k):
        return getattr(self._real, k)


class QueueSuite(Suite):
    name = "queue"
    case_timeout = 10

    # -------------------------------------------------------------------------------------------- setup
    def setup(self):
        import jade.jobs.async_cli_command as acc
        import jade.jobs.job_queue as jq
        import jade.jobs.job_runner as jr
        self._acc, self._jq, self._jr = acc, jq, jr
        self._saved = (acc.subprocess, jq.time, jr.JobQueue)
        acc.subprocess = FakeSubprocess
        suite = self

        class _Time:
            time = staticmethod(real_time.time)

            @staticmethod
            def sleep(s):
                suite._on_sleep()
        jq.time = common.dual_time(_Time)

        class RecordingQueue(jq.JobQueue):
            """JobQueue itself; only remembers the instance `run_jobs` creates"""

            def __init__(self, *a, **kw):
                super().__init__(*a, **kw)
                suite._queue = self
        self._RQ = RecordingQueue
        jr.JobQueue = RecordingQueue
        self._Stub = make_stub_class()
        self._saved_env = {k: os.environ.get(k) for k in ("JADE_MONITOR_INTERVAL", "SLURM_JOB_ID", "SLURM_NODEID")}
        for k in self._saved_env:
            os.environ.pop(k, None)
        self._scratch_cm = scratch_dir()
        self._scratch = self._scratch_cm.__enter__()
        self._n = 0
        self._queue = None
        self._sched = None

    def teardown(self):
        self._acc.subprocess, self._jq.time, self._jr.JobQueue = self._saved
        for k, v in self._saved_env.items():
            if v is not None:
                os.environ[k] = v
        self._scratch_cm.__exit__(None, None, None)

    def _on_sleep(self):
        """`time.sleep` inside JobQueue.wait: the next process_queue call gets the next schedule entry"""
        if self._sched is None:
            return
        self._call += 1
        q = self._queue
        if self._call >= len(self._sched):
            if q._outstanding_jobs or q._queued_jobs or self._call > len(self._sched) + 20:
                raise Exhausted()
            W.begin_call([])
            return
        W.begin_call(self._sched[self._call])

    # -------------------------------------------------------------------------------------------- generators
    def gen_jobs(self, rng):
        shape = rng.choice(["dag", "dag", "dag", "chain", "diamond", "fan", "two_chains"])
        pf = rng.choice([.5, .5, .8, 1.0])
        if shape == "chain":
            n = rng.randint(2, 6)
            edges = {k: [k - 1] for k in range(1, n)}
        elif shape == "diamond":
            n = rng.choice([4, 5, 6])
            edges = {1: [0], 2: [0], 3: [1, 2]}
            for k in range(4, n):
                edges[k] = [rng.choice([3, 3, 1, 2])]
        elif shape == "fan":
            n = rng.randint(3, 8)
            edges = {k: [0] for k in range(1, n)}
        elif shape == "two_chains":
            a, b = rng.randint(2, 4), rng.randint(2, 4)
            n = a + b
            edges = {k: [k - 1] for k in range(1, a)}
            edges.update({k: [k - 1] for k in range(a + 1, n)})
            if rng.random() < .5:
                edges.setdefault(n - 1, []).append(a - 1)
        else:
            n = rng.choice([1, 2, 3, 3, 4, 4, 5, 5, 6, 7, 8])
            p = rng.choice([.15, .3, .3, .5])
            edges = {k: [b for b in range(k) if rng.random() < p] for k in range(n)}
        # listing order independent of dependency order
        perm = list(range(n))
        if rng.random() < .6:
            rng.shuffle(perm)
        fail_p = rng.choice([.0, .4, .4, .4, .7])
        jobs = [None] * n
        for k in range(n):
            r = rng.random()
            rc = 0 if r >= fail_p else (rng.choice([1, 1, 2, 255]) if rng.random() < .85 else rng.choice([-9, -15]))
            jobs[perm[k]] = {"id": perm[k], "blockers": sorted(perm[b] for b in edges.get(k, [])),
                             "cancel": rng.random() < pf, "rc": rc}
        return jobs

    def gen_polls(self, rng, jobs, p):
        """exit events of one process_queue call: a list (one entry per pass of the rerun loop) of [id, rc] lists"""
        ids = [j["id"] for j in jobs]
        rc = {j["id"]: j["rc"] for j in jobs}
        polls = [[[k, rc[k]] for k in ids if rng.random() < p]]
        while rng.random() < .3 and len(polls) < 3:
            polls.append([[k, rc[k]] for k in ids if rng.random() < .4])
        return polls

    def gen_run_case(self, rng, mode):
        jobs = self.gen_jobs(rng)
        n = len(jobs)
        depth = rng.choice([1, 1, 2, 2, 3, 4])
        ops = []
        style = rng.random()
        p = rng.choice([.2, .4, .4, .7, 1.0])
        order = [j["id"] for j in jobs]
        if style < .7:
            ops += [{"submit": k} for k in order]
            if rng.random() < .1 and n > 1:
                ops.pop(rng.randrange(len(ops)))  # a blocker that never enters this queue
        else:
            todo = list(order)
            while todo:
                ops.append({"submit": todo.pop(0)})
                while rng.random() < .35:
                    ops.append({"pq": self.gen_polls(rng, jobs, p)})
        for _ in range(rng.randint(1, n + 2)):
            ops.append({"pq": self.gen_polls(rng, jobs, p)})
        for _ in range(rng.choice([0, 2, n + 1])):
            ops.append({"pq": [[[j["id"], j["rc"]] for j in jobs]]})
        return {"op": "queue.run", "mode": mode, "depth": depth, "jobs": jobs, "ops": ops}

    def gen_all_case(self, rng, mode):
        jobs = self.gen_jobs(rng)
        n = len(jobs)
        p = rng.choice([.2, .4, .7, 1.0])
        sched = [self.gen_polls(rng, jobs, p) for _ in range(rng.randint(0, 2 * n))]
        if rng.random() < .92:
            sched += [[[[j["id"], j["rc"]] for j in jobs]] for _ in range(n + 2)]
        c = {"op": "queue.runAll", "mode": mode, "jobs": jobs, "sched": sched}
        if mode == "runner":
            c["numProcs"] = rng.choice([None, None, 1, 2, 2, 3, 4, 9])
            c["cpus"] = rng.choice([1, 2, 3, 4, 36])
        else:
            c["depth"] = rng.choice([1, 1, 2, 3, 4])
        return c

    def witness_cases(self):
        def J(k, b, c, rc):
            return {"id": k, "blockers": b, "cancel": c, "rc": rc}
        chain = [J(0, [], False, 2), J(3, [2], True, 0), J(2, [1], True, 0), J(1, [0], True, 0), J(4, [0], False, 0)]
        chain = sorted(chain, key=lambda j: [0, 3, 2, 1, 4].index(j["id"]))
        diamond = [J(0, [], False, 0), J(1, [0], True, 1), J(2, [0], True, 0), J(3, [1, 2], True, 0), J(4, [3], False, 0)]
        out = []
        for mode in ("stub", "cli"):
            # a cancel chain of length 3 (listed against the dependency order) resolved inside ONE call
            out.append({"op": "queue.run", "mode": mode, "depth": 2, "jobs": chain,
                        "ops": [{"submit": k} for k in (0, 3, 2, 1, 4)] + [{"pq": [[[0, 2]]]}, {"pq": [[[4, 0]]]}]})
            # failing job and a dependent's other blocker finishing in the same poll; exit between two passes
            out.append({"op": "queue.run", "mode": mode, "depth": 3, "jobs": diamond,
                        "ops": [{"submit": k} for k in range(5)] + [{"pq": [[[0, 0]]]}, {"pq": [[[1, 1]], [[2, 0]]]},
                                                                    {"pq": [[[4, 0]]]}]})
            # a flagged job handed over after its blocker failed in an earlier call: waits forever (documented)
            out.append({"op": "queue.run", "mode": mode, "depth": 2, "jobs": [J(0, [], False, 1), J(1, [0], True, 0)],
                        "ops": [{"submit": 0}, {"pq": [[[0, 1]]]}, {"submit": 1}, {"pq": [[]]}, {"pq": [[]]}]})
            for d in (1, 3):
                out.append({"op": "queue.runAll", "mode": mode, "depth": d, "jobs": diamond,
                            "sched": [[[[j["id"], j["rc"]] for j in diamond]] for _ in range(7)]})
        out.append({"op": "queue.runAll", "mode": "runner", "numProcs": None, "cpus": 2, "jobs": diamond,
                    "sched": [[[[j["id"], j["rc"]] for j in diamond]] for _ in range(7)]})
        out.append({"op": "queue.runAll", "mode": "runner", "numProcs": 9, "cpus": 1, "jobs": chain,
                    "sched": [[[[j["id"], j["rc"]] for j in chain]] for _ in range(7)]})
        return out

    def cases(self, rng, tier, prop):
        k = {"quick": 1, "thorough": 12}[tier]
        out = self.witness_cases()
        out += [self.gen_run_case(rng, "stub") for _ in range(900 * k)]
        out += [self.gen_run_case(rng, "cli") for _ in range(500 * k)]
        out += [self.gen_all_case(rng, "stub") for _ in range(300 * k)]
        out += [self.gen_all_case(rng, "cli") for _ in range(180 * k)]
        out += [self.gen_all_case(rng, "runner") for _ in range(220 * k)]
        return out

    # -------------------------------------------------------------------------------------------- model line
    def model_case(self, case):
        jobs = {j["id"]: j for j in case["jobs"]}

        def mj(k):
            j = jobs[k]
            return {"id": k, "blockers": j["blockers"], "cancel": j["cancel"]}
        if case["op"] == "queue.run":
            ops = [{"submit": mj(o["submit"])} if "submit" in o else {"pq": o["pq"]} for o in case["ops"]]
            return {"op": "queue.run", "depth": case["depth"], "ops": ops}
        c = {"op": "queue.runAll", "jobs": [mj(j["id"]) for j in case["jobs"]], "sched": case["sched"]}
        if case["mode"] == "runner":
            c["numProcs"], c["cpus"] = case["numProcs"], case["cpus"]
        else:
            c["depth"], c["cpus"] = case["depth"], 0
        return c

    # -------------------------------------------------------------------------------------------- implementation
    def impl(self, case):
        with quiet():
            return self._impl(case)

    def _fresh_output(self):
        self._n += 1
        out = self._scratch / str(self._n)
        (out / "job-stdio").mkdir(parents=True)
        (out / "results").mkdir()
        return out

    def _file_rows(self, out):
        from jade.jobs.results_aggregator import ResultsAggregator
        f = out / "results" / f"results_batch_{BATCH}.csv"
        if not f.exists():
            return []
        return [(jid(r.name), r.return_code, r.status) for r in
                ResultsAggregator.load_node_results(str(out), BATCH).get_results_unsafe()]

    def _make_jobs(self, case, out):
        global W
        if case["mode"] == "stub":
            W = World(case["jobs"], lambda: list(W.stub_rows))
            return {j["id"]: self._Stub(j["id"], j["blockers"], j["cancel"]) for j in case["jobs"]}
        from jade.jobs.async_cli_command import AsyncCliCommand
        from jade.extensions.generic_command.generic_command_parameters import GenericCommandParameters
        W = World(case["jobs"], lambda: self._file_rows(out))
        res = {}
        for j in case["jobs"]:
            params = GenericCommandParameters(command=f"job {j['id']}", name=jname(j["id"]), job_id=j["id"] + 1,
                                              blocked_by={jname(b) for b in j["blockers"]},
                                              cancel_on_blocking_job_failure=j["cancel"])
            res[j["id"]] = AsyncCliCommand(params, f"job {j['id']}", str(out), BATCH, True, None)
        return res

    def _dump(self, q):
        rows = W.rows_reader()
        return {"outstanding": [jid(n) for n in q._outstanding_jobs.keys()],
                "queued": [{"id": jid(j.name), "blockers": sorted(jid(b) for b in j.get_blocking_jobs())} for j in q._queued_jobs],
                "starts": [l["id"] for l in W.launches],
                "rows": [[a, b, c] for a, b, c in rows],
                "numJobs": q._num_jobs, "numCompleted": q._num_completed}

    def _close(self, jobs):
        for j in jobs:
            for fp in (getattr(j, "_stdout_fp", None), getattr(j, "_stderr_fp", None)):
                if fp is not None and not fp.closed:
                    fp.close()
            if hasattr(j, "_is_pending"):
                j._is_pending = False

    def _impl(self, case):
        out = self._fresh_output()
        if case["op"] == "queue.run":
            return self._impl_run(case, out)
        return self._impl_all(case, out)

    def _impl_run(self, case, out):
        from jade.jobs.job_queue import JobQueue
        jobs = self._make_jobs(case, out)
        self._sched = None
        q = JobQueue(case["depth"], poll_interval=0, monitor_interval=None)
        steps, live = [], []
        err = None
        try:
            for o in case["ops"]:
                if "submit" in o:
                    W.begin_call([])
                    q.submit(jobs[o["submit"]])
                else:
                    W.begin_call(o["pq"])
                    q.process_queue()
                steps.append(self._dump(q))
                live.append(len(W.live))
        except Exception as e:  # noqa
            err = err_enum(e)
        finally:
            self._close(jobs.values())
        obs = {"launches": W.launches, "live": live, "max_live": W.max_live, "delivered": {str(k): v for k, v in W.delivered.items()},
               "rows": [list(r) for r in W.rows_reader()], "depth": case["depth"],
               "drained": not (q._outstanding_jobs or q._queued_jobs),
               "submitted": [o["submit"] for o in case["ops"] if "submit" in o]}
        model = {"steps": steps} if err is None else {"error": err}
        return {"model": model, "obs": obs}

    def _impl_all(self, case, out):
        mode = case["mode"]
        self._queue = None
        self._sched = case["sched"]
        self._call = 0
        err, drained, depth = None, False, None
        jobs = []
        try:
            if mode == "runner":
                jobs, runner = self._make_runner(case, out)
                W.begin_call(case["sched"][0] if case["sched"] else [])
                runner._run_jobs(jobs, num_parallel_processes_per_node=case["numProcs"])
            else:
                jd = self._make_jobs(case, out)
                jobs = [jd[j["id"]] for j in case["jobs"]]
                W.begin_call(case["sched"][0] if case["sched"] else [])
                self._RQ.run_jobs(jobs, max_queue_depth=case["depth"], poll_interval=0, monitor_interval=None)
            drained = True
        except Exhausted:
            drained = False
        except Exception as e:  # noqa
            err = err_enum(e)
        finally:
            self._sched = None
            self._close(jobs)
        q = self._queue
        obs = {"launches": W.launches, "max_live": W.max_live, "delivered": {str(k): v for k, v in W.delivered.items()},
               "rows": [list(r) for r in W.rows_reader()], "drained": drained, "calls": self._call,
               "submitted": [j["id"] for j in case["jobs"]]}
        if err is not None or q is None:
            return {"model": {"error": err or "other:noqueue"}, "obs": obs}
        depth = q._queue_depth
        obs["depth"] = depth
        return {"model": {"depth": depth, "drained": drained, "final": self._dump(q)}, "obs": obs}

    def _make_runner(self, case, out):
        global W
        from jade.extensions.generic_command.generic_command_configuration import GenericCommandConfiguration
        from jade.extensions.generic_command.generic_command_parameters import GenericCommandParameters
        from jade.jobs.job_runner import JobRunner
        from jade.models import SubmissionGroup, SubmitterParams, HpcConfig
        W = World(case["jobs"], lambda: self._file_rows(out))
        cfg = GenericCommandConfiguration()
        for j in case["jobs"]:
            cfg.add_job(GenericCommandParameters(command=f"job {j['id']}", name=jname(j["id"]),
                                                 blocked_by={jname(b) for b in j["blockers"]},
                                                 cancel_on_blocking_job_failure=j["cancel"]))
        params = SubmitterParams(hpc_config=HpcConfig(hpc_type="local", hpc={}), resource_monitor_type="none",
                                 generate_reports=False, poll_interval=1)
        cfg.append_submission_group(SubmissionGroup(name="default", submitter_params=params))
        runner = JobRunner(cfg, str(out), batch_id=BATCH)
        jobs = runner._generate_jobs("config.json", False)
        runner._intf = FakeIntf(runner._intf, case["cpus"])
        return jobs, runner

    # -------------------------------------------------------------------------------------------- direct oracles
    @staticmethod
    def reference(jobs):
        """independent evaluation in dependency order: id -> (rc, status); None for jobs on a cycle / open blockers"""
        cfg = {j["id"]: j for j in jobs}
        out = {}
        progress = True
        while progress:
            progress = False
            for k, j in cfg.items():
                if k in out or any(b not in out for b in j["blockers"]):
                    continue
                bad = any(out[b][0] != 0 or out[b][1] == "canceled" for b in j["blockers"])
                out[k] = (1, "canceled") if (j["cancel"] and bad) else (j["rc"], "finished")
                progress = True
        return out

    def oracle(self, case, result):
        v = []
        obs = result.get("obs") or {}
        if "launches" not in obs:
            return v
        cfg = {j["id"]: j for j in case["jobs"]}
        model = result.get("model") or {}
        if "error" in model:
            msg = f"the queue raised {model['error']} on a batch of distinct jobs"
            return [Violation("C04", "queue.raises", msg), Violation("C02", "queue.raises", msg), Violation("C06", "queue.raises", msg)]
        launches = obs["launches"]
        count = {}
        for l in launches:
            count[l["id"]] = count.get(l["id"], 0) + 1
            if l["missing"]:
                v.append(Violation("C02", "queue.start_before_blocker",
                                   f"job {l['id']} was launched while its blockers {l['missing']} had no row in the results file"))
        for k, c in count.items():
            if c > 1:
                v.append(Violation("C01", "queue.double_start", f"job {k} launched {c} times on one node"))
                v.append(Violation("C02", "queue.double_start", f"job {k} launched {c} times on one node"))
        rows = obs["rows"]
        byid = {}
        for pos, (k, rc, st) in enumerate(rows):
            if k in byid:
                v.append(Violation("C04", "queue.double_row", f"job {k} has two rows in the node's results file"))
            byid.setdefault(k, (rc, st, pos))
        delivered = {int(k): x for k, x in obs.get("delivered", {}).items()}
        for k, (rc, st, pos) in byid.items():
            j = cfg[k]
            before = {r[0]: (r[1], r[2]) for r in rows[:pos]}
            bad_before = [b for b in j["blockers"] if b in before and (before[b][0] != 0 or before[b][1] == "canceled")]
            if st == "canceled":
                if count.get(k):
                    v.append(Violation("C04", "queue.canceled_but_started", f"job {k} has a canceled row and was launched"))
                if rc == 0:
                    v.append(Violation("C04", "queue.canceled_rc0", f"job {k} has a canceled row with return code 0"))
                if not j["cancel"]:
                    v.append(Violation("C04", "queue.unflagged_canceled", f"job {k} is not flagged but was canceled"))
                elif not bad_before:
                    v.append(Violation("C04", "queue.canceled_without_cause",
                                       f"job {k} was canceled although none of its blockers {j['blockers']} had failed or been canceled"))
            elif st == "finished":
                if count.get(k, 0) != 1:
                    v.append(Violation("C04", "queue.row_without_start", f"job {k} has a finished row but {count.get(k, 0)} launches"))
                if k in delivered and delivered[k] != rc:
                    v.append(Violation("C04", "queue.wrong_code", f"job {k} ended with {delivered[k]}, row says {rc}"))
                if j["cancel"] and bad_before:
                    v.append(Violation("C04", "queue.flagged_ran_after_failure",
                                       f"flagged job {k} was run although its blockers {bad_before} failed / were canceled"))
            else:
                v.append(Violation("C04", "queue.row_status", f"job {k} has a row with status {st!r}"))
        # canceled jobs never run, whatever the row says
        # C06
        depth = obs.get("depth")
        if depth is not None and obs["max_live"] > depth:
            v.append(Violation("C06", "queue.live_gt_depth", f"{obs['max_live']} job processes alive at once, queue depth {depth}"))
        if case.get("mode") == "runner":
            limit = case["numProcs"] if case["numProcs"] is not None else case["cpus"]
            if obs["max_live"] > limit:
                v.append(Violation("C06", "node.live_gt_configured",
                                   f"{obs['max_live']} job processes alive at once, configured processes-per-node / CPUs = {limit}"))
        # completion: every job accounted for exactly as the dependency-order evaluation says
        submitted = obs.get("submitted", [])
        closed = set(submitted) == set(cfg) and all(b in cfg for j in case["jobs"] for b in j["blockers"])
        ref = self.reference(case["jobs"])
        if obs.get("drained") and closed and len(ref) == len(cfg):
            got = {k: (rc, st) for k, (rc, st, _) in byid.items()}
            if got != ref:
                diff = sorted(k for k in cfg if got.get(k) != ref.get(k))
                k = diff[0]
                v.append(Violation("C04", "queue.final_rows",
                                   f"job {k}: recorded {got.get(k)}, dependency-order evaluation gives {ref.get(k)} (all differing: {diff})"))
            for k, j in cfg.items():
                if not j["cancel"] and count.get(k, 0) != 1:
                    v.append(Violation("C04", "queue.unflagged_not_run", f"unflagged job {k} was launched {count.get(k, 0)} times"))
        # a run to completion whose schedule ends with everybody exiting must drain
        if case["op"] == "queue.runAll" and closed and len(ref) == len(cfg) and not obs.get("drained"):
            n = len(cfg)
            full = [[[j["id"], j["rc"]] for j in case["jobs"]]]
            tail = case["sched"][-(n + 2):]
            limit = obs.get("depth") or 0
            if len(case["sched"]) >= n + 2 and all(t == full for t in tail) and limit >= 1:
                v.append(Violation("C04", "queue.not_drained",
                                   "every process exits at each of the last n+2 polls, yet JobQueue.run did not return: some job never gets an outcome"))
        return v

    # -------------------------------------------------------------------------------------------- tags / shrink
    def tags(self, case, result):
        m = result.get("model") or {}
        obs = result.get("obs") or {}
        if "error" in m:
            return ["queue.error"]
        t = [case["op"] + "." + case["mode"]]
        rows = obs.get("rows", [])
        ncan = sum(1 for r in rows if r[2] == "canceled")
        if ncan:
            t.append("cancel")
        if ncan >= 2:
            t.append("cancel>=2")
        if any(r[1] != 0 and r[2] == "finished" for r in rows):
            t.append("failure")
        steps = m.get("steps")
        if steps:
            prev = None
            for s in steps:
                if prev is not None:
                    newc = [r for r in s["rows"][len(prev["rows"]):] if r[2] == "canceled"]
                    newf = [r for r in s["rows"][len(prev["rows"]):] if r[2] == "finished"]
                    if len(newc) >= 2:
                        ids = {r[0] for r in newc}
                        cfg = {j["id"]: j for j in case["jobs"]}
                        if any(set(cfg[k]["blockers"]) & ids for k in ids):
                            t.append("chain_in_one_call")
                    if len(newf) >= 2:
                        t.append("multi_exit_one_call")
                    if newf and newc:
                        t.append("fail_and_cancel_one_call")
                    if len(s["starts"]) - len(prev["starts"]) >= 2:
                        t.append("multi_start_one_call")
                if s["queued"] and len(s["outstanding"]) >= case["depth"]:
                    t.append("full_with_queue")
                prev = s
            if any(len(o.get("pq", [])) > 1 for o in case["ops"]):
                t.append("multi_pass_polls")
            if obs.get("drained"):
                t.append("drained")
            elif steps and steps[-1]["queued"] and not steps[-1]["outstanding"]:
                t.append("blocked_forever")
        else:
            t.append("drained" if m.get("drained") else "schedule_exhausted")
            if case["mode"] == "runner":
                t.append("workers=" + ("njobs" if m.get("depth") == len(case["jobs"]) else "limit"))
        if len(t) == 1 and not rows:
            return ["trivial.norows"]
        return sorted(set(t))

    def shrink(self, case):
        jobs = case["jobs"]
        n = len(jobs)
        # drop one job (ids kept; its ops and events disappear, it disappears from blocker lists)
        for j in reversed(jobs):
            if n <= 1:
                break
            k = j["id"]
            c = dict(case)
            c["jobs"] = [dict(x, blockers=[b for b in x["blockers"] if b != k]) for x in jobs if x["id"] != k]
            if case["op"] == "queue.run":
                c["ops"] = [o if "submit" in o else {"pq": [[e for e in p if e[0] != k] for p in o["pq"]]}
                            for o in case["ops"] if o.get("submit") != k]
            else:
                c["sched"] = [[[e for e in p if e[0] != k] for p in call] for call in case["sched"]]
            yield c
        # drop one op / one schedule entry
        key = "ops" if case["op"] == "queue.run" else "sched"
        for i in range(len(case[key]) - 1, -1, -1):
            if case["op"] == "queue.run" and "submit" in case[key][i]:
                continue
            c = dict(case)
            c[key] = case[key][:i] + case[key][i + 1:]
            yield c
        # drop one blocker
        for j in jobs:
            for b in j["blockers"]:
                c = dict(case)
                c["jobs"] = [dict(x, blockers=[y for y in x["blockers"] if not (x["id"] == j["id"] and y == b)]) for x in jobs]
                yield c
        # fewer passes per call
        if case["op"] == "queue.run":
            for i, o in enumerate(case["ops"]):
                if "pq" in o and len(o["pq"]) > 1:
                    c = dict(case)
                    c["ops"] = case["ops"][:i] + [{"pq": o["pq"][:1]}] + case["ops"][i + 1:]
                    yield c
        # simpler codes / flags
        for j in jobs:
            if j["rc"] not in (0, 1):
                c = dict(case)
                c["jobs"] = [dict(x, rc=1) if x["id"] == j["id"] else x for x in jobs]
                if case["op"] == "queue.run":
                    c["ops"] = [o if "submit" in o else {"pq": [[[e[0], 1] if e[0] == j["id"] else e for e in p] for p in o["pq"]]}
                                for o in case["ops"]]
                else:
                    c["sched"] = [[[[e[0], 1] if e[0] == j["id"] else e for e in p] for p in call] for call in case["sched"]]
                yield c
        if case.get("depth", 1) > 1:
            yield dict(case, depth=case["depth"] - 1)


SUITE = QueueSuite()
