"""Suite `resubmit` (C13): resubmit-jobs on fabricated submissions.

Real code driven (in-process, real files): JobSubmitter.create, Cluster.create/serialize/mark_complete/
deserialize, ResultsAggregator (append_result, clear_results_for_resubmission, list_results),
JobSubmitter.write_results_summary; then
  * op `resubmit.closure`: jade.cli.resubmit_jobs._get_jobs_to_resubmit and _update_with_blocking_jobs;
  * op `resubmit.prepare`: _reset_results and Cluster.prepare_for_resubmission with arbitrary sets / dicts;
  * op `resubmit.cmd`: a sequence of whole `resubmit_jobs.callback(...)` invocations (flags, role free / held by
    another host / held by the same host, --submission-groups-file variants, one injected failure per invocation)
    interleaved with `finish` steps that let the rerun complete through the real try-submit-jobs rounds
    (sbatch accepted and squeue empty at the subprocess boundary of jade.utils.run_command).
The Lean driver gets, for every invocation, the state of the files as read back before it (`model_case`), and must
predict outcome, rows left, job states, blockers, counters, flags, events directory and the submitter field.
"""
import json
import os
from pathlib import Path

from common import Suite, Violation, quiet, scratch_dir, canon
import resubmit_env as E
from jadeenv import jname, jid

FAILS = [None, "load", "results_json", "closure", "reset_before", "reset_after", "prep_config", "prep_jobs",
         "prep_groups", "events", "load_mgr", "round", "squeue", "squeue"]
GROUPS = ["absent", "ok", "lenMismatch", "unknownName", "raises"]


# ------------------------------------------------------------------------------------------ independent reference
def classify(row):
    """by the property's words: failed/canceled = non-zero exit (ran or canceled), successful = ran with exit 0"""
    if row["status"] == "finished":
        return "successful" if row["rc"] == 0 else "failed"
    if row["status"] == "canceled" and row["rc"] != 0:
        return "canceled"
    return None


def ref_select(n, summary, flags):
    failed, missing, successful = flags
    by_name = {}
    for r in summary:
        by_name[r["name"]] = r
    sel = set()
    for k, r in by_name.items():
        c = classify(r)
        if failed and c in ("failed", "canceled"):
            sel.add(k)
        if successful and c == "successful":
            sel.add(k)
    if missing:
        sel |= {k for k in range(n) if k not in by_name}
    return sel


def ref_closure(n, blockers, sel):
    """BFS over "is a configured blocker of" """
    dependents = {}
    for j in range(n):
        for b in blockers[j]:
            dependents.setdefault(b, set()).add(j)
    seen = set(sel)
    todo = list(sel)
    while todo:
        x = todo.pop()
        for j in dependents.get(x, ()):
            if j not in seen:
                seen.add(j)
                todo.append(j)
    return seen


def runnable(blockers, clo):
    """jobs of the rerun set that are not (transitively) waiting on a dependency cycle"""
    ok = set()
    changed = True
    while changed:
        changed = False
        for j in clo:
            if j not in ok and all(b in ok for b in blockers[j] if b in clo):
                ok.add(j)
                changed = True
    return ok


def coherent(pre):
    """a job has a result row iff it is done (what every completed submission looks like)"""
    have = {r["name"] for r in pre["rows"]}
    if len(have) != len(pre["rows"]):
        return False
    return all((pre["states"][j] == "d") == (j in have) for j in range(pre["n"]))


def E_sem(r):
    return sem_row(r)


def sem_row(r):
    """the fields the property names: name, return code, status, times (as numbers)"""
    return (r["name"], r["rc"], r["status"], float(r["exec"]), float(r["ctime"]))


class ResubmitSuite(Suite):
    name = "resubmit"
    case_timeout = 30

    _depth = 0
    _pre = {}

    def setup(self):
        if "VERIF_SCRATCH" not in os.environ and os.path.isdir("/dev/shm") and os.access("/dev/shm", os.W_OK):
            os.environ["VERIF_SCRATCH"] = "/dev/shm"   # thousands of small files per run: keep them in memory
        if self._depth == 0:
            self._p = E.Patches()
            self._p.install()
            if len(self._pre) > 50000:
                self._pre.clear()
        self._depth += 1

    def teardown(self):
        self._depth -= 1
        if self._depth == 0:
            self._p.remove()

    # ---------------------------------------------------------------- generation
    def gen_dag(self, rng, n):
        kind = rng.choice(["random", "random", "random", "forward", "chain_rev", "chain", "diamond", "cycle", "none", "dense"])
        bl = [[] for _ in range(n)]
        if kind == "random":
            p = rng.choice([.1, .2, .35])
            for j in range(n):
                bl[j] = sorted(b for b in range(n) if b != j and rng.random() < p)
        elif kind == "forward":      # blockers listed before the blocked job
            p = rng.choice([.2, .4])
            for j in range(n):
                bl[j] = sorted(b for b in range(j) if rng.random() < p)
        elif kind == "chain_rev":    # job k blocked by k+1: the closure needs one pass per link
            for j in range(n - 1):
                bl[j] = [j + 1]
        elif kind == "chain":
            for j in range(1, n):
                bl[j] = [j - 1]
        elif kind == "diamond" and n >= 4:
            bl[1], bl[2], bl[3] = [0], [0], [1, 2]
            for j in range(4, n):
                bl[j] = sorted(b for b in range(j) if rng.random() < .3)
        elif kind == "cycle" and n >= 2:
            m = rng.randint(2, n)
            for j in range(m):
                bl[j] = [(j + 1) % m]
            if rng.random() < .3:
                bl[0] = sorted(set(bl[0]) | {0})  # self loop
            for j in range(m, n):
                bl[j] = sorted(b for b in range(n) if b != j and rng.random() < .2)
        elif kind == "dense":
            order = list(range(n))
            rng.shuffle(order)
            pos = {j: i for i, j in enumerate(order)}
            for j in range(n):
                bl[j] = sorted(b for b in range(n) if pos[b] < pos[j] and rng.random() < .6)
        return bl

    def gen_row(self, rng, k, kind, t):
        ex = rng.choice([0.5, 1.5, 2.25, 10.0, 0.0, 3.0, 1, 7])
        ct = 1700000000.0 + t * 1.25
        if kind == "ok":
            return {"name": k, "rc": 0, "status": "finished", "exec": str(ex), "ctime": str(ct), "hpc": str(rng.choice([11, 12, 13]))}
        if kind == "failed":
            return {"name": k, "rc": rng.choice([1, 1, 2, 127, 255]), "status": "finished", "exec": str(ex), "ctime": str(ct),
                    "hpc": str(rng.choice([11, 12, 13]))}
        if kind == "canceled":
            return {"name": k, "rc": 1, "status": "canceled", "exec": "0", "ctime": str(ct), "hpc": None}
        raise ValueError(kind)

    def gen_sub(self, rng, nmax=8, coherent=None):
        n = rng.choice([1, 2, 3, 3, 4, 4, 5, 5, 6, 7, nmax])
        bl = self.gen_dag(rng, n)
        mix = rng.choice(["all_ok", "mixed", "mixed", "mixed", "many_missing", "all_failed"])
        weights = {"all_ok": [1, 0, 0, 0], "mixed": [4, 2, 1, 2], "many_missing": [2, 1, 1, 5], "all_failed": [0, 3, 1, 1]}[mix]
        kinds = rng.choices(["ok", "failed", "canceled", "missing"], weights=weights, k=n)
        order = list(range(n))
        rng.shuffle(order)     # completion order (file order of the CSV)
        rows, t = [], 0
        for k in order:
            if kinds[k] != "missing":
                t += 1
                rows.append(self.gen_row(rng, k, kinds[k], t))
        coherent = rng.random() < .8 if coherent is None else coherent
        states, blocked = [], []
        for k in range(n):
            if kinds[k] != "missing":
                st = "d"
            else:
                st = rng.choice(["s", "n", "n"])   # timed out / never submitted (forced completion, cancel)
            if not coherent and rng.random() < .25:
                st = rng.choice(["n", "s", "d"])
            states.append(st)
        for k in range(n):
            if states[k] == "n":
                # remaining blockers as a real run leaves them: those not done
                keep = [b for b in bl[k] if states[b] != "d" or (not coherent and rng.random() < .3)]
                blocked.append(sorted(keep))
            else:
                blocked.append([])
        sub = {"n": n, "blockers": bl, "rows": rows, "summary": "rows", "states": states, "blockedBy": blocked,
               "complete": True, "canceled": rng.random() < .15, "submitted": None, "completed": None,
               "events": rng.choice([None, None, 0, 2, 3]), "role": "free",
               "batchSize": rng.choice([1, 2, 3]), "tryAdd": rng.random() < .6, "batchIndex": rng.choice([1, 2, 5])}
        r = rng.random()
        if r < .05:
            sub["summary"] = None
        elif r < .15 and rows:
            # stale / odd results.json: explicit list, possibly with a duplicated name (dict semantics: last wins)
            sm = [dict(x) for x in rows]
            if rng.random() < .5:
                dup = dict(rng.choice(sm))
                dup["rc"] = 0 if dup["rc"] else 3
                dup["status"] = "finished"
                sm.insert(rng.randrange(len(sm) + 1), dup)
            else:
                sm = [x for x in sm if rng.random() < .7]
            for x in sm:
                if x["hpc"] is None:
                    x["hpc"] = None
            sub["summary"] = sm
        return sub

    def gen_flags(self, rng):
        return rng.choice([[True, True, False], [True, True, False], [True, False, False], [False, True, False],
                           [False, False, True], [True, True, True], [False, False, False], [True, False, True],
                           [False, True, True]])

    def gen_closure_case(self, rng):
        sub = self.gen_sub(rng)
        return {"op": "resubmit.closure", "sub": sub, "flags": self.gen_flags(rng)}

    def gen_prepare_case(self, rng):
        sub = self.gen_sub(rng)
        n = sub["n"]
        if rng.random() < .1:
            sub["complete"] = False
        p = rng.choice([0, .3, .5, 1])
        sel = [k for k in range(n) if rng.random() < p]
        rng.shuffle(sel)
        upd = []
        for k in range(n):
            if rng.random() < .5:
                upd.append([k, sorted(b for b in range(n) if rng.random() < .3)])
        return {"op": "resubmit.prepare", "sub": sub, "sel": sel, "upd": upd}

    def gen_cmd_case(self, rng, long=False):
        sub = self.gen_sub(rng)
        r = rng.random()
        if r < .12:
            sub["complete"] = False
            # an incomplete submission looks like one: some jobs not done
            sub["role"] = rng.choice(["free", "other", "same"])
        elif r < .2:
            sub["role"] = rng.choice(["other", "same"])
        steps = []
        ncycles = rng.choice([1, 1, 1, 2, 2, 3]) if not long else rng.choice([2, 3, 4])
        for c in range(ncycles):
            fail = rng.choice(FAILS) if rng.random() < .45 else None
            groups = rng.choice(GROUPS) if rng.random() < .15 else "absent"
            steps.append({"kind": "cmd", "flags": self.gen_flags(rng), "fail": fail, "groups": groups})
            if fail is not None and rng.random() < .7:
                # repeat after the failure, same flags, no failure
                steps.append({"kind": "cmd", "flags": steps[-1]["flags"], "fail": None, "groups": "absent"})
            if rng.random() < .75:
                rcs = {}
                for k in range(sub["n"]):
                    if rng.random() < .3:
                        rcs[str(k)] = rng.choice([1, 2])
                steps.append({"kind": "finish", "rcs": rcs})
        return {"op": "resubmit.cmd", "sub": sub, "steps": steps}

    def witness_cases(self):
        row = lambda k, rc: {"name": k, "rc": rc, "status": "finished", "exec": "1.5", "ctime": str(1700000000.0 + k), "hpc": "11"}
        base = dict(summary="rows", complete=True, canceled=False, submitted=None, completed=None, events=None, role="free",
                    batchSize=2, tryAdd=True, batchIndex=1)
        # reverse-listed chain of 4: j0 <- j1 <- j2 <- j3, j3 failed: four passes
        chain = dict(base, n=4, blockers=[[1], [2], [3], []], rows=[row(3, 1), row(2, 0), row(1, 0), row(0, 0)],
                     states=list("dddd"), blockedBy=[[], [], [], []])
        # --no-missing with a never-submitted unblocked job (known finding)
        nm = dict(base, n=3, blockers=[[], [], []], rows=[row(0, 1), row(1, 0)], states=list("ddn"), blockedBy=[[], [], []],
                  canceled=True)
        # f96: no events directory
        f96 = dict(base, n=2, blockers=[[], []], rows=[row(0, 0), row(1, 1)], states=list("dd"), blockedBy=[[], []])
        # f95: incomplete, role held by another / the same host
        inc = dict(base, n=2, blockers=[[], [0]], rows=[row(0, 0)], states=list("ds"), blockedBy=[[], []], complete=False)
        cyc = dict(base, n=3, blockers=[[1], [2], [0]], rows=[row(0, 0), row(1, 2), row(2, 0)], states=list("ddd"),
                   blockedBy=[[], [], []])
        return [
            {"op": "resubmit.closure", "sub": chain, "flags": [True, True, False]},
            {"op": "resubmit.closure", "sub": cyc, "flags": [True, True, False]},
            {"op": "resubmit.cmd", "sub": chain, "steps": [{"kind": "cmd", "flags": [True, True, False], "fail": None, "groups": "absent"},
                                                           {"kind": "finish", "rcs": {}}]},
            {"op": "resubmit.cmd", "sub": nm, "steps": [{"kind": "cmd", "flags": [True, False, False], "fail": None, "groups": "absent"},
                                                        {"kind": "finish", "rcs": {}}]},
            {"op": "resubmit.cmd", "sub": f96, "steps": [{"kind": "cmd", "flags": [True, True, False], "fail": None, "groups": "absent"}]},
            {"op": "resubmit.cmd", "sub": dict(inc, role="other"), "steps": [{"kind": "cmd", "flags": [True, True, False], "fail": None, "groups": "absent"}]},
            {"op": "resubmit.cmd", "sub": dict(inc, role="same"), "steps": [{"kind": "cmd", "flags": [True, True, False], "fail": None, "groups": "absent"}]},
            {"op": "resubmit.cmd", "sub": dict(inc, role="free"), "steps": [{"kind": "cmd", "flags": [True, True, False], "fail": None, "groups": "absent"}]},
            {"op": "resubmit.cmd", "sub": f96, "steps": [{"kind": "cmd", "flags": [True, True, False], "fail": None, "groups": "raises"},
                                                         {"kind": "cmd", "flags": [True, True, False], "fail": None, "groups": "absent"}]},
            {"op": "resubmit.cmd", "sub": dict(f96, events=2), "steps": [{"kind": "cmd", "flags": [True, True, False], "fail": "reset_after", "groups": "absent"},
                                                                         {"kind": "cmd", "flags": [True, True, False], "fail": None, "groups": "absent"},
                                                                         {"kind": "finish", "rcs": {"1": 1}},
                                                                         {"kind": "cmd", "flags": [True, True, False], "fail": None, "groups": "absent"},
                                                                         {"kind": "finish", "rcs": {}}]},
        ]

    def cases(self, rng, tier, prop):
        k = {"quick": 1, "thorough": 6}[tier]
        out = []   # the hand-written witnesses live in corpus/resubmit/ (written from witness_cases())
        out += [self.gen_closure_case(rng) for _ in range(300 * k)]
        out += [self.gen_prepare_case(rng) for _ in range(150 * k)]
        out += [self.gen_cmd_case(rng) for _ in range(400 * k)]
        if tier == "thorough":
            out += [self.gen_cmd_case(rng, long=True) for _ in range(300)]
            out += self.exhaustive_small()
        return out

    def exhaustive_small(self):
        """every blocker relation on <= 3 jobs (cycles and self loops included) x every flag combination, job 0 failed,
        the last job missing, the others successful"""
        import itertools
        out = []
        row = lambda k, rc: {"name": k, "rc": rc, "status": "finished", "exec": "1.5", "ctime": str(1700000000.0 + k), "hpc": "11"}
        for n in (1, 2, 3):
            pairs = [(a, b) for a in range(n) for b in range(n)]
            for mask in range(1 << len(pairs)):
                bl = [[] for _ in range(n)]
                for i, (a, b) in enumerate(pairs):
                    if mask >> i & 1:
                        bl[b].append(a)
                rows = [row(0, 1)] + [row(k, 0) for k in range(1, n - 1)]
                states = ["d"] * n
                if n > 1:
                    states[n - 1] = "n"
                sub = dict(n=n, blockers=bl, rows=rows, summary="rows", states=states,
                           blockedBy=[[] for _ in range(n)], complete=True, canceled=False, submitted=None, completed=None,
                           events=None, role="free", batchSize=2, tryAdd=True, batchIndex=1)
                for flags in itertools.product([False, True], repeat=3):
                    if n == 3 and mask % 3 and flags != (True, True, False):
                        continue
                    out.append({"op": "resubmit.closure", "sub": sub, "flags": list(flags)})
        return out

    # ---------------------------------------------------------------- model line
    def model_case(self, case):
        op = case["op"]
        sub = case["sub"]
        if op == "resubmit.closure":
            pre = self._prestate(case)
            return {"op": op, "n": pre["n"], "blockers": pre["blockers"], "summary": pre["summary"],
                    "flags": dict(zip(("failed", "missing", "successful"), case["flags"]))}
        if op == "resubmit.prepare":
            pre = self._prestate(case)
            return {"op": op, "n": pre["n"], "states": pre["states"], "blockedBy": pre["blockedBy"], "cfg": pre["cfg"],
                    "rows": pre["rows"], "sel": case["sel"], "upd": case["upd"]}
        if op == "resubmit.cmd":
            runs = self._prestate(case)
            return {"op": op, "runs": runs}
        raise ValueError(op)

    def _prestate(self, case):
        key = canon(case)
        if key not in self._pre:
            self.setup()
            try:
                self.impl(case)
            finally:
                self.teardown()
        return self._pre[key]

    @staticmethod
    def _modelsub(st):
        return {k: v for k, v in st.items() if not k.startswith("_")}

    # ---------------------------------------------------------------- implementation
    def impl(self, case):
        with quiet(), scratch_dir("c13-") as d:
            try:
                return getattr(self, "_impl_" + case["op"].split(".")[1])(case, d)
            finally:
                E.set_host(E.CREATOR)

    def _impl_closure(self, case, d):
        import jade.cli.resubmit_jobs as rj
        from jade.jobs.cluster import Cluster
        out = E.fabricate(d / "out", case["sub"])
        pre = E.read_state(out)
        self._pre[canon(case)] = self._modelsub(pre)
        cluster, _ = Cluster.deserialize(str(out), deserialize_jobs=True)
        f, m, s = case["flags"]
        try:
            sel = rj._get_jobs_to_resubmit(cluster, str(out), f, m, s)
        except Exception as e:
            return {"model": {"error": E.err_name(e)}, "obs": {"pre": pre}}
        selected = sorted(jid(x) for x in sel)
        try:
            upd = rj._update_with_blocking_jobs(sel, str(out))
        except Exception as e:
            return {"model": {"selected": selected, "error": E.err_name(e)}, "obs": {"pre": pre}}
        model = {"selected": selected, "closure": sorted(jid(x) for x in sel),
                 "blockers": sorted([jid(k), sorted(jid(b) for b in v)] for k, v in upd.items())}
        return {"model": model, "obs": {"pre": pre}}

    def _impl_prepare(self, case, d):
        import jade.cli.resubmit_jobs as rj
        from jade.jobs.cluster import Cluster
        out = E.fabricate(d / "out", case["sub"])
        cluster, promoted = Cluster.deserialize(str(out), try_promote_to_submitter=True, deserialize_jobs=True)
        pre = E.read_state(out)
        self._pre[canon(case)] = self._modelsub(pre)
        sel = {jname(k) for k in case["sel"]}
        upd = {jname(k): {jname(b) for b in v} for k, v in case["upd"]}
        err = None
        rj._reset_results(str(out), sel)
        try:
            cluster.prepare_for_resubmission(sel, upd)
        except Exception as e:
            err = E.err_name(e)
        post = E.read_state(out)
        if err:
            return {"model": {"rows": post["rows"], "error": err}, "obs": {"pre": pre, "post": post}}
        model = {"rows": post["rows"], "states": post["states"], "blockedBy": post["blockedBy"], "cfg": post["cfg"]}
        return {"model": model, "obs": {"pre": pre, "post": post}}

    def _impl_cmd(self, case, d):
        from jade.cli.resubmit_jobs import resubmit_jobs
        sub = case["sub"]
        if "leftoverIds" not in sub and len(canon(sub)) % 2 == 0:
            # every other submission: the last node's HPC job id is still listed in the job status (SLURM: a node's own
            # round always sees its own batch as RUNNING), so resubmit-jobs' round polls the scheduler
            sub = dict(sub, leftoverIds=["4999"])
        out = E.fabricate(d / "out", sub)
        E.FakeSub.reset()
        runs_model, runs_impl, obs_steps = [], [], []
        done_batches = set(E.batch_files(out))
        clock = [0.0]
        last_cmd = None
        for si, step in enumerate(case["steps"]):
            if step["kind"] == "finish":
                before = E.read_state(out)
                processed, ferr = E.finish_rerun(out, step["rcs"], done_batches, clock)
                after = E.read_state(out)
                obs_steps.append({"kind": "finish", "processed": processed, "before": before, "after": after,
                                  "cmd": last_cmd, "error": ferr})
                last_cmd = None
                if ferr or (out / "cluster_config.json.lock").exists():
                    break   # the submission is wedged (lock file left as a deadlock marker): nothing more can run
                continue
            fail = step["fail"]
            if fail == "results_json" and (out / "results.json").exists():
                (out / "results.json").unlink()
            pre = E.read_state(out)
            host = E.CREATOR
            if pre["cfg"]["submitter"] is not None and case["sub"].get("role") == "other" and si == 0:
                host = E.OTHER
            if step.get("host"):
                host = step["host"]
            gfile = None
            if step["groups"] != "absent":
                gfile = E.write_groups_file(out, d / f"groups_{si}.json", step["groups"])
            bytes_before = E.snapshot_bytes(out)
            batches_before = E.batch_files(out)
            snap = {}

            def on_round(mgr, cluster, snap=snap):
                snap["state"] = E.read_state(out)
                snap["bytes"] = E.snapshot_bytes(out)

            E.set_host(host)
            f, m, s = step["flags"]
            with E.inject(fail, on_round) as iobs:
                try:
                    resubmit_jobs.callback(str(out), f, m, s, gfile, False)
                    outcome = {"exit": 0}   # unreachable: the callback always exits
                except SystemExit as e:
                    outcome = {"exit": int(e.code or 0)}
                except BaseException as e:  # noqa
                    if type(e).__name__ == "CaseTimeout":
                        raise
                    outcome = {"raised": E.err_name(e)}
            E.set_host(E.CREATOR)
            final = E.read_state(out)
            bytes_after = E.snapshot_bytes(out)
            at = snap.get("state", final)
            after = {"rows": at["rows"], "states": at["states"], "blockedBy": at["blockedBy"],
                     "cfg": dict(at["cfg"], submitter=final["cfg"]["submitter"]), "events": at["events"]}
            env = {"host": host, "loadFails": fail == "load", "groups": step["groups"], "closureFails": fail == "closure",
                   "resetFails": {"reset_before": False, "reset_after": True}.get(fail),
                   "prepFails": {"prep_config": "config", "prep_jobs": "jobs", "prep_groups": "groups"}.get(fail),
                   "eventsFails": fail == "events", "loadMgrFails": fail == "load_mgr",
                   "round": None if (fail == "round" or iobs["round_raised"]) else E.ROUND_NAMES.get(iobs["round_status"], "inProgress"),
                   "roundErr": iobs["round_raised"] if (iobs["round_raised"] and "other:" not in iobs["round_raised"]) else "execError"}
            runs_model.append({"sub": self._modelsub(pre), "flags": dict(zip(("failed", "missing", "successful"), step["flags"])), "env": env})
            runs_impl.append({"outcome": outcome, "after": after, "roundEntered": iobs["round_entered"], "pruned": iobs["csv_rewritten"]})
            new_batches = {k: v for k, v in E.batch_files(out).items() if k not in batches_before}
            this_cmd = {"pre": pre, "at_round": snap.get("state"), "final": final, "flags": step["flags"], "fail": fail,
                        "groups": step["groups"], "host": host, "outcome": outcome, "round_entered": iobs["round_entered"],
                        "new_batches": sorted(new_batches.items()),
                        "changed": E.changed_files(bytes_before, bytes_after),
                        "changed_mod_version": E.changed_files(bytes_before, bytes_after, ignore_version=True),
                        "changed_at_round": E.changed_files(bytes_before, snap["bytes"]) if "bytes" in snap else None,
                        "lock_left": (out / "cluster_config.json.lock").exists()}
            this_cmd["probe"] = None
            rows_gone = [r for r in pre["rows"] if E_sem(r) not in {E_sem(x) for x in final["rows"]}]
            if fail is not None and rows_gone and outcome != {"exit": 0} and not this_cmd["lock_left"]:
                # results were erased by a failed command: is there a way forward on the real code?
                this_cmd["probe"] = E.probe_way_forward(out, step["flags"])
            obs_steps.append(dict(this_cmd, kind="cmd"))
            if pre["cfg"]["isComplete"] and not final["cfg"]["isComplete"]:
                last_cmd = this_cmd     # the command that reset the submission: the next `finish` is its rerun
            if this_cmd["lock_left"]:
                break
        self._pre[canon(case)] = runs_model
        return {"model": runs_impl, "obs": {"steps": obs_steps}}

    # ---------------------------------------------------------------- direct oracles
    def oracle(self, case, result):
        if result.get("timeout"):
            return [Violation("C13", "resubmit.timeout", "resubmit-jobs did not terminate (watchdog)")]
        op = case["op"]
        obs = result.get("obs") or {}
        if op == "resubmit.closure":
            return self._oracle_closure(case, result, obs)
        if op == "resubmit.prepare":
            return self._oracle_prepare(case, result, obs)
        return self._oracle_cmd(case, result, obs)

    def _oracle_closure(self, case, result, obs):
        v = []
        pre = obs["pre"]
        m = result["model"]
        if pre["summary"] is None:
            if m.get("error") != "invalidConfig":
                v.append(Violation("C13", "select.no_results_file", f"no results.json, yet _get_jobs_to_resubmit gave {m}"))
            return v
        want_sel = ref_select(pre["n"], pre["summary"], case["flags"])
        if "selected" not in m:
            return [Violation("C13", "select.raises", f"_get_jobs_to_resubmit raised {m.get('error')}")]
        if set(m["selected"]) != want_sel:
            v.append(Violation("C13", "select.wrong", f"flags {case['flags']}: selected {m['selected']}, expected {sorted(want_sel)}"))
        if "error" in m:
            v.append(Violation("C13", "closure.raises", f"_update_with_blocking_jobs raised {m['error']} (selected {m['selected']}, blockers {pre['blockers']})"))
            return v
        want = ref_closure(pre["n"], pre["blockers"], set(m["selected"]))
        if set(m["closure"]) != want:
            v.append(Violation("C13", "closure.wrong", f"selected {m['selected']}, blockers {pre['blockers']}: closure {m['closure']}, "
                                                       f"expected {sorted(want)} (jobs depending on a selected job)"))
        got = {k: set(bs) for k, bs in m["blockers"]}
        for j in range(pre["n"]):
            wb = set(pre["blockers"][j]) & set(m["closure"])
            if got.get(j, set()) != wb:
                v.append(Violation("C13", "closure.blockers", f"job {j}: blockers recorded {sorted(got.get(j, set()))}, expected "
                                                              f"configured blockers within the rerun set {sorted(wb)}"))
                break
        return v

    def _oracle_prepare(self, case, result, obs):
        v = []
        pre, post = obs["pre"], obs["post"]
        m = result["model"]
        sel = set(case["sel"])
        upd = {k: set(bs) for k, bs in case["upd"]}
        # rows
        keep = [r for r in pre["rows"] if r["name"] not in sel]
        if [sem_row(r) for r in post["rows"]] != [sem_row(r) for r in keep]:
            v.append(Violation("C13", "clear.rows", f"rows after clearing {sorted(sel)}: {post['rows']}, expected the rows of the other jobs unchanged {keep}"))
        if "error" in m:
            if pre["cfg"]["isComplete"]:
                v.append(Violation("C13", "prepare.raises", f"prepare_for_resubmission raised {m['error']} on a complete submission"))
            return v
        n = pre["n"]
        for j in range(n):
            if j in sel:
                if post["states"][j] != "n" or set(post["blockedBy"][j]) != upd.get(j, set()):
                    v.append(Violation("C13", "prepare.reset", f"job {j} in the rerun set: state {post['states'][j]}, blockers {post['blockedBy'][j]}, "
                                                               f"expected not_submitted with {sorted(upd.get(j, set()))}"))
                    break
            elif post["states"][j] != pre["states"][j] or post["blockedBy"][j] != pre["blockedBy"][j]:
                v.append(Violation("C13", "prepare.touched_other", f"job {j} not in the rerun set changed: {pre['states'][j]}{pre['blockedBy'][j]} -> "
                                                                   f"{post['states'][j]}{post['blockedBy'][j]}"))
                break
        c = post["cfg"]
        if c["isComplete"] or c["isCanceled"]:
            v.append(Violation("C13", "prepare.flags", f"after prepare_for_resubmission is_complete={c['isComplete']} is_canceled={c['isCanceled']}"))
        done = sum(1 for s in post["states"] if s == "d")
        subm = sum(1 for s in post["states"] if s != "n")
        if c["completed"] != done:
            v.append(Violation("C13", "prepare.completed_counter", f"completed_jobs={c['completed']} but {done} jobs are done"))
        stray = [j for j in range(n) if pre["states"][j] == "n" and j not in sel]
        if (c["submitted"] == subm) != (not stray):
            v.append(Violation("C13", "prepare.counter_characterisation",
                               f"submitted_jobs={c['submitted']}, {subm} jobs submitted/done, never-submitted jobs outside the set: {stray}"))
        return v

    def _oracle_cmd(self, case, result, obs):
        v = []
        for st in obs.get("steps", []):
            if st["kind"] == "cmd":
                v += self._oracle_cmd_step(st)
            else:
                v += self._oracle_finish(st)
        return v

    def _oracle_cmd_step(self, st):
        v = []
        pre, final, out = st["pre"], st["final"], st["outcome"]
        held = pre["cfg"]["submitter"]
        n = pre["n"]
        ctx = f"[flags {st['flags']}, fail {st['fail']}, groups {st['groups']}, host {st['host']}, submitter before {held}]"
        removed = [r for r in pre["rows"] if sem_row(r) not in {sem_row(x) for x in final["rows"]}]
        # --- a failure never leaves results erased with the role still held
        failed = out != {"exit": 0}
        if failed and removed and final["cfg"]["submitter"] is not None:
            v.append(Violation("C13", "resubmit.failure.stranded",
                               f"{ctx} outcome {out}: rows of {[r['name'] for r in removed]} erased and submitter still {final['cfg']['submitter']!r}"))
        pr = st.get("probe")
        if pr and pr["try_submit"].startswith("raised") and not pr["resubmit_round"]:
            key = "resubmit.prepare_failure.wedged" if st["fail"] in ("prep_config", "prep_jobs") else "resubmit.failure.wedged"
            v.append(Violation("C13", key,
                               f"{ctx} outcome {out}: rows of {[r['name'] for r in removed]} erased, status now {final['cfg']} with job states "
                               f"{final['states']}; afterwards try-submit-jobs -> {pr['try_submit']} and resubmit-jobs -> {pr['resubmit']}: "
                               f"results erased and no command can make progress"))
        if st["fail"] == "load":
            if st["changed"]:
                v.append(Violation("C13", "resubmit.load_failure.changed", f"{ctx} files changed although the cluster could not be loaded: {st['changed']}"))
            return v
        # --- refusal on an incomplete submission
        if not pre["cfg"]["isComplete"]:
            if out != {"exit": 1}:
                v.append(Violation("C13", "resubmit.incomplete.outcome", f"{ctx} incomplete submission: outcome {out}, expected exit 1"))
            ch = st["changed"] if held is not None else st["changed_mod_version"]
            if ch or st["lock_left"]:
                v.append(Violation("C13", "resubmit.incomplete.changed", f"{ctx} incomplete submission: files changed {ch}, lock file left: {st['lock_left']}"))
            if final["cfg"]["submitter"] != held:
                v.append(Violation("C13", "resubmit.incomplete.role", f"{ctx} incomplete submission: submitter {held!r} -> {final['cfg']['submitter']!r}"))
            for k in ("rows", "states", "blockedBy", "summary", "events"):
                if final[k] != pre[k]:
                    v.append(Violation("C13", "resubmit.incomplete.changed", f"{ctx} incomplete submission: {k} changed"))
            if {k: final["cfg"][k] for k in ("submitted", "completed", "isComplete", "isCanceled")} != \
                    {k: pre["cfg"][k] for k in ("submitted", "completed", "isComplete", "isCanceled")}:
                v.append(Violation("C13", "resubmit.incomplete.changed", f"{ctx} incomplete submission: counters/flags changed {pre['cfg']} -> {final['cfg']}"))
            return v
        # --- complete, but the role is held by somebody: nothing may change
        if held is not None:
            if st["changed"] or final["cfg"]["submitter"] != held:
                v.append(Violation("C13", "resubmit.held.changed", f"{ctx} role held: files changed {st['changed']}, submitter now {final['cfg']['submitter']!r}"))
            return v
        if st["groups"] in ("lenMismatch", "unknownName", "raises"):
            if st["changed_mod_version"] and st["groups"] != "raises":
                v.append(Violation("C13", "resubmit.groups.changed", f"{ctx} rejected groups file but files changed: {st['changed_mod_version']}"))
            return v
        # --- the command went into its try block
        if pre["summary"] is None:
            return v
        sel = ref_select(n, pre["summary"], st["flags"])
        clo = ref_closure(n, pre["blockers"], sel)
        at = st["at_round"]
        if st["fail"] is None and at is None:
            v.append(Violation("C13", "resubmit.no_round", f"{ctx} no failure injected, yet the submit round was not reached: {out}"))
            return v
        if at is None:
            # failed before the round: the rows that are gone belong to the rerun set, everything else is as before
            if any(r["name"] not in clo for r in removed):
                v.append(Violation("C13", "resubmit.failure.erased_other", f"{ctx} rows of jobs outside the rerun set {sorted(clo)} erased: {removed}"))
            if final["summary"] != pre["summary"]:
                v.append(Violation("C13", "resubmit.failure.summary", f"{ctx} results.json changed by a failed command"))
            if final["cfg"]["isComplete"]:
                # still complete: the same command must select the same jobs again
                sel2 = ref_select(n, final["summary"], st["flags"])
                if sel2 != sel:
                    v.append(Violation("C13", "resubmit.failure.selection", f"{ctx} selection after the failure {sorted(sel2)} != {sorted(sel)}"))
            return v
        if st["fail"] is None and "raised" in out:
            v.append(Violation("C13", "resubmit.round.raises", f"{ctx} the submit round on the reset submission raised {out['raised']}"))
        # state handed to the submit round
        keep = [r for r in pre["rows"] if r["name"] not in clo]
        if [sem_row(r) for r in at["rows"]] != [sem_row(r) for r in keep]:
            v.append(Violation("C13", "resubmit.rows", f"{ctx} rerun set {sorted(clo)}: rows left {at['rows']}, expected exactly the other jobs' rows {keep}"))
        for j in range(n):
            if j in clo:
                wb = sorted(set(pre["blockers"][j]) & clo)
                if at["states"][j] != "n" or at["blockedBy"][j] != wb:
                    v.append(Violation("C13", "resubmit.reset", f"{ctx} job {j} of the rerun set {sorted(clo)}: state {at['states'][j]} blockers "
                                                                f"{at['blockedBy'][j]}, expected not_submitted blocked by {wb}"))
                    break
            elif at["states"][j] != pre["states"][j] or at["blockedBy"][j] != pre["blockedBy"][j]:
                v.append(Violation("C13", "resubmit.touched_other", f"{ctx} job {j} outside the rerun set {sorted(clo)} changed"))
                break
        c = at["cfg"]
        if c["isComplete"] or c["isCanceled"]:
            v.append(Violation("C13", "resubmit.flags", f"{ctx} is_complete={c['isComplete']} is_canceled={c['isCanceled']} when the rerun starts"))
        done = sum(1 for s in at["states"] if s == "d")
        subm = sum(1 for s in at["states"] if s != "n")
        if c["completed"] != done:
            v.append(Violation("C13", "resubmit.completed_counter", f"{ctx} completed_jobs={c['completed']} but {done} jobs are done"))
        if c["submitted"] != subm:
            stray = [j for j in range(n) if pre["states"][j] == "n" and j not in clo]
            key = "resubmit.no_missing.counters" if stray and c["submitted"] == n - len(clo) else "resubmit.submitted_counter"
            v.append(Violation("C13", key, f"{ctx} rerun set {sorted(clo)}: submitted_jobs={c['submitted']} but {subm} jobs are submitted/done "
                                           f"(never-submitted jobs outside the rerun set: {stray})"))
            v.append(Violation("C09", key, f"{ctx} rerun set {sorted(clo)}: submitted_jobs={c['submitted']} but {subm} jobs are submitted/done"))
        if pre["events"] is not None and at["events"] != 0 and st["fail"] != "events":
            v.append(Violation("C13", "resubmit.events", f"{ctx} events/ not emptied: {at['events']} files"))
        if at["summary"] != pre["summary"]:
            v.append(Violation("C13", "resubmit.summary", f"{ctx} results.json changed before the rerun"))
        if not failed and final["cfg"]["submitter"] is not None:
            v.append(Violation("C13", "resubmit.role.kept", f"{ctx} outcome {out}: submitter still {final['cfg']['submitter']!r} afterwards"))
        # what the round launched
        launched = [j for _, jobs in st["new_batches"] for j in jobs]
        extra = [j for j in launched if j not in clo]
        if extra and coherent(pre):
            never = [j for j in extra if pre["states"][j] == "n"]
            key = "resubmit.no_missing.unselected_job_runs" if len(never) == len(extra) else "resubmit.rerun.unselected"
            v.append(Violation("C13", key, f"{ctx} jobs {extra} are outside the rerun set {sorted(clo)} but were batched: {st['new_batches']}"))
        if len(set(launched)) != len(launched):
            v.append(Violation("C13", "resubmit.rerun.twice", f"{ctx} a job was batched twice: {st['new_batches']}"))
        return v

    def _oracle_finish(self, st):
        v = []
        cmd = st["cmd"]
        if cmd is not None and cmd["fail"] in ("prep_config", "prep_jobs") and st.get("error"):
            # observation (C09, not C13's conjunction: the role was released): a failure between the writes of
            # prepare_for_resubmission leaves counters that contradict the job states; no later round can run
            return [Violation("C09", "resubmit.prepare_failure.inconsistent_status",
                              f"after resubmit-jobs failed in prepare_for_resubmission ({cmd['fail']}) the persisted status is "
                              f"{cmd['final']['cfg']} with job states {cmd['final']['states']}; try-submit-jobs then raised {st['error']}")]
        if cmd is None or cmd["pre"]["summary"] is None or cmd["fail"] in ("prep_config", "prep_jobs"):
            return v
        if st.get("error"):
            return [Violation("C13", "rerun.raises", f"try-submit-jobs after a resubmission raised {st['error']}")]
        pre = cmd["pre"]
        n = pre["n"]
        after = st["after"]
        if not coherent(pre):
            return v
        if not after["cfg"]["isComplete"]:
            v.append(Violation("C13", "rerun.incomplete", f"the rerun did not complete: {after['cfg']} states {after['states']}"))
            return v
        sel = ref_select(n, pre["summary"], cmd["flags"])
        clo = ref_closure(n, pre["blockers"], sel)
        batches = list(cmd["new_batches"]) + [list(x) for x in st["processed"] if x[0] not in {b for b, _ in cmd["new_batches"]}]
        launched = [j for _, jobs in batches for j in jobs]
        ctx = f"[flags {cmd['flags']}, rerun set {sorted(clo)}, batches {batches}]"
        if len(set(launched)) != len(launched):
            v.append(Violation("C13", "rerun.twice", f"{ctx} a job ran twice"))
        extra = sorted(set(launched) - clo)
        if extra:
            never = [j for j in extra if pre["states"][j] == "n"]
            key = "resubmit.no_missing.unselected_job_runs" if len(never) == len(extra) else "resubmit.rerun.unselected"
            v.append(Violation("C13", key, f"{ctx} jobs {extra} ran although they are outside the rerun set"))
        lost = sorted(runnable(pre["blockers"], clo) - set(launched))
        if lost:
            v.append(Violation("C13", "rerun.not_run", f"{ctx} jobs {lost} of the rerun set never ran"))
        when = {}
        for bi, jobs in batches:
            for pos, j in enumerate(jobs):
                when.setdefault(j, (bi, pos))
        for j in launched:
            for b in pre["blockers"][j]:
                if b in clo and b in when and when[b][0] > when[j][0]:
                    v.append(Violation("C13", "rerun.order", f"{ctx} job {j} was batched before its blocker {b}"))
        # one entry per job afterwards; untouched rows preserved
        names = [r["name"] for r in (after["summary"] or [])]
        if len(set(names)) != len(names) or len({r["name"] for r in after["rows"]}) != len(after["rows"]):
            v.append(Violation("C13", "rerun.duplicate_rows", f"{ctx} a job has two result entries afterwards: {names}"))
        had = {r["name"] for r in pre["rows"]}
        expect_names = (had - clo) | set(launched)
        if extra:
            return v   # already reported; what follows are consequences
        if set(names) != expect_names:
            v.append(Violation("C13", "rerun.entries", f"{ctx} results hold entries for {sorted(set(names))}, expected {sorted(expect_names)}"))
        keep = {r["name"]: sem_row(r) for r in pre["rows"] if r["name"] not in clo and r["name"] not in extra}
        now = {r["name"]: sem_row(r) for r in (after["summary"] or [])}
        for k, r in keep.items():
            if now.get(k) != r:
                v.append(Violation("C13", "rerun.preserved", f"{ctx} result of untouched job {k} changed: {r} -> {now.get(k)}"))
                break
        return v

    # ---------------------------------------------------------------- tags
    def tags(self, case, result):
        op = case["op"]
        m = result.get("model")
        t = []
        if op == "resubmit.closure":
            if not isinstance(m, dict) or "closure" not in m:
                return ["closure.error:" + str((m or {}).get("error"))]
            sel, clo = set(m["selected"]), set(m["closure"])
            if not sel:
                return ["trivial.nothing_selected"]
            t.append("closure.grew" if clo != sel else "closure.none_added")
            n = case["sub"]["n"]
            passes = self._passes(n, case["sub"]["blockers"], sel)
            t.append(f"closure.passes={min(passes, 5)}{'+' if passes > 5 else ''}")
            if any(b > j for j in clo for b in case["sub"]["blockers"][j]):
                t.append("closure.backward_edge")
            if m["blockers"]:
                t.append("closure.blockers_recorded")
            t.append("flags=" + "".join("fms"[i] if x else "-" for i, x in enumerate(case["flags"])))
            return t
        if op == "resubmit.prepare":
            if "error" in m:
                return ["prepare.error:" + m["error"]]
            if not case["sel"]:
                return ["trivial.prepare_empty"]
            pre = result["obs"]["pre"]
            stray = [j for j in range(pre["n"]) if pre["states"][j] == "n" and j not in set(case["sel"])]
            return ["prepare.ok", "prepare.stray_unsubmitted" if stray else "prepare.counters_consistent"]
        for st in result["obs"]["steps"]:
            if st["kind"] == "finish":
                t.append("finish.error" if st.get("error") else "finish.complete" if st["after"]["cfg"]["isComplete"] else "finish.incomplete")
                continue
            out = st["outcome"]
            t.append("cmd." + ("exit%d" % out["exit"] if "exit" in out else "raised." + out["raised"]))
            if st["fail"]:
                t.append("fail." + st["fail"])
            if st.get("probe"):
                pr = st["probe"]
                t.append("probe." + ("wedged" if pr["try_submit"].startswith("raised") and not pr["resubmit_round"] else
                                     "repeatable" if pr["resubmit_round"] else "try_submit_acts"))
            if st["groups"] != "absent":
                t.append("groups." + st["groups"])
            if not st["pre"]["cfg"]["isComplete"]:
                t.append("refused.incomplete." + ("held" if st["pre"]["cfg"]["submitter"] else "free"))
            elif st["pre"]["cfg"]["submitter"] is not None:
                t.append("held.complete")
            if st["round_entered"]:
                t.append("round.entered")
                t.append("events." + ("absent" if st["pre"]["events"] is None else "present"))
            if st["pre"]["rows"] != (st["pre"]["summary"] or []) and st["pre"]["summary"] is not None:
                t.append("summary.differs_from_csv")
        n_cmd = sum(1 for s in case["steps"] if s["kind"] == "cmd")
        if n_cmd > 1:
            t.append("repeated")
        return t or ["trivial.nosteps"]

    @staticmethod
    def _passes(n, blockers, sel):
        cur = set(sel)
        passes = 0
        for _ in range(n + 1):
            passes += 1
            first = len(cur)
            for j in range(n):
                if set(blockers[j]) & cur:
                    cur.add(j)
            if len(cur) == first:
                break
        return passes

    # ---------------------------------------------------------------- shrinking
    def shrink(self, case):
        sub = case["sub"]
        n = sub["n"]
        if case["op"] == "resubmit.cmd":
            steps = case["steps"]
            for i in range(len(steps) - 1, -1, -1):
                if len(steps) > 1:
                    yield dict(case, steps=steps[:i] + steps[i + 1:])
            for i, s in enumerate(steps):
                if s["kind"] == "cmd" and s.get("groups", "absent") != "absent":
                    yield dict(case, steps=steps[:i] + [dict(s, groups="absent")] + steps[i + 1:])
                if s["kind"] == "finish" and s["rcs"]:
                    yield dict(case, steps=steps[:i] + [dict(s, rcs={})] + steps[i + 1:])
        # drop one job (renumber)
        for k in range(n - 1, -1, -1):
            if n <= 1:
                break
            keep = [i for i in range(n) if i != k]
            ren = {old: new for new, old in enumerate(keep)}

            def rr(rows):
                return [dict(r, name=ren[r["name"]]) for r in rows if r["name"] in ren]
            s2 = dict(sub, n=n - 1,
                      blockers=[sorted(ren[b] for b in sub["blockers"][i] if b in ren) for i in keep],
                      rows=rr(sub["rows"]), states=[sub["states"][i] for i in keep],
                      blockedBy=[sorted(ren[b] for b in sub["blockedBy"][i] if b in ren) for i in keep])
            if isinstance(sub.get("summary"), list):
                s2["summary"] = rr(sub["summary"])
            c = dict(case, sub=s2)
            if case["op"] == "resubmit.prepare":
                c["sel"] = [ren[x] for x in case["sel"] if x in ren]
                c["upd"] = [[ren[a], sorted(ren[b] for b in bs if b in ren)] for a, bs in case["upd"] if a in ren]
            if case["op"] == "resubmit.cmd":
                c["steps"] = [dict(s, rcs={str(ren[int(a)]): b for a, b in s["rcs"].items() if int(a) in ren}) if s["kind"] == "finish" else s
                              for s in case["steps"]]
            yield c
        for j in range(n):
            for b in sub["blockers"][j]:
                s2 = dict(sub, blockers=[[x for x in bl if not (i == j and x == b)] for i, bl in enumerate(sub["blockers"])],
                          blockedBy=[[x for x in bl if not (i == j and x == b)] for i, bl in enumerate(sub["blockedBy"])])
                yield dict(case, sub=s2)
        if sub.get("events") is not None:
            yield dict(case, sub=dict(sub, events=None))
        if sub.get("canceled"):
            yield dict(case, sub=dict(sub, canceled=False))
        if isinstance(sub.get("summary"), list):
            yield dict(case, sub=dict(sub, summary="rows"))
        if sub.get("batchIndex", 1) != 1:
            yield dict(case, sub=dict(sub, batchIndex=1))


SUITE = ResubmitSuite()
