"""Suite `results` (C08): the REAL `ResultsAggregator` on real files, at lock-operation granularity,
against `Model/Results.lean` (byte-level model, driver op `results.run`).

Every runner / submitter round is a worker thread of `coop.Scheduler`; `SoftFileLock` inside
`jade.jobs.results_aggregator` is replaced by the cooperative marker-file lock (a contended acquire
raises `Timeout` at once = the op is a stutter), and the file mutations of the module are yield
points.  The yield policy reproduces the model's granularity:

    op            real code run by this step
    append        AsyncCliCommand._complete() / .cancel() / ResultsAggregator.append(): whole call
    begin         process_results(): acquire consolidated lock, glob, up to the first node-lock acquire
    lock          acquire the node file's lock, `_get_results()`, up to `open(consolidated, "a")`
    move          the next file mutation of `_move_results` (copy, then `os.remove`), up to the next
                  mutation / node-lock acquire / release of the consolidated lock
    end           release the consolidated lock, `process_results()` returns
    cancel        HpcSubmitter._cancel_job(job, aggregator): whole call

    fault         {"t": "fault", "p": p, "what": "read"|"open"|"write"|"remove"}: arms ONE injected
                  `OSError(EDQUOT)` for collector p's next matching file operation inside a collection
                  (read = open of the node file in `_get_results`; open = the append-open of
                  processed_results.csv; write = the write/flush/close after that open succeeded: NOTHING
                  reaches the file, the error surfaces at close, as for a small buffered write whose one
                  write(2) fails; remove = `os.remove` of the node file).  The REAL exception propagation
                  follows (context managers, both `finally: lock.release()`, `process_results` raises).
    kill          {"t": "kill", "p": p}: collector p dies at its current yield point (thread parked for
                  good: no `finally` runs, its lock markers stay on disk).  With "at": "opened"|"removed"
                  the death is armed for a point INSIDE its next matching step: right after the append-
                  open succeeded (nothing flushed) / right after `os.remove` (node lock still held).
    breakLocks    the markers of dead processes are removed (a lock library breaking stale markers / an
                  operator); later collectors can proceed.

After every op the files on disk, the lock markers and the finished calls' return values are dumped
and compared with the Lean driver.  The direct oracle (`oracle`) states C08 on those observations
without the model.
"""
import builtins
import csv
import errno
import io
import itertools
import os
import re
import sys
import threading
from collections import Counter
from pathlib import Path

import common
from common import Suite, Violation, canon, err_enum, quiet, scratch_dir
import coop

FIELDS = ["name", "return_code", "status", "exec_time_s", "completion_time", "hpc_job_id"]
HEADER = ",".join(FIELDS) + "\n"


class _Clock:
    """fake `time` for jade.result (default completion_time) and jade.jobs.async_cli_command"""
    now = 0.0

    @classmethod
    def time(cls):
        return cls.now


class _JobStub:
    def __init__(self, name):
        self.name = name
        self.state = None
        self.blocked_by = set()
        self.cancel_on_blocking_job_failure = True


class _SubmitterStub:
    """the attributes of HpcSubmitter that `_cancel_job` may look at"""
    def __init__(self, output):
        self._output = output


class _Pipe:
    def __init__(self, rc):
        self.returncode = rc
        self.pid = 4242


def fnum(s):
    return float(s)


class _DoomedFile:
    """what `open(path, "a")` returns when a write fault is armed: the open has succeeded (the file
    exists now), every write stays in the buffer, the flush at close fails with EDQUOT and nothing
    has reached the file (one failed write(2) of a small buffer)."""

    def __init__(self, real, path):
        self._real, self._path, self._closed = real, path, False

    def tell(self):
        return self._real.tell()

    def write(self, text):
        return len(text)

    def writelines(self, lines):
        pass

    def flush(self):
        raise OSError(errno.EDQUOT, "Disk quota exceeded", self._path)

    def close(self):
        if not self._closed:
            self._closed = True
            self._real.close()
            raise OSError(errno.EDQUOT, "Disk quota exceeded", self._path)

    def __enter__(self):
        return self

    def __exit__(self, *exc):
        self.close()

    def __getattr__(self, name):
        return getattr(self._real, name)


class _FaultyOs(coop.OsProxy):
    """coop.OsProxy (same yield points) + the armed remove fault / death after the removal"""

    def __init__(self, suite, get_sched, root):
        super().__init__(get_sched, root)
        self._suite = suite

    def remove(self, path, *a, **k):
        self._yield("remove", path)
        self._suite._fault_point("remove", path)
        r = os.remove(path, *a, **k)
        self._suite._fault_point("removed", path)
        return r

    def unlink(self, path, *a, **k):
        self._yield("remove", path)
        self._suite._fault_point("remove", path)
        r = os.unlink(path, *a, **k)
        self._suite._fault_point("removed", path)
        return r


def _faulty_open(suite, get_sched, root):
    """coop.yielding_open (same yield points) + the armed open / write / read faults"""
    def _open(file, mode="r", *a, **k):
        if any(c in mode for c in "wax+"):
            sched = get_sched()
            if sched is not None and coop._under(file, root):
                sched.yield_point("open:" + "".join(c for c in mode if c in "wax+"), os.fspath(file))
            suite._fault_point("open", file)
            f = builtins.open(file, mode, *a, **k)
            suite._fault_point("opened", file)
            if suite._fault_point("write", file) == "doomed":
                return _DoomedFile(f, os.fspath(file))
            return f
        suite._fault_point("read", file)
        return builtins.open(file, mode, *a, **k)
    return _open


def cancel_helper(cls):
    """`HpcSubmitter._cancel_job`, the method that writes the row of a canceled job — or, when that private helper was
    renamed, the one method `_update_completed_jobs` calls on `self` that appends a result (a rename is not a change of
    behaviour: calling the old name raised AttributeError, which the oracle reported as a failing writer)."""
    fn = cls.__dict__.get("_cancel_job")
    if fn is not None:
        return fn
    import ast
    import inspect
    import textwrap
    tree = ast.parse(textwrap.dedent(inspect.getsource(cls._update_completed_jobs)))
    called = {n.func.attr for n in ast.walk(tree) if isinstance(n, ast.Call) and isinstance(n.func, ast.Attribute)
              and isinstance(n.func.value, ast.Name) and n.func.value.id == "self"}
    cands = [cls.__dict__[n] for n in sorted(called) if inspect.isfunction(cls.__dict__.get(n))
             and "append_result" in inspect.getsource(cls.__dict__[n])]
    if len(cands) != 1:
        raise RuntimeError(f"cannot identify the helper of HpcSubmitter that writes a canceled row: {[c.__name__ for c in cands]}")
    return cands[0]


class ResultsSuite(Suite):
    name = "results"

    # ------------------------------------------------------------------ set-up
    def setup(self):
        import jade.jobs.results_aggregator as ra
        import jade.jobs.async_cli_command as acc
        import jade.result as jres
        self.ra, self.acc, self.jres = ra, acc, jres
        self.sched = None
        self._scratch_cm = scratch_dir("jadeverif-results-")
        self.root = self._scratch_cm.__enter__()
        self._case_no = 0
        self._parse_cache = {}
        self.extra = getattr(self, "extra", {})
        self._armed, self._fired = {}, []
        get = lambda: self.sched  # noqa: E731
        suite = self
        orig_glob = ra.ResultsAggregator._get_node_results_files

        def recording_glob(agg):
            paths = orig_glob(agg)
            w = suite.sched.current() if suite.sched is not None else None
            if w is not None:
                w.ctx["snap"] = [suite._batch_of(p) for p in paths]
            return paths

        self._patches = [
            coop.patched(ra, "SoftFileLock", coop.lock_class(get, on_contended="timeout")),
            coop.patched(ra, open=_faulty_open(self, get, self.root), os=_FaultyOs(self, get, self.root)),
            coop.patched(ra.ResultsAggregator, "_get_node_results_files", recording_glob),
            coop.patched(jres, "time", common.dual_time(_Clock)),
            coop.patched(acc, "time", common.dual_time(_Clock)),
        ]
        for p in self._patches:
            p.__enter__()

    def teardown(self):
        for p in reversed(getattr(self, "_patches", [])):
            p.__exit__(None, None, None)
        self._patches = []
        if self.sched is not None:
            self.sched.close()
            self.sched = None
        self._scratch_cm.__exit__(None, None, None)

    @staticmethod
    def _batch_of(path):
        m = re.search(r"(\d+)", Path(path).name)
        return int(m.group(1)) if m else -1

    # ------------------------------------------------------------------ fault points
    def _fault_point(self, what, path):
        """called by the io layer inside a worker: fire the fault / death armed for this worker if it is
        of this kind (only file operations of a collection on files of the case directory)"""
        sched = self.sched
        w = sched.current() if sched is not None else None
        if w is None or w.ctx.get("call") != "collect" or not coop._under(path, self.root):
            return None
        a = self._armed.get(w.name)
        if not a or a["what"] != what:
            return None
        del self._armed[w.name]
        self._fired.append({"p": int(w.name[1:]), "what": what, "kind": a["kind"]})
        if a["kind"] == "die":
            # parked for good: the harness abandons the worker (`Scheduler.kill`); teardown unwinds it
            sched.yield_point("killed", os.fspath(path), force=True)
            raise coop.Killed()
        if what == "write":
            return "doomed"
        raise OSError(errno.EDQUOT, "Disk quota exceeded", os.fspath(path))

    # ------------------------------------------------------------------ yield policy
    def _policy(self, w, kind, detail):
        call = w.ctx.get("call")
        if call != "collect":
            return False                      # appends / cancels are one atomic section
        if kind == "acquire":
            return len(w.locks) > 0           # the nested node-file lock
        if kind == "release":
            # (while an exception unwinds through the `finally: lock.release()`s the call is not
            # interruptible: the model's `raiseOut` is one step)
            return detail == w.ctx.get("cons_lock") and sys.exc_info()[0] is None
        if kind.startswith("open:") or kind in ("remove", "rename"):
            return True                       # file mutations inside `_move_results`
        return False

    # ------------------------------------------------------------------ generators
    def cases(self, rng, tier, prop):
        out = []
        n_run = {"quick": 260, "thorough": 1500}[tier]
        for i in range(n_run):
            out.append(self._gen_run(rng, small=(i % 4 == 0)))
        if tier == "thorough":
            out += self._exhaustive()
        out += self._byte_cases(rng, 150 if tier == "quick" else 1200)
        # histories with injected I/O errors and kills (generated last: the cases above are unchanged)
        for i in range({"quick": 110, "thorough": 700}[tier]):
            out.append(self._gen_fault_run(rng, small=(i % 3 == 0)))
        out += self._exhaustive_faults(full=(tier == "thorough"))
        return out

    def _mkrow(self, rng, name, kind):
        ct = str(float(rng.choice([1700000000, 1700000123, 1712345678]) + rng.choice([0, 0.25, 0.5, 0.125])))
        hpc = rng.choice(["None", "None", "1234", "987654", "55"])
        if kind == "cancel":
            return [name, "1", "canceled", "0.0", ct, hpc]
        rc = rng.choice(["0", "0", "0", "1", "2", "127", "-9", "255"])
        et = str(float(rng.choice([0, 1, 3, 12, 100, 3600]) + rng.choice([0, 0.5, 0.25, 0.0625])))
        return [name, rc, "finished", et, ct, hpc]

    def _gen_fault_run(self, rng, small=False):
        """an op sequence with at least one injected failure / kill"""
        for _ in range(20):
            case = self._gen_run(rng, small=small, faults=True)
            if any(o["t"] in ("fault", "kill") for o in case["ops"]):
                break
        return case

    # what can be armed, by the phase the collection is in (weights favour what fires next)
    _ARM = {
        "lock": [("fail", "read", 3), ("fail", "open", 2), ("fail", "write", 2), ("fail", "remove", 1),
                 ("die", "opened", 1), ("die", "removed", 1)],
        "copy": [("fail", "open", 3), ("fail", "write", 3), ("die", "opened", 2), ("fail", "remove", 1),
                 ("die", "removed", 1), ("fail", "read", .3)],
        "remove": [("fail", "remove", 3), ("die", "removed", 2), ("fail", "read", 1), ("fail", "open", .5)],
        "end": [("fail", "read", 1), ("fail", "open", 1)],
    }
    # the step at which an armed failure / death fires, and whether the process survives it
    _FIRES = {("fail", "read"): "lock", ("fail", "open"): "copy", ("fail", "write"): "copy",
              ("die", "opened"): "copy", ("fail", "remove"): "remove", ("die", "removed"): "remove"}

    def _gen_run(self, rng, small=False, faults=False):
        """weighted random op sequence; a Python mini-simulation keeps most ops enabled and steers
        towards: appends racing the collection of the same batch, re-creation after deletion,
        a second collector / a cancellation knocking on the held consolidated lock.
        `faults`: additionally arm I/O errors / deaths for the collector in progress (mostly the one that
        fires at its next step), kill it at its yield point, break the stale markers (or not), probe a
        collector whose call was aborted, and let other collectors pick up afterwards."""
        nb = rng.randint(1, 2 if small else 4)
        batches = rng.sample(range(1, 9), nb) if rng.random() < .5 else list(range(1, nb + 1))
        ncoll = rng.randint(2, 3 if small else 4) if faults else rng.randint(1, 2 if small else 3)
        nwriters = rng.randint(1, 3)
        budget = {b: rng.randint(1, 3 if small else 5) for b in batches}
        max_ops = rng.randint(6, 18) if small else rng.randint(15, 40)
        ops = []
        files = set()
        deleted = set()
        holder = None           # (p, remaining_files, phase) phase in lock|copy|remove
        names = itertools.count(1)
        used_names = []
        kinds = ["direct", "complete", "cancel"]
        dead = set()            # killed collectors
        stale = False           # a dead collector's markers are on disk
        armed = {}              # p -> (kind, what)
        probe = None            # collector whose call was just aborted by an injected failure
        if faults:
            max_ops += rng.randint(4, 12)
        while len(ops) < max_ops:
            choices = []
            can_append = [b for b in batches if budget[b] > 0]
            if can_append:
                choices.append(("append", 5 if holder is None else 7))
            if holder is None:
                choices.append(("begin", 3 if files else 1))
                choices.append(("cancel", 1))
            else:
                choices.append(("step", 5))
                choices.append(("begin_blocked", .5))
                choices.append(("cancel", .4))
            choices.append(("junk", .25))
            if faults:
                live = [q for q in range(ncoll) if q not in dead]
                if not live:
                    break
                if stale:
                    choices = [c for c in choices if c[0] not in ("step",)]
                    choices.append(("breakLocks", 5))
                    choices.append(("step", .5))     # steps of the dead process: stutters
                elif holder is not None:
                    choices.append(("arm", 3.5 if holder[0] not in armed else .3))
                    choices.append(("kill", 1.3))
                else:
                    choices.append(("arm_idle", .3))
                if probe is not None:
                    choices.append(("probe", 6))
            kind = rng.choices([c for c, _ in choices], [w for _, w in choices])[0]
            if faults and kind in ("arm", "arm_idle", "kill", "breakLocks", "probe"):
                if kind == "arm":
                    table = self._ARM[holder[2]]
                    k, what, _ = rng.choices(table, [x[2] for x in table])[0]
                    armed[holder[0]] = (k, what)
                    ops.append({"t": "fault", "p": holder[0], "what": what} if k == "fail"
                               else {"t": "kill", "p": holder[0], "at": what})
                elif kind == "arm_idle":
                    q = rng.choice(live)
                    what = rng.choice(["read", "open", "write", "remove"])
                    armed[q] = ("fail", what)
                    ops.append({"t": "fault", "p": q, "what": what})
                elif kind == "kill":
                    ops.append({"t": "kill", "p": holder[0]})
                    dead.add(holder[0])
                    armed.pop(holder[0], None)
                    stale = True
                elif kind == "breakLocks":
                    ops.append({"t": "breakLocks"})
                    stale, holder = False, None
                else:
                    # in the unchanged code the aborted call is over: these are stutters
                    for t in rng.choice([["move"], ["move", "move"], ["end"], ["lock", "move"], ["move", "end"]]):
                        ops.append({"t": t, "p": probe})
                    probe = None
                continue
            if faults and kind == "step" and not stale and armed.get(holder[0]) and \
                    self._FIRES[armed[holder[0]]] == holder[2]:
                # the armed failure / death fires in this step
                q = holder[0]
                k, _ = armed.pop(q)
                ops.append({"t": "lock" if holder[2] == "lock" else "move", "p": q})
                if holder[2] == "remove":
                    deleted |= set(files)
                if k == "fail":
                    holder, probe = None, q
                else:
                    dead.add(q)
                    stale = True
                continue
            if faults and kind == "step" and stale:
                ops.append({"t": rng.choice(["lock", "move", "end"]), "p": holder[0]})   # the dead process: stutter
                continue
            if faults and kind == "begin":
                q = rng.choice(live)        # (a dead process does nothing: let a live one start)
                ops.append({"t": "begin", "p": q})
                holder = [q, len(files), "lock" if files else "end"]
                continue
            if kind == "append":
                # favour batches that exist (racing a collection) or were just deleted (re-creation)
                wts = [(3 if b in files else 1) + (4 if b in deleted else 0) for b in can_append]
                b = rng.choices(can_append, wts)[0]
                budget[b] -= 1
                if used_names and rng.random() < .04:
                    nm = rng.choice(used_names)
                else:
                    nm = f"job_{next(names)}" if rng.random() < .8 else rng.choice(["a.b-c", "J", "x_1", "9"]) + str(next(names))
                used_names.append(nm)
                k = rng.choice(kinds)
                ops.append({"t": "append", "w": rng.randrange(nwriters), "b": b, "kind": k, "row": self._mkrow(rng, nm, k)})
                # (if the batch is locked right now the append is blocked; the simulation does not know)
                files.add(b)
                deleted.discard(b)
            elif kind == "begin":
                p = rng.randrange(ncoll)
                ops.append({"t": "begin", "p": p})
                holder = [p, len(files), "lock"]
                if not files:
                    holder[2] = "end"
            elif kind == "begin_blocked":
                ops.append({"t": "begin", "p": rng.randrange(ncoll)})
            elif kind == "cancel":
                p = rng.randrange(ncoll)
                nm = f"c_{next(names)}"
                ct = str(float(rng.choice([1700000000, 1700000500]) + rng.choice([0, 0.5, 0.75])))
                ops.append({"t": "cancel", "p": p, "row": [nm, "1", "canceled", "0", ct, "None"]})
            elif kind == "step":
                p, rem, phase = holder
                if phase == "lock":
                    ops.append({"t": "lock", "p": p})
                    holder[2] = "copy"
                elif phase == "copy":
                    ops.append({"t": "move", "p": p})
                    holder[2] = "remove"
                elif phase == "remove":
                    ops.append({"t": "move", "p": p})
                    holder[1] = rem - 1
                    holder[2] = "lock" if rem - 1 > 0 else "end"
                    # which file went is unknown here; treat all snapshot files as possibly deleted
                    deleted |= set(files)
                    if rem - 1 == 0:
                        files_left = set()
                    else:
                        files_left = files
                    files = set(files_left)
                else:
                    ops.append({"t": "end", "p": p})
                    holder = None
            else:
                ops.append({"t": rng.choice(["lock", "move", "end"]), "p": rng.randrange(ncoll)})
        case = {"op": "results.run", "ops": ops}
        if rng.random() < .15:
            case["created"] = False       # the first submitter failed before ResultsAggregator.create
        return case

    def _exhaustive(self):
        """all interleavings of 2 appenders x 2 collectors, <= 8 ops in total"""
        def row(n, b):
            return [f"j{n}", "0", "finished", "1.5", "1700000000.5", "None"]
        A = lambda w, b, n: {"t": "append", "w": w, "b": b, "kind": "direct", "row": row(n, b)}  # noqa: E731
        col = lambda p, n: [{"t": "begin", "p": p}, {"t": "lock", "p": p}, {"t": "move", "p": p}, {"t": "move", "p": p}, {"t": "end", "p": p}][:n]  # noqa: E731
        cancel = {"t": "cancel", "p": 1, "row": ["c1", "1", "canceled", "0", "1700000000.5", "None"]}
        programs = [
            ([[A(0, 1, 1), A(0, 1, 2)], [A(1, 1, 3)], col(0, 5), []], True),
            ([[A(0, 1, 1)], [A(1, 2, 2)], col(0, 5), [{"t": "begin", "p": 1}]], True),
            ([[A(0, 1, 1)], [A(1, 1, 2)], col(0, 4), [{"t": "begin", "p": 1}, cancel]], True),
            ([[A(0, 1, 1), A(0, 1, 2)], [A(1, 1, 3)], col(0, 3), col(1, 2)], True),
            # the consolidated file does not exist at the start: created by the first move or cancellation
            ([[A(0, 1, 1)], [A(1, 2, 2)], col(0, 5), [cancel]], False),
        ]
        out = []
        for progs, created in programs:
            lens = [len(p) for p in progs]
            for order in self._interleavings(lens):
                idx = [0] * len(progs)
                ops = []
                for k in order:
                    ops.append(progs[k][idx[k]])
                    idx[k] += 1
                case = {"op": "results.run", "ops": ops, "exhaustive": True}
                if not created:
                    case["created"] = False
                out.append(case)
        return out

    def _exhaustive_faults(self, full):
        """ONE failure / kill at every position of a small collection (every kind), the rest of the
        aborted collection's ops (stutters in the unchanged code), stale markers broken or not, then
        another collector picks everything up.  `full` (thorough): also two files in one round (rows
        moved before the abort), the consolidated file absent at the start, kills without breaking."""
        def row(n):
            return [f"j{n}", "0", "finished", "1.5", "1700000000.5", "None"]
        A = lambda w, b, n: {"t": "append", "w": w, "b": b, "kind": "direct", "row": row(n)}  # noqa: E731
        cancel = {"t": "cancel", "p": 2, "row": ["c1", "1", "canceled", "0", "1700000000.5", "None"]}

        def col(p, nfiles):
            one = [{"t": "lock", "p": p}, {"t": "move", "p": p}, {"t": "move", "p": p}]
            return [{"t": "begin", "p": p}] + one * nfiles + [{"t": "end", "p": p}]
        X = [{"t": "fault", "p": 0, "what": w} for w in ("read", "open", "write", "remove")] + \
            [{"t": "kill", "p": 0}, {"t": "kill", "p": 0, "at": "opened"}, {"t": "kill", "p": 0, "at": "removed"}]
        programs = [([cancel, A(0, 1, 1)], col(0, 1), [A(1, 1, 2)] + col(1, 1), True)]
        if full:
            programs += [([A(0, 1, 1), A(1, 2, 2)], col(0, 2), [A(0, 2, 3)] + col(1, 2), True),
                         ([A(0, 1, 1)], col(0, 1), [cancel] + col(1, 1), False)]
        out = []
        for pre, first, cont, created in programs:
            for x in X:
                for i in range(len(first) + 1):
                    tails = [[{"t": "breakLocks"}]]
                    if full and x["t"] == "kill":
                        tails.append([])
                    for tail in tails:
                        ops = pre + first[:i] + [dict(x)] + first[i:] + tail + cont
                        case = {"op": "results.run", "ops": [dict(o) for o in ops], "exhaustive": True}
                        if not created:
                            case["created"] = False
                        out.append(case)
        return out

    @staticmethod
    def _interleavings(lens):
        total = sum(lens)

        def rec(rem, acc):
            if len(acc) == total:
                yield list(acc)
                return
            for k in range(len(rem)):
                if rem[k] > 0:
                    rem[k] -= 1
                    acc.append(k)
                    yield from rec(rem, acc)
                    acc.pop()
                    rem[k] += 1
        yield from rec(list(lens), [])

    def _byte_cases(self, rng, count):
        out = []
        names = ["job_1", "a.b-c", "J", "x_1", "9", "None", "name"]
        for _ in range(count):
            r = rng.random()
            rows = [self._mkrow(rng, rng.choice(names) + str(rng.randrange(50)), rng.choice(["direct", "cancel"]))
                    for _ in range(rng.choice([0, 1, 1, 2, 3, 6]))]
            if r < .25:
                out.append({"op": "results.render", "rows": rows, "created": rng.random() < .6})
            elif r < .45:
                f = rng.choice([None, "", HEADER, None])
                if f == HEADER and rows:
                    f = HEADER + "".join(",".join(x) + "\n" for x in rows[1:])
                out.append({"op": "results.append1", "file": f, "row": rows[0] if rows else self._mkrow(rng, "z", "direct")})
            else:
                text = HEADER + "".join(",".join(x) + "\n" for x in rows)
                wf = True
                m = rng.random()
                if m < .45:
                    pass
                else:
                    wf = False
                    lines = text.split("\n")
                    k = rng.randrange(len(lines))
                    how = rng.choice(["dropfield", "addfield", "blank", "noheader", "notrail", "badint", "empty", "drop2", "dupheader"])
                    if how == "dropfield" and lines[k]:
                        lines[k] = ",".join(lines[k].split(",")[:-1])
                    elif how == "drop2" and lines[k]:
                        lines[k] = ",".join(lines[k].split(",")[:rng.choice([1, 2, 3, 4])])
                    elif how == "addfield":
                        lines[k] = lines[k] + ",extra"
                    elif how == "blank":
                        lines.insert(k, "")
                    elif how == "noheader":
                        lines = lines[1:]
                    elif how == "notrail":
                        while lines and lines[-1] == "":
                            lines.pop()
                    elif how == "badint" and k > 0 and lines[k]:
                        f = lines[k].split(",")
                        if len(f) > 1:
                            f[1] = rng.choice(["x", "", "1.5", "--1", "1e3"])
                        lines[k] = ",".join(f)
                    elif how == "dupheader":
                        lines.insert(k, HEADER[:-1])
                    elif how == "empty":
                        lines = [""]
                    text = "\n".join(lines)
                out.append({"op": "results.parse", "text": text, "wellformed": wf, "rows": rows if wf else None})
        return out

    # ------------------------------------------------------------------ implementation
    def impl(self, case):
        op = case["op"]
        with quiet():
            if op == "results.run":
                return self._impl_run(case)
            if op == "results.render":
                return self._impl_render(case)
            if op == "results.parse":
                return self._impl_parse(case)
            if op == "results.append1":
                return self._impl_append1(case)
        raise ValueError(op)

    def _mkresult(self, row):
        from jade.result import Result
        return Result(row[0], int(row[1]), row[2], fnum(row[3]), fnum(row[4]), None if row[5] == "None" else row[5])

    @staticmethod
    def _rowtext(res):
        return [str(res.name), str(res.return_code), str(res.status), str(res.exec_time_s), str(res.completion_time), str(res.hpc_job_id)]

    def _read_rows(self, path, node):
        """the rows `_get_results` reads; time fields are reported with the text in the file (they are
        not compared as floats: it is only checked that the parsed float is the float of that text)"""
        RA = self.ra.ResultsAggregator
        # (the real parser is a function of the file's content: cache by content within one suite run)
        with open(path) as f:
            text = f.read()
        key = (bool(node), text)
        if key in self._parse_cache:
            return self._parse_cache[key]
        rows = self._parse_cache[key] = self._read_rows_uncached(path, node, text)
        return rows

    def _read_rows_uncached(self, path, node, text):
        RA = self.ra.ResultsAggregator
        try:
            agg = RA.load_node_results_file(path) if node else RA(path)
            results = agg.get_results_unsafe()
        except Exception as e:  # noqa: BLE001
            return {"error": {"KeyError": "keyError", "TypeError": "typeError", "ValueError": "valueError"}.get(type(e).__name__, "other:" + type(e).__name__)}
        raw = list(csv.DictReader(io.StringIO(text)))
        rows = []
        for i, r in enumerate(results):
            row = self._rowtext(r)
            d = raw[i] if i < len(raw) else {}
            for k, key, val in ((3, "exec_time_s", r.exec_time_s), (4, "completion_time", r.completion_time)):
                t = d.get(key)
                try:
                    if t is not None and float(t) == val:
                        row[k] = t
                except ValueError:
                    pass
            rows.append(row)
        return rows

    def _case_dir(self):
        self._case_no += 1
        # legal directory names users give their outputs: some contain characters that mean something to glob / the shell
        tail = ["", "", "", " run[2026]", " sweep*", " a?b", " [x", " {y}", " é", " 100%"][self._case_no % 10]
        d = self.root / f"c{self._case_no}{tail}"
        d.mkdir()
        return d

    def _impl_render(self, case):
        RA = self.ra.ResultsAggregator
        d = self._case_dir()
        agg = RA.create(d) if case.get("created", True) else RA.load(d)
        agg._append_processed_results([self._mkresult(r) for r in case["rows"]])
        return (d / self.ra.PROCESSED_RESULTS_FILENAME).read_text()

    def _impl_parse(self, case):
        d = self._case_dir()
        f = d / self.ra.PROCESSED_RESULTS_FILENAME
        f.write_text(case["text"])
        return self._read_rows(f, False)

    def _impl_append1(self, case):
        RA = self.ra.ResultsAggregator
        d = self._case_dir()
        (d / "results").mkdir()
        f = d / "results" / "results_batch_1.csv"
        if case["file"] is not None:
            f.write_text(case["file"])
        RA.append(d, self._mkresult(case["row"]), batch_id=1)
        return f.read_text()

    # .................................................................. the interleaving runner
    def _impl_run(self, case):
        RA = self.ra.ResultsAggregator
        out = self._case_dir()
        (out / "results").mkdir()
        if case.get("created", True):
            RA.create(out)
        cons = out / self.ra.PROCESSED_RESULTS_FILENAME
        cons_lock = str(cons) + ".lock"
        sched = coop.Scheduler(self._policy, step_timeout=20.0)
        self.sched = sched
        self._armed, self._fired = {}, []
        ops = case["ops"]
        batches = sorted({o["b"] for o in ops if o["t"] == "append"})
        returned = []       # [p, rows] | [p, "raised"]
        snaps = []          # per op: observed glob order (begin ops that got the lock) or None
        oks = []
        steps = []
        info = {"appended": [], "canceled": [], "cancel_returns": [], "exceptions": [],
                "fired": [], "killed": [], "broken": []}
        dead = []           # collectors that were killed (ints)

        def worker(name):
            if name not in sched.workers:
                sched.spawn(name)
            return sched.workers[name]

        def node_path(b):
            return out / "results" / f"results_batch_{b}.csv"

        def finish_collect(p, w, stop):
            """a process_results() call of collector p ended"""
            if stop.what == "done":
                returned.append([p, [self._rowtext(r) for r in stop.result]])
            else:
                returned.append([p, "raised"])
                info["exceptions"].append(f"process_results raised {type(common.not_a_harness_mismatch(stop.exc)).__name__}: {stop.exc}")
            w.ctx.clear()

        def after_collect_step(i, p, w, stop):
            """the collector stopped: parked at the next yield point, died inside the step, or its call ended"""
            if stop.what == "yield" and stop.kind == "killed":
                sched.kill(w.name)
                dead.append(p)
                info["killed"].append([i, p, "in-step"])
            elif stop.what != "yield":
                finish_collect(p, w, stop)

        try:
            for i, o in enumerate(ops):
                t = o["t"]
                ok = False
                snap = None
                self._fired = []
                if t == "append":
                    w = worker(f"w{o['w']}")
                    row = o["row"]
                    w.ctx.update(call="append")
                    stop = sched.advance(w.name, self._append_job(out, o))
                    if stop.what == "done":
                        ok = True
                        info["appended"].append([o["w"], o["b"], row])
                    elif not isinstance(stop.exc, coop.Timeout):
                        info["exceptions"].append(f"append raised {type(common.not_a_harness_mismatch(stop.exc)).__name__}: {stop.exc}")
                    w.ctx.clear()
                elif t == "cancel":
                    w = worker(f"p{o['p']}")
                    if w.state == "idle":
                        w.ctx.update(call="cancel")
                        stop = sched.advance(w.name, self._cancel_job(out, o))
                        if stop.what == "done":
                            ok = True
                            info["canceled"].append(o["row"])
                            info["cancel_returns"].append(self._rowtext(stop.result))
                        elif not isinstance(stop.exc, coop.Timeout):
                            info["exceptions"].append(f"_cancel_job raised {type(common.not_a_harness_mismatch(stop.exc)).__name__}: {stop.exc}")
                        w.ctx.clear()
                elif t == "begin":
                    w = worker(f"p{o['p']}")
                    if w.state == "idle":
                        agg = RA.load(out)
                        w.ctx.update(call="collect", cons_lock=cons_lock)
                        stop = sched.advance(w.name, agg.process_results)
                        if (stop.what == "raised" and isinstance(stop.exc, coop.Timeout)
                                and getattr(stop.exc, "lock_file", None) == cons_lock):
                            w.ctx.clear()         # the consolidated lock is taken: stutter
                        else:
                            ok = True
                            snap = list(w.ctx.get("snap", []))
                            after_collect_step(i, o["p"], w, stop)
                elif t in ("lock", "move", "end"):
                    w = worker(f"p{o['p']}")
                    at = w.parked_at
                    want = {"lock": ("acquire",), "move": ("open:a", "open:w", "remove", "rename"), "end": ("release",)}[t]
                    if w.state == "parked" and at in want:
                        ok = True
                        stop = sched.advance(w.name)
                        after_collect_step(i, o["p"], w, stop)
                elif t == "fault" or (t == "kill" and o.get("at")):
                    # arm ONE failure / death for the collector's next matching file operation
                    w = worker(f"p{o['p']}")
                    if w.state != "dead":
                        ok = True
                        self._armed[w.name] = ({"kind": "fail", "what": o["what"]} if t == "fault"
                                               else {"kind": "die", "what": o["at"]})
                elif t == "kill":
                    w = worker(f"p{o['p']}")
                    if w.state != "dead":
                        ok = True
                        info["killed"].append([i, o["p"], w.parked_at or "idle"])
                        sched.kill(w.name)
                        dead.append(o["p"])
                        self._armed.pop(w.name, None)
                elif t == "breakLocks":
                    gone = self._break_stale(sched)
                    ok = bool(gone)
                    info["broken"].append([i, gone])
                else:
                    raise ValueError(t)
                for f in self._fired:
                    info["fired"].append([i, f["p"], f["what"], f["kind"]])
                oks.append(ok)
                snaps.append(snap)
                steps.append(self._observe(out, cons, cons_lock, batches, node_path, returned, ok, dead))
            # ---- drain (not compared with the model; input of the end-state oracle)
            final = self._drain(sched, out, returned, finish_collect)
        finally:
            # dead workers are unwound now (after the last observation).  If the unwinding itself raises
            # something else than `Killed` (a `finally` of the code under test failing), the worker loop
            # waits for another job: give it a second wake-up so that `close()` does not wait for it.
            for w in sched.workers.values():
                if w.state == "dead":
                    w._closing = True
                    w._go.release()
                    w._go.release()
            sched.close()
            self.sched = None
        info["final"] = final
        info["oks"] = oks
        self.extra[self._key(case)] = {"snaps": snaps, "info": info}
        return steps

    @staticmethod
    def _break_stale(sched):
        """remove the lock markers held by dead workers; returns their file names"""
        gone = []
        for w in sched.workers.values():
            if w.state == "dead":
                for path in list(w.locks):
                    try:
                        os.unlink(path)
                        gone.append(Path(path).name)
                    except FileNotFoundError:
                        pass
                w.locks.clear()
        return sorted(gone)

    def _append_job(self, out, o):
        row, b, kind = o["row"], o["b"], o.get("kind", "direct")
        RA = self.ra.ResultsAggregator
        if kind == "direct":
            res = self._mkresult(row)
            return lambda: RA.append(out, res, batch_id=b)
        # through the job runner's AsyncCliCommand
        cmd = self.acc.AsyncCliCommand(_JobStub(row[0]), "true", out, b, True, None if row[5] == "None" else row[5])
        if kind == "cancel":
            def job():
                _Clock.now = fnum(row[4])
                cmd.cancel()
            return job

        def job():
            cmd._pipe = _Pipe(int(row[1]))
            cmd._stdout_fp, cmd._stderr_fp = io.StringIO(), io.StringIO()
            cmd._start_time = 0.0
            ticks = iter([fnum(row[3]), fnum(row[4])])

            class T:
                @staticmethod
                def time():
                    return next(ticks)
            saved = (self.acc.time, self.jres.time)
            self.acc.time, self.jres.time = common.dual_time(T), common.dual_time(T)
            try:
                cmd._complete()
            finally:
                self.acc.time, self.jres.time = saved
        return job

    def _cancel_job(self, out, o):
        from jade.hpc.hpc_submitter import HpcSubmitter
        RA = self.ra.ResultsAggregator
        row = o["row"]

        def job():
            _Clock.now = fnum(row[4])
            agg = RA.load(out)
            return cancel_helper(HpcSubmitter)(_SubmitterStub(out), _JobStub(row[0]), agg)
        return job

    def _observe(self, out, cons, cons_lock, batches, node_path, returned, ok, dead=()):
        try:
            text = cons.read_text()
        except FileNotFoundError:
            text = None
        nodes = []
        for f in sorted((out / "results").glob("*.csv"), key=lambda p: (self._batch_of(p), p.name)):
            nodes.append([self._batch_of(f), f.read_text(), self._read_rows(f, True)])
        return {
            "cons": text,
            "consRows": self._read_rows(cons, False) if text is not None else {"error": "missing"},
            "nodes": nodes,
            "consLocked": os.path.exists(cons_lock),
            "nodeLocked": [b for b in batches if os.path.exists(str(node_path(b)) + ".lock")],
            "returned": [list(x) for x in returned],
            "dead": sorted(set(dead)),
            "ok": ok,
        }

    def _drain(self, sched, out, returned, finish_collect):
        """finish what is in progress, run one more complete collection, list the results"""
        RA = self.ra.ResultsAggregator
        final = {"errors": []}
        # no further injected failure; the stale markers of dead processes are removed first (the end
        # state is judged after an operator / the lock library cleaned up), dead processes stay dead
        self._armed = {}
        final["stale_broken"] = self._break_stale(sched)
        for name, w in list(sched.workers.items()):
            if w.state == "parked":
                stop = sched.run_to_completion(name)
                finish_collect(int(name[1:]), w, stop)
        try:
            agg = RA.load(out)
            last = agg.process_results()           # main thread: no yields, no contention left
            returned.append([-1, [self._rowtext(r) for r in last]])
        except Exception as e:  # noqa: BLE001
            final["errors"].append(f"final process_results raised {type(e).__name__}: {e}")
        try:
            if not (out / self.ra.PROCESSED_RESULTS_FILENAME).exists():
                final["list_results"] = []      # nothing was ever written into it
            else:
                final["list_results"] = [self._rowtext(r) for r in RA.list_results(out)]
        except Exception as e:  # noqa: BLE001
            final["errors"].append(f"list_results raised {type(e).__name__}: {e}")
            final["list_results"] = None
        final["returned"] = [list(x) for x in returned]
        final["leftover_files"] = sorted(p.name for p in (out / "results").iterdir())
        final["leftover_locks"] = sorted(p.name for p in out.rglob("*.lock"))
        return final

    # the model needs the glob order the real code saw (environment input of `beginCollect`)
    def model_case(self, case):
        if case["op"] != "results.run":
            return case
        ex = self.extra.get(self._key(case))
        ops = []
        for i, o in enumerate(case["ops"]):
            o2 = {k: v for k, v in o.items() if k != "kind"}
            if o["t"] == "begin":
                snap = ex["snaps"][i] if ex else None
                o2["snap"] = [b for b in (snap or []) if b >= 0]
            ops.append(o2)
        return {"op": "results.run", "ops": ops, "created": case.get("created", True)}

    @staticmethod
    def _key(case):
        return canon([case.get("created", True), case["ops"]])

    # ------------------------------------------------------------------ direct oracle
    def oracle(self, case, result):
        op = case["op"]
        V = lambda key, msg: Violation("C08", key, msg)  # noqa: E731
        out = []
        if op == "results.parse":
            if case.get("wellformed") and result != case["rows"]:
                out.append(V("file.unparsable", f"a well-formed results file does not read back as its rows: {result!r}"))
            return out
        if op == "results.render":   # header exactly once, whether the file existed or is created by the call
            exp = HEADER + "".join(",".join(r) + "\n" for r in case["rows"])
            if result != exp:
                out.append(V("row.altered", f"_append_processed_results wrote {result!r}, expected {exp!r}"))
            return out
        if op == "results.append1":
            f = case["file"]
            exp = (f or "") + (HEADER if not f else "") + ",".join(case["row"]) + "\n"
            if result != exp:
                out.append(V("file.header", f"_append_result on {f!r} gave {result!r}, expected {exp!r}"))
            return out
        if op != "results.run" or not isinstance(result, list):
            return out
        ex = self.extra.get(self._key(case))
        if ex is None:
            return out
        info = ex["info"]
        ops = case["ops"]

        def norm(row):  # rows are compared with their times as numbers ("0" == "0.0")
            try:
                return (row[0], row[1], row[2], float(row[3]), float(row[4]), row[5])
            except (ValueError, TypeError, IndexError):
                return tuple(row)
        appended, canceled = Counter(), Counter()
        by_batch = {}
        # ---- what injected failures and kills change (read off the unchanged code, see
        # ResultsAggregator._move_results / _append_processed_results / _do_action_under_lock):
        #  * never lost, never garbled: holds at every instant, whatever failed or died (`row.lost`,
        #    `file.unparsable`, `row.truncated`, `row.altered`, `row.misattributed` are asserted always);
        #  * a failed read / append-open changes nothing on disk; a failed write leaves the consolidated
        #    file as the open left it (created empty if it did not exist; nothing of a small buffered write
        #    reaches the file), the node file is still there: each row is still in exactly one file;
        #  * a failed `os.remove`, or a death after the copy and before the removal, leaves the rows of that
        #    ONE node file in both files for good (at-least-once): exactly those rows may be present once
        #    more per such event (`dup_allowed`), anything else is still `row.duplicated`;
        #  * an aborted / killed round returns nothing: the rows it had already moved are in the consolidated
        #    file and are reported to no round (`unreported_ok`: exactly the rows that were in the consolidated
        #    file and unreported at the instant of the abort / death); no row is ever reported twice, under
        #    any failure (`returned.twice` is asserted always: a round returns a row only after it removed
        #    the file the row was in);
        #  * `process_results()` raises only in the step in which an injected failure fired.
        fired_at = {}
        for i, p_, what, kind in info.get("fired", []):
            fired_at.setdefault(i, []).append((p_, what, kind))
        killed_at = {i: (p_, phase) for i, p_, phase in info.get("killed", [])}
        dup_allowed = Counter()
        unreported_ok = Counter()
        excused_raises = 0
        prev = None             # (locked node files' rows, extra rows) of the previous observation
        for i, (o, st) in enumerate(zip(ops, result)):
            if st["ok"] and o["t"] == "append":
                appended[norm(o["row"])] += 1
                by_batch.setdefault(o["b"], Counter())[norm(o["row"])] += 1
            if st["ok"] and o["t"] == "cancel":
                canceled[norm(o["row"])] += 1
            where = f"after op {i} ({o['t']})"
            # the files always parse (a consolidated file that does not exist yet holds no rows)
            if st["cons"] is None:
                st = dict(st, cons=HEADER, consRows=[])
            if not isinstance(st["consRows"], list):
                out.append(V("file.unparsable", f"{where}: consolidated file does not parse ({st['consRows']}): {st['cons']!r}"))
                continue
            bad = [n for n in st["nodes"] if not isinstance(n[2], list)]
            if bad:
                out.append(V("file.unparsable", f"{where}: node file of batch {bad[0][0]} does not parse ({bad[0][2]}): {bad[0][1]!r}"))
                continue
            # independent parse with csv.DictReader: same rows, complete rows (an empty file — the append-open
            # succeeded and nothing was written — holds no row)
            for label, text, rows in [("consolidated", st["cons"], st["consRows"])] + [(f"batch {n[0]}", n[1], n[2]) for n in st["nodes"]]:
                rd = list(csv.DictReader(io.StringIO(text)))
                if any(None in r or None in r.values() for r in rd) or len(rd) != len(rows) or not (text.endswith("\n") or text == ""):
                    out.append(V("row.truncated", f"{where}: {label} file has a short/long/unterminated row: {text!r}"))
            in_files = Counter(norm(r) for r in st["consRows"])
            for n in st["nodes"]:
                in_files.update(norm(r) for r in n[2])
                foreign = Counter(norm(r) for r in n[2]) - by_batch.get(n[0], Counter())
                if foreign:
                    out.append(V("row.misattributed", f"{where}: node file of batch {n[0]} holds rows never appended to it: {list(foreign)}"))
            written = appended + canceled
            lost = written - in_files
            if lost:
                out.append(V("row.lost", f"{where}: rows written but in no file: {sorted(lost)}"))
            extra_rows = in_files - written
            # rows of node files whose lock marker is on disk (the file being moved right now / by a dead process)
            locked_by_batch = {n[0]: Counter(norm(r) for r in n[2]) for n in st["nodes"] if n[0] in st["nodeLocked"]}
            # a failed os.remove / stale markers broken after a death between copy and removal: the rows that
            # were in both files under that lock just before stay duplicated, legitimately
            if prev is not None and (i in fired_at or (o["t"] == "breakLocks" and st["ok"])):
                prev_locked, prev_extra = prev
                left = Counter(prev_extra)
                for b_, rows_b in prev_locked.items():
                    if b_ not in st["nodeLocked"] and any(n[0] == b_ for n in st["nodes"]):
                        legit = rows_b & left
                        dup_allowed += legit
                        left -= legit
            if i in fired_at or i in killed_at:
                # the round of this process returns nothing: what is in the consolidated file and unreported
                # now stays unreported (no other round is in progress: it held the consolidated lock)
                rets_now = Counter()
                for p_, rows in st["returned"]:
                    if rows != "raised":
                        rets_now.update(norm(r) for r in rows)
                unreported_ok |= (Counter(norm(r) for r in st["consRows"]) - canceled) - rets_now
            unknown = [r for r in extra_rows if r not in written]
            if unknown:
                out.append(V("row.altered", f"{where}: rows in the files that nobody wrote (fields differ): {unknown}"))
            elif extra_rows:
                # duplicates are legitimate only for the file being moved right now (its lock is held)
                locked_rows = Counter()
                for rows_b in locked_by_batch.values():
                    locked_rows.update(rows_b)
                if extra_rows - locked_rows - dup_allowed:
                    out.append(V("row.duplicated", f"{where}: rows present more often than written: {sorted(extra_rows - locked_rows - dup_allowed)}"))
            prev = (locked_by_batch, extra_rows)
            # reporting
            excused_raises += sum(1 for x in fired_at.get(i, []) if x[2] == "fail")
            rets = Counter()
            raised = 0
            for p_, rows in st["returned"]:
                if rows == "raised":
                    raised += 1
                else:
                    rets.update(norm(r) for r in rows)
            if raised > excused_raises:
                out.append(V("collector.raised", f"{where}: process_results() raised without an injected failure: {info['exceptions'][:2]}"))
            if rets - appended:
                out.append(V("returned.twice", f"{where}: rows reported as newly completed more often than written by runners: {sorted(rets - appended)}"))
            moved = Counter(norm(r) for r in st["consRows"]) - canceled
            if rets - moved and not lost:
                out.append(V("returned.missing", f"{where}: rows reported by a finished collection that are not in the consolidated file: {sorted(rets - moved)}"))
            if not st["consLocked"] and not lost:
                if (moved - rets) - unreported_ok - dup_allowed:
                    out.append(V("returned.missing", f"{where}: rows in the consolidated file never reported by a finished collection: "
                                                     f"{sorted((moved - rets) - unreported_ok - dup_allowed)}"))
        # end state, after the harness' own final collection (it first removes the stale markers of dead
        # processes: what was in both files under such a marker at the end of the trace stays duplicated)
        final = info["final"]
        if prev is not None and final.get("stale_broken"):
            prev_locked, prev_extra = prev
            left = Counter(prev_extra)
            for b_, rows_b in prev_locked.items():
                if f"results_batch_{b_}.csv.lock" in final["stale_broken"]:
                    legit = rows_b & left
                    dup_allowed += legit
                    left -= legit
        for e in final["errors"]:
            out.append(V("final.error", e))
        for e in info["exceptions"]:
            if "process_results" not in e:
                out.append(V("writer.raised", e))
        if final.get("list_results") is not None:
            listed = Counter(norm(r) for r in final["list_results"])
            if (appended + canceled) - listed or (listed - (appended + canceled)) - dup_allowed:
                out.append(V("final.mismatch", f"list_results at the end: missing {sorted((appended + canceled) - listed)}, "
                                               f"surplus {sorted((listed - (appended + canceled)) - dup_allowed)}"))
        rets = Counter()
        for p, rows in final["returned"]:
            if rows != "raised":
                rets.update(norm(r) for r in rows)
        if (appended - rets) - unreported_ok or rets - appended:
            out.append(V("final.reported", f"rows returned by all process_results() calls: missing {sorted((appended - rets) - unreported_ok)}, "
                                           f"surplus {sorted(rets - appended)}"))
        if [f for f in final["leftover_files"] if f.endswith(".csv")]:
            out.append(V("final.leftover", f"node files left after a complete collection: {final['leftover_files']}"))
        if info["cancel_returns"] != info["canceled"]:
            out.append(V("row.altered", f"_cancel_job returned {info['cancel_returns']} for {info['canceled']}"))
        # de-duplicate by key, keep the first message
        seen, uniq = set(), []
        for v in out:
            if v.key not in seen:
                seen.add(v.key)
                uniq.append(v)
        return uniq

    # ------------------------------------------------------------------ evidence tags
    def tags(self, case, result):
        op = case["op"]
        t = [op]
        if op == "results.parse":
            t.append("parse.ok" if isinstance(result, list) else f"parse.{result.get('error')}")
            return t
        if op != "results.run" or not isinstance(result, list):
            return t
        ops = case["ops"]
        if case.get("exhaustive"):
            t.append("run.exhaustive")
        seen_removed = set()
        prev_nodes = set()
        for o, st in zip(ops, result):
            nodes = {n[0] for n in st["nodes"]}
            seen_removed |= prev_nodes - nodes
            if o["t"] == "append":
                if not st["ok"]:
                    t.append("append.blockedByCollector")
                elif o["b"] in seen_removed and o["b"] not in prev_nodes:
                    t.append("append.recreatesFile")
                    seen_removed.discard(o["b"])
                elif st["consLocked"] and o["b"] in prev_nodes:
                    t.append("append.duringCollection")
                if st["ok"]:
                    t.append("append." + o.get("kind", "direct"))
            elif o["t"] in ("begin", "cancel") and not st["ok"] and st["consLocked"]:
                t.append(o["t"] + ".blockedByLock")
            elif o["t"] == "begin" and st["ok"]:
                t.append("begin.empty" if not st["nodes"] else f"begin.files={min(len(st['nodes']), 3)}")
            elif o["t"] == "move" and st["ok"] and st["nodeLocked"]:
                t.append("move.copiedNotRemoved")
            elif o["t"] == "end" and st["ok"]:
                t.append("end")
            elif not st["ok"]:
                t.append("stutter." + o["t"])
            prev_nodes = nodes
        ncoll = len({o["p"] for o in ops if "p" in o})
        t.append(f"run.collectors={ncoll}")
        t += self._fault_tags(case, result)
        return sorted(set(t))

    _PHASE = {"acquire": "holdsConsLock", "open:a": "fileLockedRowsRead", "open:w": "fileLockedRowsRead",
              "remove": "copiedNotRemoved", "release": "beforeConsRelease", "idle": "idle"}

    def _fault_tags(self, case, result):
        """situations with injected failures / kills: which failure fired, the phase a process died in,
        stale markers broken or left, and what the continuation did with the rows"""
        ops = case["ops"]
        ex = self.extra.get(self._key(case))
        if ex is None or not any(o["t"] in ("fault", "kill", "breakLocks") for o in ops):
            return []
        info = ex["info"]
        t = ["run.faulty"]
        events = []
        for i, p, what, kind in info["fired"]:
            t.append(f"fault.{what}.fired" if kind == "fail" else f"kill.at={what}")
            events.append(i)
            if what == "write" and i > 0 and result[i - 1]["cons"] is None and result[i]["cons"] == "":
                t.append("fault.write.createdEmptyFile")
            if what == "opened" and i > 0 and result[i - 1]["cons"] is None and result[i]["cons"] == "":
                t.append("kill.at=opened.createdEmptyFile")
        for i, p, phase in info["killed"]:
            if phase != "in-step":
                t.append("kill.at=" + self._PHASE.get(phase, phase))
                events.append(i)
        armed = sum(1 for o in ops if o["t"] == "fault" or (o["t"] == "kill" and o.get("at")))
        if armed > len(info["fired"]):
            t.append("fault.armedNotFired")
        for i, gone in info["broken"]:
            t.append("breakLocks.effective" if gone else "breakLocks.nothingStale")
        if info["killed"] and not any(gone for _, gone in info["broken"]):
            t.append("kill.markersNeverBroken")
        for i in events:
            st = result[i]
            if isinstance(st["consRows"], list):
                rets = Counter()
                for _, rows in st["returned"]:
                    if rows != "raised":
                        rets.update(tuple(r[:3]) for r in rows)
                moved = Counter(tuple(r[:3]) for r in st["consRows"])
                canc = Counter(tuple(o["row"][:3]) for o, s2 in zip(ops[:i + 1], result[:i + 1]) if o["t"] == "cancel" and s2["ok"])
                if (moved - canc) - rets:
                    t.append("abort.movedRowsUnreported")
            # the continuation: a later round finished and returned rows
            n_before = len(st["returned"])
            later = [r for r in result[-1]["returned"][n_before:] if r[1] != "raised" and r[1]]
            if later:
                t.append("continuation.laterRoundCollects")
            if any(o["t"] == "append" and s2["ok"] for o, s2 in zip(ops[i + 1:], result[i + 1:])):
                t.append("continuation.appendsAfterFault")
        last = result[-1] if result else None
        if last and isinstance(last["consRows"], list):
            c = Counter(tuple(r) for r in last["consRows"])
            w = Counter(tuple(o["row"]) for o, s2 in zip(ops, result) if o["t"] in ("append", "cancel") and s2["ok"])
            # (times are compared as text here: only a hint for the evidence)
            if any(v > w.get(k, v) for k, v in c.items()):
                t.append("continuation.rowsCollectedAgain")
        if any(o["t"] in ("lock", "move", "end") and not s2["ok"] and o["p"] in s2.get("dead", []) for o, s2 in zip(ops, result)):
            t.append("dead.processDoesNothing")
        return t

    # ------------------------------------------------------------------ shrinking
    @staticmethod
    def _with_ops(case, ops):
        c = {"op": "results.run", "ops": ops}
        if not case.get("created", True):
            c["created"] = False
        return c

    def shrink(self, case):
        if case["op"] == "results.run":
            ops = case["ops"]
            n = len(ops)
            # drop halves, then single ops, then simplify rows
            if n > 3:
                yield self._with_ops(case, ops[: n // 2])
                yield self._with_ops(case, ops[n // 2:])
            for i in range(n):
                yield self._with_ops(case, ops[:i] + ops[i + 1:])
            for i, o in enumerate(ops):
                if o["t"] == "append" and o.get("kind", "direct") != "direct":
                    o2 = dict(o, kind="direct")
                    yield self._with_ops(case, ops[:i] + [o2] + ops[i + 1:])
            if not case.get("created", True):
                yield {"op": "results.run", "ops": ops}
        elif case["op"] in ("results.render",) and case["rows"]:
            for i in range(len(case["rows"])):
                yield dict(case, rows=case["rows"][:i] + case["rows"][i + 1:])
        elif case["op"] == "results.parse":
            lines = case["text"].split("\n")
            for i in range(1, len(lines)):
                yield {"op": "results.parse", "text": "\n".join(lines[:i] + lines[i + 1:]), "wellformed": False, "rows": None}


SUITE = ResultsSuite()
