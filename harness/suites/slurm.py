"""Suite `slurm` (C18; also used by C06/C07): SLURM boundary of the real code vs Model/Slurm.lean."""
import itertools
import os
import sys
from pathlib import Path

import common
from common import Suite, Violation, err_enum, quiet, scratch_dir

# SLURM's job state vocabulary (squeue(1), JOB STATE CODES)
VOCAB = [
    "BOOT_FAIL", "CANCELLED", "COMPLETED", "CONFIGURING", "COMPLETING", "DEADLINE", "FAILED",
    "NODE_FAIL", "OUT_OF_MEMORY", "PENDING", "PREEMPTED", "RUNNING", "RESV_DEL_HOLD",
    "REQUEUE_FED", "REQUEUE_HOLD", "REQUEUED", "RESIZING", "REVOKED", "SIGNALING",
    "SPECIAL_EXIT", "STAGE_OUT", "STOPPED", "SUSPENDED", "TIMEOUT",
]
# The reading of "finished" fixed in DESIGN.md 7/C18: terminal states + COMPLETING
FINISHED = {
    "BOOT_FAIL", "CANCELLED", "COMPLETED", "COMPLETING", "DEADLINE", "FAILED", "NODE_FAIL",
    "OUT_OF_MEMORY", "PREEMPTED", "REVOKED", "TIMEOUT",
}
ODD_WORDS = ["running", "Completed", "COMPLETE", "DONE", "R", "CD", "PD", "NONE", "UNKNOWN", "COMPLETED+", "CANCELLED+", "x"]
WS = [" ", "  ", "\t", " \t ", "      ", "\x0b", "\x0c", "\r", " ", " "]
OPTIONAL = ["gres", "mem", "nodes", "ntasks", "ntasks_per_node", "partition", "qos", "tmp", "reservation"]


class FakePopen:
    """Scripted replacement for subprocess.Popen/call inside jade.utils.run_command."""

    script = []  # list of (ret, stdout, stderr)
    calls = []

    def __init__(self, command, stdout=None, stderr=None, cwd=None, **kwargs):
        FakePopen.calls.append(list(command))
        if FakePopen.script:
            self._ret, self._out, self._err = FakePopen.script.pop(0)
        else:
            self._ret, self._out, self._err = 99, "", "script exhausted"
        self.returncode = None

    def communicate(self):
        self.returncode = self._ret
        return self._out.encode("utf-8"), self._err.encode("utf-8")


class FakeSubprocess:
    PIPE = -1
    Popen = FakePopen

    @staticmethod
    def call(command, cwd=None, **kwargs):
        p = FakePopen(command)
        p.communicate()
        return p.returncode


class SlurmSuite(Suite):
    name = "slurm"

    def setup(self):
        import jade.utils.run_command as rc
        self._rc = rc
        self._saved = (rc.subprocess, rc.time.sleep)
        rc.subprocess = FakeSubprocess
        self._sleeps = []

        class _T:
            @staticmethod
            def sleep(s, _l=self._sleeps):
                _l.append(s)
        self._saved_time = rc.time
        rc.time = common.dual_time(_T)
        # a sleep anywhere else in the SLURM boundary code (a module that sleeps on its own between attempts) must not
        # turn the suite into minutes of waiting: the process-wide time.sleep records and returns, too
        import time as _time
        self._real_sleep = _time.sleep
        _time.sleep = _T.sleep
        os.environ.setdefault("USER", "verif")

    def teardown(self):
        self._rc.subprocess = self._saved[0]
        self._rc.time = self._saved_time
        import time as _time
        _time.sleep = self._real_sleep

    # ------------------------------------------------------------------ generators
    def cases(self, rng, tier, prop):
        n = {"quick": 1, "thorough": 8}[tier]
        out = []
        out += self._parse_cases(rng, 400 * n)
        out += self._submit_cases(rng, 150 * n)
        out += self._script_cases(rng, 512 if tier == "thorough" else 160)
        out += self._runscript_cases(rng)
        out += self._retry_cases(rng, 300 * n)
        return out

    def _parse_cases(self, rng, count):
        out = []
        # full vocabulary, each word alone and with each whitespace variant
        for w in VOCAB + ODD_WORDS:
            for ws in (" ", rng.choice(WS)):
                text = f"{ws if rng.random() < .3 else ''}100{ws}{w}{rng.choice(['', ' ', '  ', chr(9)])}\n"
                out.append({"op": "slurm.parse", "text": text, "ids": ["100", "101"], "truth": [["100", w]], "wellformed": True})
        for _ in range(count):
            k = rng.choice([0, 1, 1, 2, 3, 5, 8])
            ids = [str(rng.choice([7, 42, 100, 101, 102, 12345678, 99])) for _ in range(k)]
            truth, lines = [], []
            wellformed = True
            for i in ids:
                w = rng.choice(VOCAB) if rng.random() < .8 else rng.choice(ODD_WORDS)
                r = rng.random()
                lead = rng.choice(WS) if rng.random() < .3 else ""
                trail = rng.choice(WS) if rng.random() < .4 else ""
                if r < .9:
                    lines.append(f"{lead}{i}{rng.choice(WS)}{w}{trail}")
                    truth.append([i, w])
                elif r < .93:
                    lines.append(f"{i}{rng.choice(WS)}{w} extra")
                    wellformed = False
                elif r < .96:
                    lines.append(f"{i}")
                    wellformed = False
                elif r < .98:
                    lines.append("   ")
                    wellformed = False
                else:
                    lines.append("")
            sep_end = rng.choice(["", "\n", "\n\n"])
            text = "\n".join(lines) + sep_end
            if any(ws in text for ws in ("\x0b", "\x0c", "\r")) and False:
                pass
            q = sorted(set(ids + ["100", "555"]))
            out.append({"op": "slurm.parse", "text": text, "ids": q, "truth": truth, "wellformed": wellformed})
            if len(out) % 9 == 0:
                # the status query fails through all its retries (controller down): nothing may be concluded about any batch
                out.append({"op": "slurm.parse", "text": text, "ids": q, "truth": truth, "wellformed": wellformed,
                            "squeueRet": rng.choice([1, 1, 2, 255])})
        return out

    def _submit_cases(self, rng, count):
        out = []
        fixed = [
            (0, "Submitted batch job 1234\n", True), (0, "Submitted batch job 1\n", True), (0, "", False),
            (0, "Submitted batch job \n", False), (0, "Submitted batch job abc", False),
            (0, "sbatch: error: Batch job submission failed", False), (1, "Submitted batch job 77", False),
            (0, "Submitted batch job x Submitted batch job 5", True), (0, "submitted batch job 5", False),
            (0, "Submitted  batch job 5", False), (0, "xxSubmitted batch job 0042 on cluster c", True),
            (0, "Submitted batch job 12a", True), (0, "Submitted batch jobSubmitted batch job 9", True),
        ]
        for ret, so, has in fixed:
            out.append({"op": "slurm.submit", "ret": ret, "stdout": so, "has_id": has and ret == 0})
        frag = ["Submitted batch job ", "Submitted batch job", "123", "7", " ", "\n", "x", "job ", "Submitted ", "0", "S"]
        for _ in range(count):
            so = "".join(rng.choice(frag) for _ in range(rng.randint(0, 6)))
            ret = 0 if rng.random() < .8 else rng.choice([1, 2, 127, -9])
            import re as _re  # ground truth of "parsable": a literal prefix followed by an ASCII digit
            has = _re.search(r"Submitted batch job [0-9]", so) is not None
            c = {"op": "slurm.submit", "ret": ret, "stdout": so, "has_id": has and ret == 0}
            if len(out) % 3 == 0:
                c["stderr"] = rng.choice(["", "sbatch: error: Slurm temporarily unable to accept job, sleeping and retrying.\n",
                                          "sbatch: warning: can't run 1 processes on 2 nodes\n", "ERROR", "Submitted batch job 99\n"])
            out.append(c)
        return out

    def _script_cases(self, rng, count):
        out = []
        vals = {
            "gres": ["gpu:1", "gpu:2"], "mem": ["730G", "92160"], "nodes": [1, 4], "ntasks": [1, 36],
            "ntasks_per_node": [2, 18], "partition": ["debug", "short"], "qos": ["high", "normal"],
            "tmp": ["24000", "1T"], "reservation": ["resv-1", "r"],
        }
        masks = list(range(512))
        if count < 512:
            masks = [0, 511] + [1 << i for i in range(9)] + [511 ^ (1 << i) for i in range(9)] + rng.sample(range(512), count - 20)
        for m in masks:
            opt = {p: rng.choice(vals[p]) for i, p in enumerate(OPTIONAL) if m >> i & 1}
            out.append({
                "op": "slurm.script", "account": rng.choice(["proj", "abc123", "my-acct"]),
                "walltime": rng.choice(["4:00:00", "00:30:00", "1:40:00", "240:00:00"]),
                "name": rng.choice(["job_batch_1", "p_batch_12", "x"]), "script": rng.choice(["/o/run_batch_1.sh", "run.sh"]),
                "path": rng.choice(["output", "/scratch/out put", "."]), "set": opt,
            })
        return out

    def _runscript_cases(self, rng):
        out = []
        for d, np_, v in itertools.product([True, False], [None, 1, 4, 36], [True, False]):
            out.append({"op": "slurm.runscript", "configFile": rng.choice(["/o/config_batch_3.json", "config_batch_1.json"]),
                        "output": rng.choice(["/o", "output"]), "distributed": d, "numProcs": np_, "verbose": v})
        return out

    def _retry_cases(self, rng, count):
        out = []
        for _ in range(count):
            n = rng.choice([0, 0, 1, 2, 3, 6])
            ho = rng.random() < .7
            errs = rng.random() < .6 and ho
            outs = []
            for _ in range(n + 2):
                r = rng.random()
                if r < .25:
                    outs.append({"ret": 0, "permanent": False})
                elif r < .45 and errs:
                    outs.append({"ret": rng.choice([1, 2]), "permanent": True})
                else:
                    outs.append({"ret": rng.choice([1, 2, 255]), "permanent": False})
            out.append({"op": "slurm.retry", "numRetries": n, "hasOutput": ho, "errs": errs, "outs": outs})
        return out

    # ------------------------------------------------------------------ implementation
    def impl(self, case):
        op = case["op"]
        with quiet():
            return getattr(self, "_impl_" + op.split(".")[1])(case)

    def _impl_parse(self, case):
        from jade.hpc.slurm_manager import SlurmManager
        from jade.hpc.hpc_submitter import HpcStatusCollector, AsyncHpcSubmitter
        mgr = SlurmManager(None)

        class StubMgr:
            check_statuses = staticmethod(mgr.check_statuses)

        statuses, complete = [], []
        try:
            for i in case["ids"]:
                ret = case.get("squeueRet", 0)
                FakePopen.script = [(ret, case["text"], "")] * (1 if ret == 0 else 12)
                FakePopen.calls = []
                coll = HpcStatusCollector(StubMgr, 0)
                statuses.append(coll.check_status(i).name)
                sub = AsyncHpcSubmitter.create_from_id(StubMgr, coll, i)
                FakePopen.script = [(ret, case["text"], "")] * (1 if ret == 0 else 12)
                coll._last_poll_time = None
                complete.append(bool(sub.is_complete()))
        except Exception as e:  # noqa
            return {"error": err_enum(e)}
        return {"statuses": statuses, "complete": complete}

    def _impl_submit(self, case):
        from jade.hpc.slurm_manager import SlurmManager
        from jade.enums import Status
        mgr = SlurmManager(None)
        FakePopen.calls = []
        # stderr of sbatch: noise, or the warning a busy controller prints before it accepts the job after all
        FakePopen.script = [(case["ret"], case["stdout"], case.get("stderr", "err"))] * 10
        result, job_id, _ = mgr.submit("f.sh")
        self._last_execs = len(FakePopen.calls)
        return {"model": {"good": result == Status.GOOD, "id": job_id}, "obs": {"execs": len(FakePopen.calls)}}

    def _hpc_config(self, case):
        from jade.models import HpcConfig
        hpc = {"account": case["account"], "walltime": case["walltime"]}
        hpc.update(case["set"])
        return HpcConfig(hpc_type="slurm", hpc=hpc)

    def _impl_script(self, case):
        from jade.hpc.slurm_manager import SlurmManager
        cfg = self._hpc_config(case)
        mgr = SlurmManager(cfg)
        with scratch_dir() as d:
            f = d / "s.sh"
            mgr.create_submission_script(case["name"], case["script"], str(f), case["path"])
            text = f.read_text()
        if not text.endswith("\n"):
            return {"error": "no trailing newline"}
        return text[:-1].split("\n")

    def _impl_runscript(self, case):
        from jade.hpc.hpc_submitter import HpcSubmitter
        from jade.models import HpcConfig, SubmitterParams, SubmissionGroup
        params = SubmitterParams(
            hpc_config=HpcConfig(hpc_type="slurm", hpc={"account": "a"}),
            num_processes=case["numProcs"], verbose=case["verbose"], distributed_submitter=case["distributed"],
        )
        group = SubmissionGroup(name="g", submitter_params=params)
        with scratch_dir() as d:
            f = d / "run.sh"
            try:
                hs = HpcSubmitter.__new__(HpcSubmitter)      # cheap: the method only needs `_output` on the unchanged tree
                hs._output = case["output"]
                hs._create_run_script(case["configFile"], str(f), group)
            except AttributeError:
                # the method reads state set up by the constructor: build a real submitter for a two-group configuration in
                # which the group under test comes SECOND and the first group has the opposite run options
                hs = self._real_submitter(case, group, d)
                hs._output = case["output"]
                hs._create_run_script(case["configFile"], str(f), group)
            text = f.read_text()
        return text[:-1].split("\n")

    def _real_submitter(self, case, group, d):
        from jade.extensions.generic_command import GenericCommandConfiguration, GenericCommandParameters
        from jade.hpc.hpc_submitter import HpcSubmitter
        from jade.jobs.job_submitter import JobSubmitter
        from jade.jobs.cluster import Cluster
        from jade.models import HpcConfig, SubmitterParams, SubmissionGroup
        other = SubmissionGroup(name="first", submitter_params=SubmitterParams(
            hpc_config=HpcConfig(hpc_type="slurm", hpc={"account": "a"}),
            num_processes=(None if case["numProcs"] else 3), verbose=not case["verbose"], distributed_submitter=not case["distributed"]))
        config = GenericCommandConfiguration()
        config.add_job(GenericCommandParameters(command="true", name="j0", submission_group="first"))
        config.add_job(GenericCommandParameters(command="true", name="j1", submission_group="g"))
        config.append_submission_group(other)
        config.append_submission_group(group)
        out = d / "out"
        import jadeenv
        jadeenv.no_repo_info()
        mgr = JobSubmitter.create(config, output=str(out))
        cluster = Cluster.create(str(out), mgr.config)
        return HpcSubmitter(mgr.config, mgr._config_file, cluster, str(out))

    def _impl_retry(self, case):
        from jade.utils.run_command import run_command
        FakePopen.calls = []
        FakePopen.script = [(a["ret"], "out", "PERMANENT failure" if a["permanent"] else "transient") for a in case["outs"]]
        output = {} if case["hasOutput"] else None
        kwargs = {}
        if case["errs"]:
            kwargs["error_strings"] = ["PERMANENT"]
        ret = run_command("squeue -h", output, num_retries=case["numRetries"], retry_delay_s=0, **kwargs)
        return {"executions": len(FakePopen.calls), "ret": ret}

    # model input adaptation: the driver receives the *effective* pydantic values
    def model_case(self, case):
        if case["op"] == "slurm.script":
            cfg = self._hpc_config(case)
            opt = {}
            for p in OPTIONAL:
                v = getattr(cfg.hpc, p, None)
                if v is not None:
                    opt[p] = str(v)
            c = dict(case)
            c["opt"] = opt
            c["account"] = cfg.hpc.account
            c["walltime"] = cfg.hpc.walltime
            return c
        if case["op"] == "slurm.retry":
            c = dict(case)
            # a listed permanent error only exists when the caller passed error_strings
            c["outs"] = [{"ret": a["ret"], "permanent": a["permanent"] and case["errs"]} for a in case["outs"]]
            return c
        return case

    # ------------------------------------------------------------------ direct oracles
    def oracle(self, case, result):
        op = case["op"]
        v = []
        if op == "slurm.parse":
            if case.get("wellformed") and isinstance(result, dict) and "complete" in result:
                last = {}
                for i, w in case["truth"]:
                    last[i] = w
                for i, c in zip(case["ids"], result["complete"]):
                    if c and i in last and last[i] not in FINISHED:
                        v.append(Violation("C18", f"status.{last[i]}.treated_finished",
                                           f"squeue lists batch {i} as {last[i]!r} but is_complete() returned True"))
            if not case.get("wellformed") and isinstance(result, dict) and "complete" in result:
                # malformed listing must not produce a "finished" verdict for a listed, unfinished id
                pass
            if case.get("squeueRet") and isinstance(result, dict) and any(result.get("complete", [])):
                v.append(Violation("C18", "status.query_failed.treated_finished",
                                   f"squeue failed (ret={case['squeueRet']}) through all retries, yet is_complete() returned True for "
                                   f"{[i for i, c in zip(case['ids'], result['complete']) if c]}: nothing is known about these batches"))
        elif op == "slurm.submit":
            execs = (result.get("obs") or {}).get("execs")
            result = result.get("model", result)
            if case["ret"] == 0 and execs is not None and execs != 1:
                v.append(Violation("C18", "sbatch.success.retried",
                                   f"sbatch exited 0 (stdout={case['stdout']!r}) and was executed {execs} times: retries stop at the first "
                                   "success - the scheduler may have queued the batch every time, and an unparsable response is a failed "
                                   "submission, not a reason to submit again"))
            if case["ret"] != 0 and execs is not None and execs > 7:
                v.append(Violation("C18", "sbatch.retries", f"sbatch executed {execs} times (> num_retries+1 = 7)"))
            if case["ret"] == 0 and case["has_id"] and not result.get("good"):
                v.append(Violation("C18", "sbatch.accepted.treated_failed",
                                   f"sbatch exited 0 and printed the id (stdout={case['stdout']!r}, stderr={case.get('stderr', 'err')!r}) "
                                   "but the submission is treated as failed: the batch runs unrecorded"))
            if result.get("good") and not case["has_id"]:
                v.append(Violation("C18", "sbatch.unparsable.accepted",
                                   f"sbatch ret={case['ret']} stdout={case['stdout']!r} treated as a successful submission id={result.get('id')!r}"))
            if result.get("good") and case["has_id"] and not (result.get("id") or "").isdigit():
                v.append(Violation("C18", "sbatch.id.bad", f"job id {result.get('id')!r} is not the number printed by sbatch"))
            if getattr(self, "_last_execs", 1) > 7:
                v.append(Violation("C18", "sbatch.retries", f"sbatch executed {self._last_execs} times (> num_retries+1 = 7)"))
        elif op == "slurm.script":
            exp = self._expected_script(case)
            if result != exp:
                v.append(Violation("C18", "script.text", f"submission script differs from the configured directives: got {result!r} expected {exp!r}"))
        elif op == "slurm.runscript":
            exp = ["#!/bin/bash", "jade-internal run-jobs {} --output={} {}{}{}".format(
                case["configFile"], case["output"],
                "--distributed-submitter" if case["distributed"] else "--no-distributed-submitter",
                "" if case["numProcs"] is None else f" --num-parallel-processes-per-node={case['numProcs']}",
                " --verbose" if case["verbose"] else "")]
            if result != exp:
                v.append(Violation("C18", "runscript.text", f"run script differs from the group's options: got {result!r} expected {exp!r}"))
        elif op == "slurm.retry":
            n = case["numRetries"]
            outs = case["outs"]
            ex = result["executions"]
            if ex > n + 1 or ex < 1:
                v.append(Violation("C18", "retry.bound", f"{ex} executions with num_retries={n}"))
            else:
                first_ok = next((i for i, a in enumerate(outs) if a["ret"] == 0), None)
                if first_ok is not None and first_ok < n + 1 and ex > first_ok + 1:
                    v.append(Violation("C18", "retry.after_success", f"executed again after the success at attempt {first_ok + 1}"))
                perm = None
                if case["errs"] and case["hasOutput"] and n > 0:
                    perm = next((i for i, a in enumerate(outs) if a["ret"] != 0 and a["permanent"]), None)
                if perm is not None and perm < n + 1 and ex > perm + 1:
                    v.append(Violation("C18", "retry.after_permanent", f"executed again after the listed permanent error at attempt {perm + 1}"))
                stops = [x + 1 for x in (first_ok, perm) if x is not None] + [n + 1]
                if ex < min(stops):
                    v.append(Violation("C18", "retry.too_few", f"gave up after {ex} executions; expected {min(stops)}"))
                if result["ret"] != outs[ex - 1]["ret"]:
                    v.append(Violation("C18", "retry.ret", "returned code is not the last execution's"))
        return v

    def _expected_script(self, case):
        cfg = self._hpc_config(case)
        lines = ["#!/bin/bash", f"#SBATCH --account={cfg.hpc.account}", f"#SBATCH --job-name={case['name']}",
                 f"#SBATCH --time={cfg.hpc.walltime}", f"#SBATCH --output={case['path']}/job_output_%j.o",
                 f"#SBATCH --error={case['path']}/job_output_%j.e"]
        for p in OPTIONAL:
            val = getattr(cfg.hpc, p, None)
            if val is not None:
                lines.append(f"#SBATCH --{p}={val}")
        lines += ["", f"srun {case['script']}"]
        return lines

    def tags(self, case, result):
        op = case["op"]
        t = [op]
        if isinstance(result, dict) and "error" in result:
            t.append(op + ".error")
        if op == "slurm.parse" and isinstance(result, dict) and "complete" in result:
            if any(result["complete"]):
                t.append("parse.someComplete")
            if not all(result["complete"]):
                t.append("parse.someActive")
            if "UNKNOWN" in result["statuses"]:
                t.append("parse.unknownWord")
        if op == "slurm.submit":
            t.append("submit.good" if result.get("model", result).get("good") else "submit.error")
        if op == "slurm.retry":
            if result["executions"] == case["numRetries"] + 1 and result["ret"] != 0:
                t.append("retry.exhausted")
            elif result["ret"] == 0:
                t.append("retry.success")
            else:
                t.append("retry.early")
        if op == "slurm.script":
            t.append(f"script.nopt={len(case['set'])}")
        return t


SUITE = SlurmSuite()
