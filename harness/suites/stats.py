"""Suite `stats` (C20): the real `ResourceMonitorAggregator.update_resource_stats/finalize` vs Model/Reports.lean.

Samples are dyadic rationals `k / 2**scale` (so that Python's float arithmetic on them is exact); both sides
report integer-scaled values (`value * 2**scale`) and the mean as a reduced fraction.  `_get_stats` and
`_get_process_stats` are overridden in a subclass to feed the generated samples; everything else (initial
values, update, finalize, the JSON file) is the real code.
"""
import json
import sys
from fractions import Fraction

from common import Suite, Violation, quiet, scratch_dir

TYPES = {"CPU": ["cpu_percent", "user", "idle"], "Disk": ["read MB/s", "write_count"],
         "Memory": ["available", "percent"], "Network": ["recv MB/s", "bytes_sent"]}
KINDS = ["increasing", "decreasing", "constant", "zero", "random", "zigzag", "firstmax", "firstmin", "random", "random"]
MAXDEN = 64  # bound on the number of samples (denominator of the mean)


def gen_samples(rng, kind, n, scale):
    top = 2 ** rng.choice([3, 8, 20])
    if kind == "zero":
        return [0] * n
    if kind == "constant":
        return [rng.randint(0, top)] * n
    xs = [rng.randint(0, top) for _ in range(n)]
    if kind == "increasing":
        xs = sorted(set(xs))
        while len(xs) < n:
            xs.append(xs[-1] + rng.randint(1, 9) if xs else 0)
    elif kind == "decreasing":
        xs = sorted(set(xs), reverse=True)
        while len(xs) < n:
            xs.insert(0, xs[0] + rng.randint(1, 9) if xs else 0)
    elif kind == "zigzag":
        xs = [x if i % 2 else top + x for i, x in enumerate(xs)]
    elif kind == "firstmax" and xs:
        xs[0] = max(xs) + 1
    elif kind == "firstmin" and xs:
        xs[0] = max(0, min(xs) - 1)
    elif kind == "negative":
        xs = [-x - 1 for x in xs]
    elif kind == "mixedsign":
        xs = [x - top // 2 for x in xs]
    elif kind == "huge":
        xs = [2 ** (63 + rng.choice([0, 1])) * 2 ** scale] * min(n, 4)
        xs += xs[:1] * (n - len(xs))
    return xs[:n]


class StatsSuite(Suite):
    name = "stats"

    # ------------------------------------------------------------------ generators
    def cases(self, rng, tier, prop):
        count = {"quick": 600, "thorough": 8000}[tier]
        out = []
        for kind in KINDS[:8] + ["negative", "mixedsign", "huge"]:     # every family at several lengths, alone
            for n in (1, 2, 3, 7):
                scale = rng.choice([0, 1, 3, 6])
                out.append({"op": "stats.run", "scale": scale, "n": n,
                            "sys": [{"type": "CPU", "stat": "cpu_percent", "int": False, "init": rng.randint(0, 2 ** 21),
                                     "samples": gen_samples(rng, kind, n, scale)}],
                            "proc": [{"name": "job_1", "present": [True] * n,
                                      "stats": [{"stat": "rss", "int": False, "samples": gen_samples(rng, kind, n, scale)}]}]})
        for _ in range(count):
            out.append(self._gen(rng))
        return out

    def _gen(self, rng):
        n = rng.choice([0, 1, 1, 2, 2, 3, 4, 5, 8, 13, 21, 40])
        scale = rng.choice([0, 0, 1, 3, 6])
        sysc = []
        for t in rng.sample(sorted(TYPES), rng.choice([0, 1, 1, 2, 3])):
            for st in rng.sample(TYPES[t], rng.randint(1, 2)):
                kind = rng.choice(KINDS + (["negative", "mixedsign", "huge"] if rng.random() < .25 else []))
                as_int = scale == 0 and kind != "huge" and rng.random() < .3
                sysc.append({"type": t, "stat": st, "int": as_int, "init": rng.randint(0, 2 ** 21),
                             "samples": gen_samples(rng, kind, n, scale)})
        proc = []
        for p in rng.sample(["job_1", "job_2", "sim-α", "p"], rng.randint(0, 2)):
            pm = rng.choice(["all", "all", "late", "gaps", "never"])
            if pm == "all":
                present = [True] * n
            elif pm == "late":
                k = rng.randint(0, n)
                present = [i >= k for i in range(n)]
            elif pm == "gaps":
                present = [rng.random() < .6 for _ in range(n)]
            else:
                present = [False] * n
            m = sum(present)
            stats = []
            for st in ["rss", "cpu_percent"][:rng.randint(1, 2)]:
                kind = rng.choice(KINDS + ["negative", "mixedsign"])
                stats.append({"stat": st, "int": scale == 0 and rng.random() < .5, "samples": gen_samples(rng, kind, m, scale)})
            proc.append({"name": p, "present": present, "stats": stats})
        return {"op": "stats.run", "scale": scale, "n": n, "sys": sysc, "proc": proc}

    # ------------------------------------------------------------------ implementation
    @staticmethod
    def _val(k, scale, as_int):
        if as_int:
            return int(k) >> scale if scale else int(k)
        return k / 2 ** scale  # exact: k is an integer below 2**53 (or a power of two)

    def impl(self, case):
        from jade.resource_monitor import ResourceMonitorAggregator
        from jade.models.submitter_params import ResourceMonitorStats
        scale, n = case["scale"], case["n"]
        val = self._val

        def sys_feed(get):
            d = {}
            for c in case["sys"]:
                d.setdefault(c["type"], {})[c["stat"]] = val(get(c), scale, c["int"])
            return d

        feed = [sys_feed(lambda c: c["init"])] + [sys_feed(lambda c, i=i: c["samples"][i]) for i in range(n)]
        pfeed = []
        seen = {p["name"]: 0 for p in case["proc"]}
        for i in range(n):
            d = {}
            for p in case["proc"]:
                if p["present"][i]:
                    d[p["name"]] = {s["stat"]: val(s["samples"][seen[p["name"]]], scale, s["int"]) for s in p["stats"]}
                    seen[p["name"]] += 1
            pfeed.append(d)

        class Agg(ResourceMonitorAggregator):
            def _get_stats(self):
                return feed.pop(0)

            def _get_process_stats(self, pids):
                return pfeed.pop(0)

        with quiet(), scratch_dir() as out:
            agg = Agg("batch_7", ResourceMonitorStats(cpu=True, disk=True, memory=True, network=True, process=bool(case["proc"])))
            for _ in range(n):
                agg.update_resource_stats(ids={})
            count = agg._count
            (out / "stats").mkdir()
            agg.finalize(str(out))
            f = out / "stats" / "batch_7_resource_stats.json"
            data = json.loads(f.read_text()) if f.exists() else None
        if data is None:
            return {"sys": [None] * len(case["sys"]), "proc": [None] * sum(len(p["stats"]) for p in case["proc"])}

        def scaled(x):
            fr = Fraction(x) * 2 ** scale
            return int(fr) if fr.denominator == 1 else f"nonintegral:{x!r}"

        def mean(x):
            fr = (Fraction(x) * 2 ** scale).limit_denominator(MAXDEN)
            return [fr.numerator, fr.denominator]

        sysd = {e["type"]: e for e in data if e["type"] != "Process"}
        procd = {e["name"]: e for e in data if e["type"] == "Process"}
        rs, rp = [], []
        for c in case["sys"]:
            e = sysd.get(c["type"], {})
            if c["stat"] not in e.get("maximum", {}):
                rs.append(None)
                continue
            rs.append({"max": scaled(e["maximum"][c["stat"]]), "min": scaled(e["minimum"][c["stat"]]),
                       "mean": mean(e["average"][c["stat"]]), "samples": count})
        for p in case["proc"]:
            e = procd.get(p["name"])
            for s in p["stats"]:
                if e is None or s["stat"] not in e.get("maximum", {}):
                    rp.append(None)
                    continue
                rp.append({"max": scaled(e["maximum"][s["stat"]]), "min": scaled(e["minimum"][s["stat"]]),
                           "mean": mean(e["average"][s["stat"]]), "samples": e["samples"]})
        return {"sys": rs, "proc": rp}

    def model_case(self, case):
        return {"op": "stats.run", "maxsize": sys.maxsize * 2 ** case["scale"],
                "sys": [c["samples"] for c in case["sys"]],
                "proc": [s["samples"] for p in case["proc"] for s in p["stats"]]}

    # ------------------------------------------------------------------ direct oracle
    def oracle(self, case, result):
        v = []
        if not isinstance(result, dict) or "sys" not in result:
            return [Violation("C20", "stats.crash", f"aggregation failed: {result!r}")]
        limit = sys.maxsize * 2 ** case["scale"]
        cols = [("system", f"{c['type']}/{c['stat']}", c["samples"], r, True) for c, r in zip(case["sys"], result["sys"])]
        flat = [(p, s) for p in case["proc"] for s in p["stats"]]
        cols += [("process", f"{p['name']}/{s['stat']}", s["samples"], r, False) for (p, s), r in zip(flat, result["proc"])]
        for lvl, label, xs, r, ranged in cols:
            if not xs:
                if r is not None:
                    v.append(Violation("C20", "stats.phantom", f"{lvl} statistic {label} reported without any sample: {r}"))
                continue
            if ranged and not all(0 <= x < limit for x in xs):
                continue  # outside the range the initial values 0.0 / sys.maxsize are meant for
            if r is None:
                v.append(Violation("C20", "stats.missing", f"{lvl} statistic {label} with {len(xs)} samples is not reported"))
                continue
            sc = 2 ** case["scale"]
            show = [x / sc for x in xs[:8]]
            if r["max"] != max(xs):
                v.append(Violation("C20", "stats.max.wrong", f"{lvl} {label}: samples {show}… maximum reported {r['max']}/{sc}, true {max(xs)}/{sc}"))
            if r["min"] != min(xs):
                v.append(Violation("C20", "stats.min.wrong", f"{lvl} {label}: samples {show}… minimum reported {r['min']}/{sc}, true {min(xs)}/{sc}"))
            m = Fraction(sum(xs), len(xs))
            if r["mean"] != [m.numerator, m.denominator]:
                v.append(Violation("C20", "stats.mean.wrong", f"{lvl} {label}: samples {show}… mean reported {r['mean']}/{sc}, true {m}/{sc}"))
            if r["samples"] != len(xs):
                v.append(Violation("C20", "stats.count.wrong", f"{lvl} {label}: {len(xs)} samples taken, {r['samples']} counted"))
        return v

    def tags(self, case, result):
        cols = [c["samples"] for c in case["sys"]] + [s["samples"] for p in case["proc"] for s in p["stats"]]
        if not any(cols):
            return ["trivial.noSamples"]
        t = ["stats.run"]
        limit = sys.maxsize * 2 ** case["scale"]
        for xs in cols:
            if not xs:
                t.append("stats.col.empty")
                continue
            if len(xs) == 1:
                t.append("stats.col.single")
            elif all(a < b for a, b in zip(xs, xs[1:])):
                t.append("stats.col.increasing")
            elif all(a > b for a, b in zip(xs, xs[1:])):
                t.append("stats.col.decreasing")
            elif len(set(xs)) == 1:
                t.append("stats.col.zero" if xs[0] == 0 else "stats.col.constant")
            else:
                t.append("stats.col.mixed")
            if any(x < 0 for x in xs):
                t.append("stats.col.negative")
            if any(x >= limit for x in xs):
                t.append("stats.col.huge")
        if case["proc"]:
            t.append("stats.process")
            if any(not all(p["present"]) for p in case["proc"]):
                t.append("stats.process.gaps")
        return sorted(set(t))

    def shrink(self, case):
        out = []
        for i in range(len(case["sys"])):
            c = dict(case)
            c["sys"] = case["sys"][:i] + case["sys"][i + 1:]
            out.append(c)
        for i in range(len(case["proc"])):
            c = dict(case)
            c["proc"] = case["proc"][:i] + case["proc"][i + 1:]
            out.append(c)
        for i, p in enumerate(case["proc"]):
            if len(p["stats"]) > 1:
                for k in range(len(p["stats"])):
                    c = dict(case)
                    c["proc"] = list(case["proc"])
                    c["proc"][i] = dict(p, stats=p["stats"][:k] + p["stats"][k + 1:])
                    out.append(c)
        for i in range(case["n"]):  # drop the i-th update call
            c = dict(case, n=case["n"] - 1)
            c["sys"] = [dict(s, samples=s["samples"][:i] + s["samples"][i + 1:]) for s in case["sys"]]
            np_ = []
            for p in case["proc"]:
                k = sum(p["present"][:i])
                stats = [dict(s, samples=s["samples"][:k] + s["samples"][k + 1:]) if p["present"][i] else s for s in p["stats"]]
                np_.append(dict(p, present=p["present"][:i] + p["present"][i + 1:], stats=stats))
            c["proc"] = np_
            out.append(c)
        if case["scale"]:
            ok = all(x % 2 ** case["scale"] == 0 for s in case["sys"] for x in s["samples"] + [s["init"]]) and \
                all(x % 2 ** case["scale"] == 0 for p in case["proc"] for s in p["stats"] for x in s["samples"])
            if ok:
                sc = 2 ** case["scale"]
                c = dict(case, scale=0)
                c["sys"] = [dict(s, init=s["init"] // sc, samples=[x // sc for x in s["samples"]]) for s in case["sys"]]
                c["proc"] = [dict(p, stats=[dict(s, samples=[x // sc for x in s["samples"]]) for s in p["stats"]]) for p in case["proc"]]
                out.append(c)
        return out


SUITE = StatsSuite()
