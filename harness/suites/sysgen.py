"""Structured scenario families for the system suite (kept apart from system.py's uniform generator).

`cancel_chain`: the vocabulary of C03/C04 — a failing (or succeeding) root, chains and diamonds of dependents with
mixed cancel flags, listed in an order independent of the dependency order, cut into batches of 1–3 so that the
failing job and its dependents land in the same batch / the next batch / rounds later, and node-level and
submitter-level detection both occur along one chain.
"""


def fail_rc(rng):
    """a failing exit status: usually 1..255, sometimes a negative Popen.returncode (the process died from a signal:
    OOM kill -9, SIGTERM -15, SIGSEGV -11)"""
    return rng.randint(1, 255) if rng.random() < .75 else rng.choice([-9, -15, -11])


def cancel_chain(rng):
    depth = rng.choice([2, 3, 3, 4, 5])
    width = rng.choice([1, 1, 2])
    levels = [[0]]
    nxt = 1
    for _ in range(depth):
        lv = list(range(nxt, nxt + rng.randint(1, width)))
        nxt += len(lv)
        levels.append(lv)
    n = nxt
    extra = rng.choice([0, 0, 1, 2])            # unrelated jobs
    blockers = {0: []}
    for li in range(1, len(levels)):
        for j in levels[li]:
            bl = set(rng.sample(levels[li - 1], rng.randint(1, len(levels[li - 1]))))
            if li >= 2 and rng.random() < .3:
                bl.add(rng.choice(levels[li - 2]))      # a shortcut edge (diamond)
            blockers[j] = sorted(bl)
    for j in range(n, n + extra):
        blockers[j] = []
    n += extra
    flagp = rng.choice([.5, .8, 1.0])
    root_fails = rng.random() < .8
    bs = rng.choice([1, 2, 2, 3])
    groups = [{"batchSize": bs, "timeBased": False, "tryAdd": rng.random() < .6, "wallSec": 6000,
               "procs": rng.choice([1, 2, None]), "dryRun": False}]
    # listing order independent of the dependency order: relabel by a random permutation (jobs are listed by id)
    perm = list(range(n))
    rng.shuffle(perm)
    jobs = []
    for k in range(n):
        jobs.append({"id": perm[k], "group": 0, "est": 10, "blockers": sorted(perm[b] for b in blockers[k]),
                     "cancel": (rng.random() < flagp) if k != 0 else rng.random() < .5,
                     "rc": (fail_rc(rng) if root_fails else 0) if k == 0 else (0 if rng.random() < .85 else fail_rc(rng))})
    jobs.sort(key=lambda j: j["id"])
    return {"jobs": jobs, "groups": groups, "maxNodes": rng.choice([1, 1, 2, None]), "cpus": rng.choice([1, 2])}
