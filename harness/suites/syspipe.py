"""Suite `syspipe` (C15 at SYSTEM level): whole pipelines of 1-4 stages through the REAL entry points
(`jade pipeline create`, `jade pipeline submit`, per stage the real run_submit_jobs / jade-internal run-jobs /
try-submit-jobs, and the completion hand-off `jade pipeline submit-next-stage <dir> --stage-num=k --return-code=rc`
executed as a child process through the real click group) under the deterministic simulation of harness/vpipeline.py
(= harness/vcluster.py + the pipeline commands at the fake process boundary).

A case = pipeline scenario (per stage: jobs, dependency graph, submission groups, node limit, lifecycle commands) + mode +
seed (+ optionally the explicit op list, for replay / shrinking).  Every choice of the schedule derives from
random.Random(seed); the ops actually executed are recorded.

modes
  plain   fault-free: all schedules of the stages' batches, node processes, job ends, submitter rounds; the user looks
          (try-submit-jobs on the current stage) now and then and whenever nothing else can move.  One pipeline in five
          has stages of the local HPC type (the stage runs inside its own submission: nested hand-offs)
  faults  the same plus, per run, one or two of: squeue failing all retries of one round; a lifecycle (teardown/setup)
          command that cannot be STARTED (OSError out of subprocess); a submitter killed between the steps of a completion /
          a hand-off process killed; a batch lost (node failure / timeout: jobs without result, stage return code 1); every
          sbatch of a stage's first round failing (the stage completes inside its own submission: nested hand-off);
          somebody repeating an earlier hand-off command; the stage's config command failing.
          Recovery = what the documentation offers: `jade try-submit-jobs <stage dir>` at quiescence.

DIRECT ORACLE (independent of Lean) = the sentence of C15 on the observed events and on pipeline.json after every op:
  order.*     stage k+1 is configured (config command) / submitted (run_submit_jobs) / any of its batches handed to SLURM only
              when stage k's completion flag is on disk AND no batch of a stage <= k that still has work (a job without a
              recorded result) is pending or running in the fake SLURM.  (A batch whose jobs all have results may still be
              listed RUNNING: its node is in its tail - teardown, its own try-submit-jobs; the process that completes the
              stage and hands over usually runs inside exactly such a batch.)
  once.*      each stage configured and submitted at most once, in the order 1,2,3..; exactly once by the end of a complete
              run; no job of the pipeline in two batches / started twice
  state.*     pipeline.json: stage_num never decreases, moves by one, equals the stage being submitted at the moment of its
              submission, stays within {last submitted, last submitted + 1}; return codes are write-once and exactly those of
              the stages below stage_num; is_complete never reverts
  rc.*        stage k's recorded return code appears only after k's flag, equals the code its completing submitter handed
              over and what k's results imply
  handoff.*   the command names the pipeline directory and stage k+1, is issued by the process that flagged k, after the flag,
              once; a flagged stage whose flagging process was not killed HAS handed off by the end of the run
  complete.*  is_complete only with every stage flagged and no live batch
  progress.*  runs with only recoverable faults (and all fault-free runs) end with the pipeline complete

CORRESPONDENCE: every real history is projected to the command sequence of the Lean pipeline model (op `pipeline.run` of
lean/Driver/Pipeline.lean: start / next k rc with the environment's outcome per call) and the model's result, persisted
state and hand-over per command are compared with what the real processes did.  Histories the sequential model cannot
express (overlapping commands, a submission that raised instead of returning) are tagged `projection.skipped.*`; the
oracle alone decides them.
"""
import json
import multiprocessing
import os
import random
import re
import traceback

from common import Suite, Violation, scratch_dir
from jadeenv import jid

MAX_OPS = 3000
MAX_USER_TRYSUBMITS = 8          # per stage, at quiescence
GID = 100
RECOVERABLE = {"squeue7", "forkfail", "nodelost", "dupnext", "sbatchfail"}
SUBMITTERS = ("psubmit", "nextstage", "trysubmit")


# ----------------------------------------------------------------------------------------------
# scenario generation
# ----------------------------------------------------------------------------------------------
def gen_stage(rng, k, mode):
    n = rng.choice([1, 2, 2, 3, 3, 4, 4, 5])
    ng = rng.choice([1, 1, 1, 2])
    groups = []
    for _ in range(ng):
        wall = rng.choice([1800, 6000, 14400])
        tb = rng.random() < .25
        groups.append({"batchSize": rng.choice([1, 1, 2, 2, 3]), "timeBased": tb, "tryAdd": rng.random() < .5, "wallSec": wall,
                       "procs": rng.choice([1, 2, 3]) if (tb or rng.random() < .7) else None, "dryRun": False})
    p = rng.choice([0, .2, .3, .5])
    order = list(range(n))
    rng.shuffle(order)
    pos = {j: i for i, j in enumerate(order)}
    jobs = []
    for i in range(n):
        g = rng.randrange(ng)
        ests = [e for e in (1, 5, 10, 10, 30, 60, 90) if e * 60 <= groups[g]["wallSec"]]
        blockers = sorted(GID * k + b for b in range(n) if b != i and pos[b] < pos[i] and rng.random() < p)
        jobs.append({"id": GID * k + i, "group": g, "est": rng.choice(ests), "blockers": blockers, "cancel": rng.random() < .4,
                     "rc": 0 if rng.random() < .7 else rng.randint(1, 255)})
    st = {"jobs": jobs, "groups": groups, "maxNodes": rng.choice([1, 2, 2, 3, None, None])}
    life = {}
    if rng.random() < (.75 if mode == "faults" else .4):
        life["teardown"] = "hook teardown"
    if rng.random() < .25:
        life["setup"] = "hook setup"
    if rng.random() < .15:
        life["node_teardown"] = "hook node_teardown"
    if life:
        st["lifecycle"] = life
    return st


def gen_pipeline(rng, mode):
    n = rng.choice([1, 2, 2, 2, 3, 3, 3, 4, 4])
    sc = {"stages": [gen_stage(rng, k, mode) for k in range(1, n + 1)], "cpus": rng.choice([1, 2, 4]),
          "cfgMode": "commands" if rng.random() < .8 else "files", "hook_rc": {"teardown": rng.choice([0, 0, 3])}}
    if mode == "plain" and rng.random() < .2:
        # stages run with the local HPC type (the whole stage inside its own submission: nested hand-offs); all or some
        how = rng.choice(["all", "some"])
        for st in sc["stages"]:
            if how == "all" or rng.random() < .5:
                st["local"] = True
                st["groups"] = st["groups"][:1]
                st["groups"][0]["procs"] = rng.choice([None, 1, 2])
                for j in st["jobs"]:
                    j["group"] = 0
    if mode == "plain":
        # multi-node allocations (hpc.nodes >= 2: srun starts run-jobs on every node of a batch's allocation) in some
        # HPC stages; drawn from a stream of its own, so that the pipelines without them are the ones they always were
        r2 = random.Random(json.dumps(sc, sort_keys=True))
        if r2.random() < float(os.environ.get("VERIF_MULTINODE") or .2):
            for st in sc["stages"]:
                if not st.get("local") and r2.random() < .7:
                    for g in st["groups"]:
                        g["nodes"] = r2.choice([2, 2, 3])
    if mode == "faults":
        kinds = ["squeue7"] * 4 + ["forkfail"] * 3 + ["kill"] * 2 + ["nodelost", "dupnext", "sbatchfail", "killnext"]
        plan = [rng.choice(kinds)]
        if rng.random() < .35:
            plan.append(rng.choice(["squeue7", "forkfail", "nodelost", "dupnext", "kill"]))
        sc["faultPlan"] = plan
        if sc["cfgMode"] == "commands" and n >= 2 and rng.random() < .06:
            sc["autoconfigFail"] = {str(rng.randint(2, n)): rng.choice(["ret", "nofile"])}
    return sc


def fault_kind(op):
    """the fault an op injects (None: an ordinary scheduling op)"""
    if op[0] in ("kill", "forkfail", "nodelost"):
        return op[0]
    if op[0] == "failext":
        return "squeue7" if op[3] == "squeue" else "sbatchfail"
    if op[0] == "spawn" and op[1] == "dupnext":
        return "dupnext"
    return None


def stage_jobs(sc, k):
    return [j["id"] for j in sc["stages"][k - 1]["jobs"]]


# ----------------------------------------------------------------------------------------------
# one trace
# ----------------------------------------------------------------------------------------------
class Run:
    def __init__(self, case, workdir):
        from vpipeline import VPipeline
        self.case = case
        self.sc = case["sc"]
        self.mode = case["mode"]
        self.n = len(self.sc["stages"])
        self.rng = random.Random(case["seed"])
        self.vc = VPipeline(self.sc, os.path.join(workdir, "out"), workdir)
        self.vc.autoconfig_fail = {int(k): v for k, v in (self.sc.get("autoconfigFail") or {}).items()}
        self.ops = []
        self.checks = []
        self.seen_keys = set()
        self.style = self.rng.choice(["uniform", "nodes", "submitters", "bursty", "slowext"])
        self.last = None
        self.n_seen = 0
        self.prev_view = None
        self.submitted = []            # stages handed to run_submit_jobs, in order
        self.configured = []
        self.handoffs = {}             # completed stage -> [(pid, args)]
        self.completers = {}           # stage -> [pid] that called mark_complete for it
        self.rc_seen = {}              # stage -> recorded return code (first appearance)
        self.plan = list(self.sc.get("faultPlan") or [])
        self.faults = []               # kinds actually injected
        self.user_trysubmits = {}
        self.user_busy = 0
        self.stranded = None
        self.last_step = {}
        self.hold = set()              # scripted schedules: jobs that keep running for now
        self.focus = None
        self.focus_weight = self.rng.choice([1, 4, 12, 40])

    def descends(self, p, pid):
        seen = set()
        while p is not None and p.pid not in seen:
            if p.pid == pid:
                return True
            seen.add(p.pid)
            p = self.vc.procs.get(p.parent) if p.parent is not None else None
        return False

    def bad(self, key, msg):
        if (key, msg) not in self.seen_keys:
            self.seen_keys.add((key, msg))
            self.checks.append(("C15", key, msg))

    # ------------------------------------------------------------------ op menu
    def menu(self):
        vc = self.vc
        m = []
        for p in vc.live():
            if vc.enabled(p.pid):
                w = 1.0
                if self.style == "nodes" and p.kind in ("node", "worker"):
                    w = 4.0
                if self.style == "submitters" and p.kind not in ("node", "worker"):
                    w = 4.0
                if self.style == "bursty" and self.last == ("step", p.pid):
                    w = 6.0
                if self.style == "slowext" and p.at[0] == "EXT" and str(p.at[1]).split(" ")[0] in ("squeue", "sbatch"):
                    w = 0.1
                if self.focus is not None and self.descends(p, self.focus):
                    w = max(w, 1.0) * self.focus_weight        # the process hit by a fault (and its children) runs ahead of the rest
                m.append((w, ["step", p.pid]))
        for h, b in vc.slurm.items():
            if b["state"] == "pending":
                m.append((1.5, ["startbatch", h]))
        for i, jp in enumerate(vc.jobprocs):
            if jp.exited is None and jp.returncode is None and vc.procs[jp.node].state == "ready" and jp.name not in self.hold:
                m.append((2.0, ["jobexit", i]))
        return m

    def apply(self, op):
        vc = self.vc
        k = op[0]
        self.ops.append(op)
        self.last = tuple(op[:2])
        if k == "step":
            self.last_step[op[1]] = len(self.ops)
            vc.step(op[1])
        elif k == "startbatch":
            vc.start_batch(op[1])
        elif k == "jobexit":
            vc.job_exit(vc.jobprocs[op[1]])
        elif k == "spawn":
            vc.step_no += 1
            if op[1] == "psubmit":
                vc.spawn_pipeline_submit()
            elif op[1] == "trysubmit":
                vc.spawn_user_trysubmit(op[2])
            elif op[1] == "dupnext":
                vc.spawn_user_nextstage(op[2], op[3])
        elif k == "kill":
            vc.kill(op[1])
        elif k == "failext":
            vc.procs[op[1]].fail_ext = op[2]
            vc.procs[op[1]].fail_ext_cmd = op[3]
        elif k == "forkfail":
            vc.procs[op[1]].fork_fail = op[2]
        elif k == "nodelost":
            vc.node_lost(op[1])
        self.after_op()

    # ------------------------------------------------------------------ online monitors
    def after_op(self):
        vc = self.vc
        new = vc.trace[self.n_seen:]
        self.n_seen = len(vc.trace)
        for e in new:
            fn = getattr(self, "on_" + e[1], None)
            if fn is not None:
                fn(e)
        self.check_pipeline_file()

    def _order(self, what, k, snap_flags, live):
        """C15, first clause: acting for stage k only when every earlier stage is flagged complete on disk and none of
        their batches is still queued or running"""
        if not isinstance(k, int) or k < 2:
            return
        notdone = [j for j in range(1, k) if not snap_flags.get(j)]
        if notdone:
            self.bad("order.prev_not_complete", f"stage {k} {what} while the completion flag of stage(s) {notdone} is not on disk")
        if live:
            self.bad("order.prev_batches_live", f"stage {k} {what} while batches {[tuple(x) for x in live]} (SLURM id, stage, state, "
                     f"jobs without a result) of earlier stages are still queued or running")

    def on_autoconfig(self, e):
        _, _, pid, k, snap, stage_env, out_env = e
        self._order("was configured (its config command ran)", k, snap["flags"], snap["live"])
        if k in self.configured:
            self.bad("once.configured_twice", f"the config command of stage {k} ran a second time")
        self.configured.append(k)
        pv = snap["pipeline"]
        if not isinstance(pv, dict) or pv["stage_num"] != k or stage_env != str(k) or out_env != self.vc.pdir:
            self.bad("state.config_mismatch", f"config command of stage {k} ran with JADE_PIPELINE_STAGE_ID={stage_env!r} "
                     f"JADE_PIPELINE_OUTPUT_DIR={'<P>' if out_env == self.vc.pdir else out_env!r} while pipeline.json said {pv}")

    def on_stagesubmit(self, e):
        _, _, pid, k, out_stage, cfg_stage, njobs, ngroups, snap, stage_env = e
        self._order("was submitted (run_submit_jobs)", k, snap["flags"], snap["live"])
        if k in self.submitted:
            self.bad("once.stage_submitted_twice", f"stage {k} was submitted a second time (submissions so far {self.submitted})")
        elif k != len(self.submitted) + 1:
            self.bad("once.out_of_order", f"stage {k} submitted after stages {self.submitted}")
        self.submitted.append(k)
        pv = snap["pipeline"]
        if not isinstance(pv, dict) or pv["stage_num"] != k:
            self.bad("state.stage_mismatch", f"stage {k} handed to run_submit_jobs while pipeline.json said {pv}")
        want_jobs = len(self.sc["stages"][k - 1]["jobs"]) if isinstance(k, int) and 1 <= k <= self.n else None
        if out_stage != k or cfg_stage != k or njobs != want_jobs or ngroups < 1:
            self.bad("state.plumbing", f"run_submit_jobs(pipeline_stage_num={k}) got the configuration of stage {cfg_stage} "
                     f"({njobs} jobs, {ngroups} groups) and the output directory of stage {out_stage}")

    def on_sbatchstage(self, e):
        _, _, pid, hid, st, live, flags = e
        self._order(f"had batch {hid} handed to SLURM", st, flags, live)

    def on_stagecomplete(self, e):
        _, _, pid, st, field = e
        if field != st:
            self.bad("state.plumbing", f"output-stage{st}/cluster_config.json carries pipeline_stage_num={field}")
        self.completers.setdefault(st, []).append(pid)

    def on_nextstage(self, e):
        _, _, pid, args, snap = e
        done = [s for s, pids in self.completers.items() if pid in pids]
        s = done[-1] if done else None
        if s is None:
            self.bad("handoff.without_completion", f"process {pid} issued `submit-next-stage {' '.join(args)}` without having completed a stage")
            return
        if not snap["flags"].get(s):
            self.bad("handoff.before_flag", f"stage {s}: hand-off issued while its completion flag was not on disk")
        want_rc = self.expected_rc(s)
        want = ("<P>", f"--stage-num={s + 1}", f"--return-code={want_rc}")
        if tuple(args) != want:
            self.bad("handoff.args", f"stage {s} completed (results imply return code {want_rc}) but the command was "
                     f"`submit-next-stage {' '.join(args)}`, expected `submit-next-stage {' '.join(want)}`")
        if s in self.handoffs:
            self.bad("handoff.twice", f"stage {s}: the hand-off command was issued a second time")
        self.handoffs.setdefault(s, []).append((pid, tuple(args)))

    def on_pserialize(self, e):
        _, _, pid, view, snap = e
        if snap is not None:
            notdone = [j for j in range(1, self.n + 1) if not snap["flags"].get(j)]
            if notdone or snap["live"]:
                self.bad("complete.early", f"pipeline.json written with is_complete=true while stages {notdone} are not flagged "
                         f"complete / batches {snap['live']} are still queued or running")

    def expected_rc(self, s):
        """what stage s's results imply: the status value of its completion, 0 iff every job of the stage has a result
        (JADE's Status.GOOD; jobs that FAILED do not make the stage's code non-zero, their count is in results.json)"""
        have = {r[1] for r in self.vc.stage_rows(s)}
        return 0 if all(j in have for j in stage_jobs(self.sc, s)) else 1

    def check_pipeline_file(self):
        v = self.vc.pipeline_view()
        if v is None or v == self.prev_view:
            return
        if v == "unreadable":
            self.bad("state.unreadable", "pipeline.json does not parse")
            return
        pv = self.prev_view
        n = self.n
        if len(v["return_codes"]) != n:
            self.bad("state.shape", f"pipeline.json lists {len(v['return_codes'])} stages, the pipeline has {n}")
            self.prev_view = v
            return
        if pv is not None:
            if v["stage_num"] < pv["stage_num"]:
                self.bad("state.stage_num_decreased", f"recorded stage went backwards {pv['stage_num']} -> {v['stage_num']}")
            elif v["stage_num"] > pv["stage_num"] + 1:
                self.bad("state.stage_num_jump", f"recorded stage jumped {pv['stage_num']} -> {v['stage_num']}")
            if pv["is_complete"] and not v["is_complete"]:
                self.bad("state.complete_reverted", "is_complete went from true to false")
            for i, (a, b) in enumerate(zip(pv["return_codes"], v["return_codes"])):
                if a is not None and a != b:
                    self.bad("state.return_code_changed", f"recorded return code of stage {i + 1} changed {a} -> {b}")
        last = max(self.submitted) if self.submitted else 0
        if not (last <= v["stage_num"] <= last + 1):
            self.bad("state.stage_num_vs_submitted", f"pipeline.json says stage {v['stage_num']} while the stages submitted are {self.submitted}")
        for i, rc in enumerate(v["return_codes"]):
            s = i + 1
            if (rc is not None) != (s < v["stage_num"]):
                self.bad("state.return_codes_shape", f"stage_num={v['stage_num']} but return codes are {v['return_codes']}")
                break
        for i, rc in enumerate(v["return_codes"]):
            s = i + 1
            if rc is not None and s not in self.rc_seen:
                self.rc_seen[s] = rc
                if self.vc.stage_flag(s) is not True:
                    self.bad("rc.before_complete", f"return code {rc} recorded for stage {s} whose submission is not flagged complete")
                given = [a for _, a in self.handoffs.get(s, [])]
                if s in self.completers and given and f"--return-code={rc}" not in {a[2] for a in given if len(a) > 2} \
                        and not self.user_next_for(s + 1):
                    self.bad("rc.not_handed_over", f"return code {rc} recorded for stage {s}, its completing submitter handed over {given}")
                if s in self.completers and rc != self.expected_rc(s) and not self.user_next_for(s + 1):
                    self.bad("rc.wrong", f"return code {rc} recorded for stage {s}, its results imply {self.expected_rc(s)}")
        if v["is_complete"]:
            if v["stage_num"] != n + 1:
                self.bad("complete.stage_num", f"is_complete with stage_num={v['stage_num']} (N={n})")
        elif v["stage_num"] > n:
            self.bad("complete.missing", f"stage_num={v['stage_num']} > N={n} but is_complete is false")
        self.prev_view = v

    def argv_of(self, pid):
        return next((e[3] for e in self.vc.trace if e[1] == "pcall" and e[2] == pid), ())

    def user_next_for(self, k):
        return any(op[0] == "spawn" and op[1] == "dupnext" and op[2] == k for op in self.ops)

    # ------------------------------------------------------------------ schedule
    def choose(self, menu):
        tot = sum(w for w, _ in menu)
        x = self.rng.random() * tot
        for w, op in menu:
            x -= w
            if x <= 0:
                return op
        return menu[-1][1]

    def current_stage(self):
        v = self.vc.pipeline_view()
        if not isinstance(v, dict):
            return None
        k = v["stage_num"]
        return k if 1 <= k <= self.n else None

    def stage_open_for_user(self, k):
        """the stage's submission exists (its initial submitter has returned) and is not flagged complete"""
        tr = self.vc.trace
        return any(e[1] == "stagesubmitted" and e[3] == k for e in tr) and self.vc.stage_flag(k) is False

    def pid_events(self, pid, kind):
        return [e for e in self.vc.trace if e[1] == kind and len(e) > 2 and e[2] == pid]

    def maybe_extra(self):
        vc, rng = self.vc, self.rng
        k = self.current_stage()
        # the user looks now and then (try-submit-jobs is what show-status suggests)
        if k is not None and self.user_busy < 4 and rng.random() < .012 and self.stage_open_for_user(k):
            self.user_busy += 1
            return ["spawn", "trysubmit", k]
        if self.mode != "faults" or not self.plan:
            return None
        kind = self.plan[0]
        op = None
        if kind == "squeue7":
            # squeue fails all retries of the round of a try-submit-jobs that has not polled yet; preferably while
            # another batch of the same stage is still alive
            c = [p for p in vc.live() if p.kind == "trysubmit" and not self.pid_events(p.pid, "squeue") and not self.pid_events(p.pid, "summary")]
            if c and rng.random() < (.6 if vc.live_batches() else .04):
                op = ["failext", rng.choice(c).pid, 7, "squeue"]
                self.focus = op[1]
        elif kind == "forkfail":
            # the lifecycle command about to be started cannot be forked
            c = [p for p in vc.live() if p.kind in SUBMITTERS and p.at[0] == "EXT" and str(p.at[1]).startswith("hook ")
                 and getattr(p, "fork_fail", None) is None]
            if c and rng.random() < .6:
                op = ["forkfail", rng.choice(c).pid, "hook"]
                self.focus = op[1]
        elif kind == "kill":
            # a submitter dies between the steps of a completion (summary written ... hand-off ... demotion)
            c = [p for p in vc.live() if p.kind in SUBMITTERS and self.pid_events(p.pid, "summary")]
            if c and rng.random() < .2:
                op = ["kill", rng.choice(c).pid]
        elif kind == "killnext":
            c = [p for p in vc.live() if p.kind in ("nextstage", "psubmit")]
            if c and rng.random() < .06:
                op = ["kill", rng.choice(c).pid]
        elif kind == "nodelost":
            c = [h for h, b in vc.slurm.items() if b["state"] == "running" and not vc.procs[b["node"]].holding
                 and vc.procs[b["node"]].state == "ready" and vc.procs[b["node"]].at[0] != "WAIT"]
            c += [h for h, b in vc.slurm.items() if b["state"] == "pending"]
            if c and rng.random() < .08:
                op = ["nodelost", rng.choice(c)]
        elif kind == "sbatchfail":
            c = [p for p in vc.live() if p.kind in ("nextstage", "psubmit") and not self.pid_events(p.pid, "sbatch")
                 and self.pid_events(p.pid, "stagesubmit") and p.fail_ext == 0]
            if c and rng.random() < .3:
                op = ["failext", rng.choice(c).pid, 99, "sbatch"]
        elif kind == "dupnext":
            done = [e for e in vc.trace if e[1] == "nextstage" and any(x[1] == "procexit" and x[3] == "nextstage" and
                                                                        vc.procs[x[2]].parent == e[2] for x in vc.trace)]
            if done and rng.random() < .05:
                a = rng.choice(done)[3]
                op = ["spawn", "dupnext", int(a[1].split("=")[1]), int(a[2].split("=")[1])]
        if op is not None:
            self.plan.pop(0)
            self.faults.append(kind)
        return op

    def run(self, driver=None):
        """`driver(run)`: a hand-written schedule (findings/ scripts) instead of the seeded exploration"""
        vc = self.vc
        cwd = os.getcwd()
        os.chdir(vc.workdir)
        vc.install()
        try:
            vc.create_pipeline()
            if driver is not None:
                driver(self)
            elif "script" in self.case:
                SCRIPTS[self.case["script"]](self)
            elif "ops" in self.case:
                self.replay(self.case["ops"])
            else:
                self.explore()
            self.final_checks()
        finally:
            vc.uninstall()
            os.chdir(cwd)
        return self.result()

    def replay(self, ops):
        vc = self.vc
        for op in ops:
            try:
                if op[0] == "step" and not vc.enabled(op[1]):
                    continue
                if op[0] == "startbatch" and vc.slurm.get(op[1], {}).get("state") != "pending":
                    continue
                if op[0] == "jobexit" and (op[1] >= len(vc.jobprocs) or vc.jobprocs[op[1]].exited is not None):
                    continue
                if op[0] == "nodelost" and vc.slurm.get(op[1], {}).get("state") not in ("pending", "running"):
                    continue
                if op[0] in ("kill", "failext", "forkfail") and (op[1] not in vc.procs or vc.procs[op[1]].state != "ready"):
                    continue
                if op[0] == "spawn" and op[1] == "trysubmit" and not self.stage_open_for_user(op[2]):
                    continue            # (a user command against a submission that is still being created is not legal use)
                fk = fault_kind(op)
                if fk:
                    self.faults.append(fk)
                self.apply(list(op))
            except KeyError:
                continue
        self.drain()

    def explore(self):
        self.apply(["spawn", "psubmit"])
        while len(self.ops) < MAX_OPS:
            extra = self.maybe_extra()
            if extra is not None:
                self.apply(extra)
                continue
            menu = self.menu()
            if not menu:
                if not self.at_quiescence():
                    break
                continue
            self.apply(self.choose(menu))

    def det_op(self, menu):
        """a fixed fair schedule: job ends and batch starts first, then a process that is not merely polling"""
        for kind in ("jobexit", "startbatch"):
            for _, op in menu:
                if op[0] == kind:
                    return op
        steps = [op for _, op in menu if op[0] == "step"]
        busy = [op for op in steps if self.vc.procs[op[1]].at[0] != "SLEEP"]
        # among those: the one that has waited longest (round robin, so that two polling processes cannot starve each other)
        return min(busy or steps, key=lambda op: (self.last_step.get(op[1], -1), op[1]))

    def drain(self):
        while len(self.ops) < MAX_OPS:
            menu = self.menu()
            if not menu:
                if not self.at_quiescence():
                    break
                continue
            self.apply(self.det_op(menu))

    def until(self, cond, limit=MAX_OPS):
        """the fixed fair schedule until cond() holds or nothing can move (scripted witnesses)"""
        while not cond() and len(self.ops) < limit:
            menu = self.menu()
            if not menu:
                if not self.at_quiescence():
                    break
                continue
            self.apply(self.det_op(menu))
        return cond()

    def at_quiescence(self):
        """nothing can move.  The documented recovery: the user runs try-submit-jobs on the current stage."""
        vc = self.vc
        v = vc.pipeline_view()
        if not isinstance(v, dict) or v["is_complete"]:
            return False
        if vc.live():
            return False                    # somebody waits for a lock marker nobody will release
        k = self.current_stage()
        if k is None:
            return False
        flag = vc.stage_flag(k)
        if flag is None:
            self.stranded = f"stage {k} is current but has no submission"
            return False
        if flag:
            self.stranded = f"stage {k} is flagged complete, pipeline.json still says stage {k}"
            return False
        if self.user_trysubmits.get(k, 0) >= MAX_USER_TRYSUBMITS:
            return False
        self.user_trysubmits[k] = self.user_trysubmits.get(k, 0) + 1
        self.apply(["spawn", "trysubmit", k])
        return True

    # ------------------------------------------------------------------ end-of-trace oracles
    def final_checks(self):
        vc, n = self.vc, self.n
        tr = vc.trace
        v = vc.pipeline_view()
        self.complete = isinstance(v, dict) and v["is_complete"]
        killed = {p.pid for p in vc.procs.values() if p.state == "dead"}
        # ---- once: jobs
        placed, starts = {}, {}
        for e in tr:
            if e[1] == "sbatch" and e[4] is not None:
                for j, _bl in e[5]:
                    placed.setdefault(j, []).append(e[4])
            elif e[1] == "start":
                starts[jid(e[4])] = starts.get(jid(e[4]), 0) + 1
        for j, hs in placed.items():
            if len(hs) > 1:
                self.bad("once.job_two_batches", f"job {j} (stage {j // GID}) was handed to SLURM in batches {hs}")
        for j, c in starts.items():
            if c > 1:
                self.bad("once.job_started_twice", f"job {j} (stage {j // GID}) was started {c} times")
        # ---- hand-off present for every flagged stage
        for s in range(1, n + 1):
            if vc.stage_flag(s) is not True:
                continue
            if s in self.handoffs:
                continue
            pids = self.completers.get(s, [])
            # SCOPE (reported finding findings/f15_crash_between_flag_and_handoff.py): a completing submitter that is KILLED
            # after `mark_complete` and before it started the hand-off command leaves the stage flagged and the pipeline
            # stranded for good (try-submit-jobs answers "already finished"; nothing re-issues the hand-off).  The
            # property's sentence is about order and counts, not about surviving SIGKILL, so this is not counted here.
            if pids and all(p in killed for p in pids):
                self.note = f"stranded: the submitter that flagged stage {s} was killed before the hand-off"
                continue
            self.bad("handoff.missing", f"stage {s} is flagged complete and the process that flagged it ({pids}) was not killed, "
                     f"but `jade pipeline submit-next-stage --stage-num={s + 1}` was never issued: stage {s + 1} "
                     f"{'is never submitted' if s < n else '/ the completion of the pipeline is never recorded'} "
                     f"(pipeline.json: {v})")
        # ---- hand-off processes succeed unless the environment made them fail
        env_fail = bool(self.sc.get("autoconfigFail")) or any(f in ("sbatchfail", "kill", "killnext", "forkfail") for f in self.faults)
        if not env_fail:
            for e in tr:
                if e[1] == "procexit" and e[3] == "nextstage" and e[4] != 0 and vc.procs[e[2]].parent is not None:
                    self.bad("handoff.failed", f"the hand-off process {e[2]} (`{' '.join(self.argv_of(e[2]))}`) failed: exit {e[4]} {e[5]}")
                if e[1] == "procexit" and e[3] == "psubmit" and e[4] != 0:
                    self.bad("handoff.failed", f"`jade pipeline submit` failed: exit {e[4]} {e[5]}")
        # ---- exactly once at the end
        if isinstance(v, dict) and not killed and not self.vc.autoconfig_fail:
            if self.submitted != list(range(1, min(v["stage_num"], n) + 1)):
                self.bad("once.not_submitted", f"pipeline.json says stage {v['stage_num']} but the stages submitted are {self.submitted}")
        # ---- completion
        if self.complete:
            notdone = [s for s in range(1, n + 1) if vc.stage_flag(s) is not True]
            live = vc.live_batches()
            if notdone:
                self.bad("complete.early", f"the pipeline is marked complete but stages {notdone} are not flagged complete")
            if live and not vc.live():
                self.bad("complete.early", f"the pipeline is marked complete and idle but batches {live} are still queued or running")
            if self.submitted != list(range(1, n + 1)):
                self.bad("once.not_exactly_once", f"the pipeline is complete, stages submitted: {self.submitted}")
            for s in range(1, n + 1):
                if v["return_codes"][s - 1] != self.expected_rc(s) and not self.user_next_for(s + 1):
                    self.bad("rc.wrong", f"final return code of stage {s} is {v['return_codes'][s - 1]}, its results imply {self.expected_rc(s)}")
        # ---- progress
        recoverable = all(f in RECOVERABLE for f in self.faults) and not self.sc.get("autoconfigFail")
        self.truncated = len(self.ops) >= MAX_OPS
        if recoverable and not self.complete and not self.truncated:
            why = self.stranded or f"{sum(self.user_trysubmits.values())} try-submit-jobs at quiescence did not help"
            self.bad("progress.incomplete", f"the pipeline did not complete ({'fault-free run' if not self.faults else 'faults: ' + ','.join(self.faults)}): "
                     f"{why}; pipeline.json: {v}; stages submitted {self.submitted}")

    note = None
    complete = False
    truncated = False

    # ------------------------------------------------------------------ result
    def result(self):
        vc = self.vc
        kinds = {}
        for e in vc.trace:
            kinds[e[1]] = kinds.get(e[1], 0) + 1
        obs = {"checks": self.checks, "ops": self.ops, "n_ops": len(self.ops), "events": kinds, "complete": self.complete,
               "faults": self.faults, "style": self.style, "truncated": self.truncated, "submitted": self.submitted, "stranded": self.stranded, "note": self.note,
               "final": vc.pipeline_view(), "user_trysubmits": sum(self.user_trysubmits.values()),
               "batches": sum(1 for e in vc.trace if e[1] == "sbatch" and e[4] is not None),
               "errors": [f"{e[3]}: {e[5]}" for e in vc.trace if e[1] == "procexit" and e[5]][:6],
               "unknown_ext": [list(e[3]) for e in vc.trace if e[1] == "unknown_ext"][:3]}
        return {"model": None, "obs": obs, "hist": project(self)}


# ----------------------------------------------------------------------------------------------
# scripted witnesses (corpus/syspipe/*.json: {"script": name, "sc": ...}): a fixed fair schedule with ONE decisive
# interleaving / fault, stated by conditions on the run (robust against harmless changes of the number of steps)
# ----------------------------------------------------------------------------------------------
def script_squeue_outage(run):
    """stage 1 has two batches; the first ends and its try-submit-jobs meets a squeue outage (all retries) while the other
    batch is still running its job.  Unchanged code: that try-submit-jobs dies, the second batch completes the stage."""
    vc = run.vc
    held = f"j{run.sc['stages'][0]['jobs'][-1]['id']}"
    run.hold.add(held)
    run.apply(["spawn", "psubmit"])

    def fresh_trysubmit():
        return [p for p in vc.live() if p.kind == "trysubmit" and not run.pid_events(p.pid, "squeue")
                and any(jp.name == held and jp.returncode is None for jp in vc.jobprocs)]
    if run.until(lambda: bool(fresh_trysubmit())):
        pid = fresh_trysubmit()[0].pid
        run.faults.append("squeue7")
        run.apply(["failext", pid, 7, "squeue"])
        # the struck process and whatever it starts run to their end before the held job ends
        run.until(lambda: not any(run.descends(p, pid) for p in vc.live()), limit=len(run.ops) + 600)
    run.hold.clear()
    run.until(lambda: False)


def script_teardown_fork_failure(run):
    """the completing submitter cannot START the stage's teardown command (OSError from subprocess).  Unchanged code: the
    exception leaves try-submit-jobs with the stage incomplete and the role released; the next try-submit-jobs redoes the
    completion and hands over once."""
    vc = run.vc
    run.apply(["spawn", "psubmit"])

    def at_teardown():
        return [p for p in vc.live() if p.at == ("EXT", "hook teardown")]
    if run.until(lambda: bool(at_teardown())):
        run.faults.append("forkfail")
        run.apply(["forkfail", at_teardown()[0].pid, "hook"])
    run.until(lambda: False)


def script_duplicate_handoff(run):
    """somebody repeats the hand-off of stage 1 (e.g. the completion of a resubmitted stage 1) while stage 2 is current.
    Unchanged code: refused, nothing changes."""
    run.apply(["spawn", "psubmit"])
    if run.until(lambda: any(e[1] == "stagesubmitted" and e[3] == 2 for e in run.vc.trace)):
        rc = next(int(e[3][2].split("=")[1]) for e in run.vc.trace if e[1] == "nextstage")
        run.faults.append("dupnext")
        run.apply(["spawn", "dupnext", 2, rc])
    run.until(lambda: False)


def script_sbatch_outage(run):
    """every sbatch of stage 2's first round fails: the stage completes (return code 1) inside its own submission and the
    hand-off to stage 3 runs NESTED in the process that is still submitting stage 2.  Unchanged code: the pipeline goes on."""
    vc = run.vc
    run.apply(["spawn", "psubmit"])

    def submitting2():
        return [p for p in vc.live() if p.kind == "nextstage" and any(e[3] == 2 for e in run.pid_events(p.pid, "stagesubmit"))
                and not run.pid_events(p.pid, "sbatch")]
    if run.until(lambda: bool(submitting2())):
        run.faults.append("sbatchfail")
        run.apply(["failext", submitting2()[0].pid, 99, "sbatch"])
    run.until(lambda: False)


SCRIPTS = {"squeue_outage_while_batch_runs": script_squeue_outage, "teardown_fork_failure": script_teardown_fork_failure,
           "duplicate_handoff": script_duplicate_handoff, "sbatch_outage_nested_handoff": script_sbatch_outage}


# ----------------------------------------------------------------------------------------------
# projection to the Lean pipeline model (op pipeline.run)
# ----------------------------------------------------------------------------------------------
def _res_of_exit(code, err):
    if err is None:
        return "ok" if code == 0 else ("dirExists" if code == 1 else f"exit:{code}")
    name = err.split(":")[0]
    return {"InvalidParameter": "invalidParam", "ExecutionError": "execError", "IndexError": "indexError",
            "AssertionError": "assertion", "NameError": "nameError", "UnboundLocalError": "nameError"}.get(name, "other:" + name)


def project(run):
    """real history -> the command sequence of Jade.Pipeline.step with the environment's outcome per command, plus what each
    real command did (result, pipeline.json it left, hand-over).  Returns {"skip": reason} when the sequential model
    cannot express the history."""
    vc = run.vc
    tr = vc.trace
    calls = []
    for i, e in enumerate(tr):
        if e[1] == "pcall":
            calls.append({"pid": e[2], "argv": e[3], "at": i})
    out_ops, observed = [], []
    last_write = -1
    for c in calls:
        pid = c["pid"]
        ev = [(i, e) for i, e in enumerate(tr) if len(e) > 2 and e[2] == pid and e[1] in
              ("pload", "pserialize", "stagesubmit", "stagesubmitted", "procexit", "kill", "killin", "autoconfig")]
        loads = [(i, e) for i, e in ev if e[1] == "pload"]
        sers = [(i, e) for i, e in ev if e[1] == "pserialize"]
        subs = [e for _, e in ev if e[1] == "stagesubmit"]
        rets = [e for _, e in ev if e[1] == "stagesubmitted"]
        ex = next((e for _, e in ev if e[1] == "procexit"), None)
        dead = vc.procs[pid].state == "dead"
        if not loads:
            if ex is None and not dead:
                return {"skip": "unfinished"}
            if c["argv"][0] == "submit" and ex is not None:
                return {"skip": "submit-refused"}       # directory existed: not generated
            continue                                       # died before reading anything: no command happened
        if loads[0][0] < last_write:
            return {"skip": "overlap"}
        if len(subs) > 1:
            return {"skip": "two-submissions-in-one-command"}
        if rets and rets[0][4] is None:
            return {"skip": "submission-raised"}         # run_submit_jobs raised (setup command could not start ...)
        if ex is None and not dead:
            return {"skip": "unfinished"}
        op = {"cfgOk": True, "ret": 0}
        if c["argv"][0] == "submit":
            op["t"] = "start"
            due = 1
        else:
            m1 = re.match(r"--stage-num=(-?\d+)$", c["argv"][2])
            m2 = re.match(r"--return-code=(-?\d+)$", c["argv"][3])
            op.update(t="next", k=int(m1.group(1)), rc=int(m2.group(1)))
            due = op["k"]
        if due in vc.autoconfig_fail and run.sc.get("cfgMode", "commands") == "commands":
            op["cfgOk"] = False
        if rets:
            op["ret"] = rets[0][4]
        wild = False
        if dead:
            wild = True
            if c["argv"][0] == "submit":
                if len(sers) < 2:
                    # `submit` writes pipeline.json twice with the same content before anything else: a death in between
                    # is a pipeline that was created and never started - not a command of the model
                    return {"skip": "killed-in-create"}
            elif not sers:
                continue                                   # died before its first write: the command did not happen
            if not subs:
                op["cfgOk"] = False                        # died after recording the stage, before submitting it
        state = sers[-1][1][3] if sers else loads[0][1][3]
        if sers:
            last_write = max(last_write, sers[-1][0])
        h = None
        if subs:
            s = subs[0]
            h = {"stage": s[3], "cfg": s[5], "out": s[4], "disk": s[8]["pipeline"]}
        out_ops.append(op)
        observed.append({"res": "*" if wild else _res_of_exit(ex[4], ex[5]), "state": state, "handover": h, "pid": pid})
    return {"n": run.n, "ops": out_ops, "observed": observed, "submitted": list(run.submitted), "final": vc.pipeline_view()}


def _run_case(case):
    try:
        with scratch_dir("jadevp-") as d:
            return Run(case, str(d)).run()
    except Exception as e:  # noqa
        return {"harness_exception": f"{type(e).__name__}: {e}", "tb": traceback.format_exc()[-1500:]}


class SysPipeSuite(Suite):
    name = "syspipe"
    case_timeout = 180

    def cases(self, rng, tier, prop):
        n = {"quick": 280, "thorough": 3000}[tier]
        out = []
        for i in range(n):
            mode = "plain" if i % 5 in (0, 3) else "faults"
            out.append({"op": "syspipe.trace", "sc": gen_pipeline(rng, mode), "mode": mode, "seed": rng.randrange(1 << 30)})
        return out

    def impl(self, case):
        return _run_case(case)

    def impl_many(self, cases):
        if not cases:
            return []
        workers = min(14, max(1, (os.cpu_count() or 2) - 2))
        ctx = multiprocessing.get_context("fork")
        with ctx.Pool(workers, maxtasksperchild=20) as pool:
            return pool.map(_run_case, cases, chunksize=2)

    def view(self, result):
        return result.get("model")

    # ---------------------------------------------------------------- correspondence by projection
    def model_from_result(self, case, result):
        h = result.get("hist")
        if not h or "skip" in h:
            return {"op": "pipeline.run", "n": 1, "ops": []}
        return {"op": "pipeline.run", "n": h["n"], "ops": h["ops"]}

    def agree(self, model, result):
        return not self.diff(model, result)

    def diff(self, model, result):
        h = result.get("hist")
        if not h or "skip" in h:
            return []
        if "driver_error" in model:
            return [f"driver: {model['driver_error']}"]
        d = []
        steps = model["steps"]
        for i, (s, o, op) in enumerate(zip(steps, h["observed"], h["ops"])):
            where = f"command {i} ({op['t']} {op.get('k', '')} rc={op.get('rc')}, process {o['pid']})"
            if o["res"] != "*" and s["res"] != o["res"]:
                d.append(f"{where}: model result {s['res']}, the real command ended with {o['res']}")
            if s["state"] != o["state"]:
                d.append(f"{where}: model leaves pipeline.json {s['state']}, the real command left {o['state']}")
            if s["handover"] != o["handover"] and not (o["res"] == "*" and o["handover"] is None):
                d.append(f"{where}: model hand-over {s['handover']}, real {o['handover']}")
        if model["submitted"] != h["submitted"] and not any(o["res"] == "*" for o in h["observed"]):
            d.append(f"stages handed to run_submit_jobs: model {model['submitted']}, real {h['submitted']}")
        if steps and h["final"] != steps[-1]["state"]:
            d.append(f"final pipeline.json: model {steps[-1]['state']}, on disk {h['final']}")
        return d

    # ---------------------------------------------------------------- oracle / tags / shrink
    def oracle(self, case, result):
        if "harness_exception" in result or "obs" not in result:
            return []
        return [Violation(p, k, m) for p, k, m in result["obs"]["checks"]]

    def tags(self, case, result):
        if "obs" not in result:
            return []
        o = result["obs"]
        t = [f"mode.{case['mode']}", f"stages={len(case['sc']['stages'])}", f"cfg.{case['sc'].get('cfgMode')}"]
        nl = sum(1 for st in case["sc"]["stages"] if st.get("local"))
        if nl:
            t.append("stages.local=all" if nl == len(case["sc"]["stages"]) else "stages.local=some")
        t.append("batches>=3" if o["batches"] >= 3 else "trivial.batches<3")
        if any(g.get("nodes") for st in case["sc"]["stages"] for g in st["groups"]):
            t.append("multinode.stages")
        if o["complete"]:
            t.append("pipeline.complete")
        for f in o["faults"]:
            t.append(f"fault.{f}")
        if o["stranded"]:
            t.append("stranded")
        if o["truncated"]:
            t.append("truncated")
        if o["note"]:
            t.append("stranded.killed_between_flag_and_handoff")
        if o["user_trysubmits"]:
            t.append("user.trysubmit")
        if o["errors"]:
            t.append("proc.error")
        if o["final"] and isinstance(o["final"], dict) and any(rc for rc in o["final"]["return_codes"]):
            t.append("stage.rc_nonzero")
        h = result.get("hist") or {}
        if "skip" in h:
            t.append(f"projection.skipped.{h['skip']}")
        else:
            t.append(f"projection.commands={len(h.get('ops', []))}")
        if o["unknown_ext"]:
            t.append("unknown_ext")
        return t

    def shrink(self, case):
        if "script" in case:
            return
        ops = case.get("ops")
        if ops is None:
            # first step: the same run with its schedule written out (then suffixes are cut; the rest of a cut run is the
            # fixed fair schedule of Run.drain)
            r = _run_case(case)
            if "obs" in r:
                yield dict(case, ops=r["obs"]["ops"])
            return
        n = len(ops)
        for cut in (n // 2, n * 3 // 4, n - 5, n - 1):
            if 0 < cut < n:
                yield dict(case, ops=ops[:cut])


SUITE = SysPipeSuite()
