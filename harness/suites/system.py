"""Suite `system`: whole submissions through the REAL entry points under the deterministic simulation of
harness/vcluster.py, with direct oracles for the system-level properties
(C01 C02 C03 C04 C05 C06 C09 C11 C12 C14 C16).

A case = scenario + mode + seed (+ optionally an explicit op list for replay/shrinking).  Every random
choice of the schedule derives from random.Random(seed); the ops actually executed are recorded.
"""
import json
import multiprocessing
import collections
import os
import random
import sys
import traceback
from pathlib import Path

from common import Suite, Violation, scratch_dir
from jadeenv import jname, jid

MODES_BY_PROP = {
    "C01": ["plain", "plain", "plain", "busy", "resubmit"], "C02": ["plain", "plain", "busy", "local", "resubmit", "resubmit", "nodefaults"],
    "C03": ["plain", "plain", "busy", "local"],
    "C04": ["plain", "plain", "busy", "local"], "C05": ["plain", "busy", "plain"],
    # C06 holds for ALL op sequences of the model (faults included): fault modes and resubmission get half shares
    "C06": ["plain", "busy", "local", "plain", "busy", "local", "faults", "batchfaults", "flaky", "resubmit"],
    "C09": ["plain", "busy", "cancel"], "C11": ["faults", "faults", "faults", "nodefaults"],
    "C12": ["batchfaults", "batchfaults", "batchfaults", "nodefaults", "flaky"], "C14": ["cancel"],
    "C16": ["hooks", "hooks", "hookslocal", "flaky", "flaky"], "C13": ["resubmit"], "C07": ["resubmit"], "C08": ["plain", "busy"],
}
# modes added to a property's list on top of its original ones: the original modes keep their number of cases
ADDED_MODES = {"C01": ("resubmit",), "C02": ("resubmit", "nodefaults"), "C06": ("faults", "batchfaults", "flaky", "resubmit"),
               "C11": ("nodefaults",), "C12": ("nodefaults", "flaky"), "C16": ("flaky",)}
# share of the scenarios of a mode in which submission groups ask for a multi-node allocation (fault-free modes only)
MULTINODE_MODES = {"plain": .2, "busy": .2, "hooks": .3, "batchfaults": .15}
NODEKINDS = ("node", "worker")
MAX_USER_TRYSUBMITS = 10
MAX_OPS = 1500
# modes in which the fake scheduler may list a live batch under a state word outside JADE's table
ODD_STATE_MODES = ("plain", "busy", "cancel", "resubmit", "batchfaults")
SLOWEXT_MODES = ("plain", "busy", "batchfaults")
# batches are lost (failed sbatch, dead node, node runner killed by a filesystem fault), nothing else goes wrong:
#   batchfaults - sbatch fails / nodes are lost;  nodefaults - lock timeout / quota error when a NODE appends a result
#   flaky       - the scheduler's commands fail transiently (squeue for all its retries, sbatch) in any round
BATCHFAULT_MODES = ("batchfaults", "nodefaults", "flaky")
# a process parked at squeue/sbatch/scancel stays there for up to a few virtual minutes (VCluster.hang)
HANG_MODES = {"cancel": .5, "busy": .3, "faults": .3, "flaky": .3}
HANG_SECONDS = (20, 45, 70, 90, 120, 200, 300)
MAX_CANCEL_RUNS = 3


# ----------------------------------------------------------------------------------------------
# reference semantics (independent of everything else): evaluate the DAG in topological order
# ----------------------------------------------------------------------------------------------
def reference(sc):
    """job -> ('finished', rc) | ('canceled', 1) | ('missing', None) (jobs on/after a dependency cycle)"""
    jobs = {j["id"]: j for j in sc["jobs"]}
    out = {}
    progress = True
    while progress:
        progress = False
        for k, j in jobs.items():
            if k in out or any(b not in out for b in j["blockers"]):
                continue
            bl = [out[b] for b in j["blockers"]]
            if any(o[0] == "missing" for o in bl):
                continue
            if j["cancel"] and any((o[0] == "finished" and o[1] != 0) or o[0] == "canceled" for o in bl):
                out[k] = ("canceled", 1)
            else:
                out[k] = ("finished", j["rc"])
            progress = True
    for k in jobs:
        out.setdefault(k, ("missing", None))
    return out


def acyclic(sc):
    return all(o[0] != "missing" for o in reference(sc).values())


# ----------------------------------------------------------------------------------------------
# resubmission epochs (mode `resubmit`): reference semantics of `resubmit-jobs`, independent of the code
# ----------------------------------------------------------------------------------------------
def _bad(o):
    return o[0] == "canceled" or (o[0] == "finished" and o[1] != 0)


def resubmit_selection(prev, failed, missing, successful):
    """jobs selected by the flags of resubmit-jobs, given each job's recorded outcome"""
    sel = set()
    for k, o in prev.items():
        if (o[0] == "missing" and missing) or (o[0] != "missing" and _bad(o) and failed) or \
                (o[0] == "finished" and o[1] == 0 and successful):
            sel.add(k)
    return sel


def rerun_closure(sc, sel):
    """the selected jobs plus every job that transitively depends on one of them"""
    R = set(sel)
    grew = True
    while grew:
        grew = False
        for j in sc["jobs"]:
            if j["id"] not in R and any(b in R for b in j["blockers"]):
                R.add(j["id"])
                grew = True
    return R


def epoch_rc(j, epoch):
    rcs = j.get("rcs")
    return rcs[min(epoch, len(rcs) - 1)] if rcs else j["rc"]


def reference_epoch(sc, prev, rerun, epoch):
    """outcomes after resubmission epoch `epoch`: jobs outside `rerun` keep their recorded outcome `prev`, the rerun
    jobs are evaluated in topological order with this epoch's exit codes (by `reference`, on the graph in which the
    kept jobs are constants)"""
    jobs2 = []
    for j in sc["jobs"]:
        k = j["id"]
        if k in rerun:
            jobs2.append(dict(j, rc=epoch_rc(j, epoch)))
        elif prev[k][0] == "missing":
            jobs2.append(dict(j, blockers=[k]))              # never gets an outcome
        else:
            jobs2.append(dict(j, blockers=[], cancel=False, rc=prev[k][1] if prev[k][0] == "finished" else 1))
    out = reference(dict(sc, jobs=jobs2))
    for k, o in prev.items():
        if k not in rerun:
            out[k] = o
    return out


def gen_resubmit_plan(rng, sc):
    """what the user does after the submission completed: up to two `resubmit-jobs`, possibly with an edited copy
    of the submission groups (`-s`); exit codes of the reruns; whether a batch is lost in the first run (so that
    jobs are missing and others were never submitted)"""
    times = rng.choice([1, 1, 2])
    for j in sc["jobs"]:
        j["rcs"] = [j["rc"]] + [0 if rng.random() < .7 else rng.randint(1, 255) for _ in range(times)]
    regroups = []
    for _ in range(times):
        gs = []
        for gi, g in enumerate(sc["groups"]):
            maxest = max([j["est"] for j in sc["jobs"] if j["group"] == gi] or [1])
            walls = [w for w in (1800, 3600, 6000, 14400) if w >= maxest * 60]      # estimates stay valid (C07 assumption)
            tb = rng.random() < .35
            gs.append({"batchSize": rng.choice([1, 1, 2, 2, 3, 4]), "timeBased": tb, "tryAdd": rng.random() < .6,
                       "wallSec": rng.choice(walls), "procs": rng.choice([1, 2, 3]) if (tb or rng.random() < .7) else None,
                       "dryRun": False, "partition": rng.choice([None, "short", "debug"])})
        regroups.append({"groups": gs, "maxNodes": rng.choice([1, 2, 2, 3, None])})
    sc["regroups"] = regroups
    sc["resub"] = {"times": times, "regroupProb": .4, "lose": rng.random() < .25}


# ----------------------------------------------------------------------------------------------
# scenario generation
# ----------------------------------------------------------------------------------------------
def add_multinode(sc, mode):
    """multi-node allocations (hpc.nodes >= 2): srun starts run-jobs on every node of a batch's allocation; only the
    manager node (SLURM_NODEID 0) records results.  Drawn from a stream of its own, so that the scenarios without it are
    the ones they always were."""
    if mode not in MULTINODE_MODES or sc.get("local"):
        return sc
    r2 = random.Random(json.dumps(sc, sort_keys=True))
    if r2.random() < float(os.environ.get("VERIF_MULTINODE") or MULTINODE_MODES[mode]):   # VERIF_MULTINODE: dev knob
        for g in sc["groups"]:
            if r2.random() < .7:
                g["nodes"] = r2.choice([2, 2, 3])
        if not any(g.get("nodes") for g in sc["groups"]):
            sc["groups"][0]["nodes"] = 2
    return sc


def gen_scenario(rng, mode):
    n = rng.choice([2, 3, 3, 4, 4, 5, 5, 6, 7, 8])
    ng = rng.choice([1, 1, 1, 2, 2, 3])
    groups = []
    for _ in range(ng):
        wall = rng.choice([1800, 6000, 14400])
        tb = rng.random() < .35
        groups.append({"batchSize": rng.choice([1, 1, 2, 2, 3, 4]), "timeBased": tb, "tryAdd": rng.random() < .6, "wallSec": wall,
                       "procs": rng.choice([1, 2, 3]) if (tb or rng.random() < .7) else None, "dryRun": False})
        if mode == "nodefaults" and rng.random() < .6:
            # the node-level queue matters when blocked jobs travel with their blockers
            groups[-1].update(batchSize=rng.choice([2, 3, 4, 4]), tryAdd=True)
    p = rng.choice([.15, .3, .3, .5])
    order = list(range(n))
    rng.shuffle(order)
    pos = {j: i for i, j in enumerate(order)}
    jobs = []
    for k in range(n):
        g = rng.randrange(ng)
        ests = [e for e in (1, 5, 10, 10, 30, 60, 90) if e * 60 <= groups[g]["wallSec"]]
        blockers = sorted(b for b in range(n) if b != k and pos[b] < pos[k] and rng.random() < p)
        jobs.append({"id": k, "group": g, "est": rng.choice(ests), "blockers": blockers, "cancel": rng.random() < .5,
                     "rc": 0 if rng.random() < .6 else rng.randint(1, 255)})
    sc = {"jobs": jobs, "groups": groups, "maxNodes": rng.choice([1, 1, 2, 2, 3, None]), "cpus": rng.choice([1, 2, 4])}
    if mode == "batchfaults" and rng.random() < .15 and n >= 2:
        a, b = rng.sample(range(n), 2)          # a dependency cycle: blocks forever, must end up missing
        jobs[a]["blockers"] = sorted(set(jobs[a]["blockers"]) | {b})
        jobs[b]["blockers"] = sorted(set(jobs[b]["blockers"]) | {a})
    if mode in ("hooks", "hookslocal"):
        sc["lifecycle"] = {k: f"hook {k}" for k in ("setup", "teardown", "node_setup", "node_teardown") if rng.random() < .6}
        sc["hook_rc"] = {k: rng.choice([0, 0, 3]) for k in ("teardown", "node_teardown")}
    if mode == "flaky":
        # lifecycle commands under transient scheduler failures (C16: "runs exactly once each time the submission
        # completes ... after every job has an outcome"); a stream of its own, the scenarios are otherwise unchanged
        r3 = random.Random("life" + json.dumps(sc, sort_keys=True))
        if r3.random() < .6:
            sc["lifecycle"] = {k: f"hook {k}" for k in ("setup", "teardown", "node_setup", "node_teardown") if k == "teardown" or r3.random() < .7}
            sc["hook_rc"] = {k: r3.choice([0, 0, 3]) for k in ("teardown", "node_teardown")}
    if mode in ("local", "hookslocal"):
        sc["local"] = True
        sc["groups"] = sc["groups"][:1]
        for j in jobs:
            j["group"] = 0
        sc["groups"][0]["procs"] = rng.choice([None, 1, 2, 3])
    if mode in ODD_STATE_MODES and mode != "batchfaults" and rng.random() < .6:
        sc["oddStates"] = True
    elif mode == "batchfaults" and random.Random("odd" + json.dumps(sc, sort_keys=True)).random() < .6:
        sc["oddStates"] = True          # a stream of its own: the batch-fault scenarios are otherwise the ones they always were
    if mode in ("plain", "busy") and rng.random() < .3:
        sc["sharedHosts"] = True          # non-exclusive nodes: two batches of the submission on one host
    if mode == "resubmit":
        gen_resubmit_plan(rng, sc)
    add_multinode(sc, mode)
    return sc


# ----------------------------------------------------------------------------------------------
# one trace
# ----------------------------------------------------------------------------------------------
class Run:
    def __init__(self, case, outdir):
        from vcluster import VCluster
        self.case = case
        self.sc = case["sc"]
        self.mode = case["mode"]
        self.rng = random.Random(case["seed"])
        self.vc = VCluster(self.sc, os.path.join(outdir, "out"), break_stale=case.get("breakStale", False),
                           hook_rc=self.sc.get("hook_rc"))
        self.ops = []
        self.checks = []          # (prop, key, msg)
        self.snaps = []           # status snapshots at lock-free instants
        self.prev_status = None
        self.epoch_resubmits = 0
        self.user_trysubmits = 0
        self.quiescent_checks = []
        self.fault_done = False
        self.fault_kind = None
        # slowext: scheduler commands take long - everybody else progresses while a process waits for squeue/sbatch/scancel
        self.style = self.rng.choice(["uniform", "nodes", "submitters", "bursty"] + (["slowext"] if self.mode in SLOWEXT_MODES else []))
        self.ref = reference(self.sc)
        self.workers = {}
        self.cancel_info = None
        self.n_events_seen = 0
        self.hook_events = []
        self.last = None
        self.resubs = []          # resubmit-jobs invocations: what the user asked for and what must follow from it
        self.epoch_info = [{"R": set(j["id"] for j in self.sc["jobs"]), "prev": {}, "expected": self.ref, "groups": None}]
        self.lost_done = False
        # decisions about the fault kinds added later draw from a second stream, so that a run without such a fault is
        # the run it always was
        self.rng2 = random.Random(case["seed"] * 7919 + 13)
        self.hang_plan = self.rng2.random() < HANG_MODES.get(self.mode, 0)
        # faults mode: the single fault strikes in any round, not mostly in the first one
        self.fault_after = self.rng2.choice([0, 0, 0, 0, 10, 20, 40, 70])
        # ... and which kind of moment it prefers: any yield point of a submitter (generic), inside the two-lock section that
        # moves a node's results (nested), in the middle of the submit phase (midround); the preferred moment may never come
        self.fault_family = self.rng2.choice(["generic", "generic", "nested", "midround"])
        self.hangs_done = 0
        self.cancel_runs = 0
        self.node_faults = 0
        self.flaky_faults = 0
        self.immediate_resub = self.rng2.random() < .5      # resubmit mode: the user does not wait for the old batches to leave
        self.force_pid = None       # a user command that runs without interruption up to `force_until`
        self.holders = set()        # processes that were promoted (or created the submission) and have not demoted
        self.alive_at_mark = None   # batches queued or running when the canceled flag was written

    def bad(self, prop, key, msg):
        self.checks.append((prop, key, msg))

    # ------------------------------------------------------------------ op menu
    def menu(self):
        vc = self.vc
        m = []
        for p in vc.live():
            if vc.enabled(p.pid):
                w = 1.0
                if self.style == "nodes" and p.kind in NODEKINDS:
                    w = 4.0
                if self.style == "submitters" and p.kind not in NODEKINDS:
                    w = 4.0
                if self.style == "bursty" and self.last == ("step", p.pid):
                    w = 6.0
                if self.style == "slowext" and p.at[0] == "EXT" and str(p.at[1]).split(" ")[0] in ("squeue", "sbatch", "scancel"):
                    w = 0.1
                m.append((w, ["step", p.pid]))
        for h, b in vc.slurm.items():
            if b["state"] == "pending":
                m.append((1.5, ["startbatch", h]))
        for i, jp in enumerate(vc.jobprocs):
            if jp.exited is None and jp.returncode is None and vc.procs[jp.node].state == "ready":
                m.append((2.0, ["jobexit", i]))
        if vc.hang_active():
            # time passes although nobody is sleeping (rarely, unless nothing else can happen)
            sleepers = any(p.at[0] == "SLEEP" for p in vc.live())
            if not m or not sleepers:
                m.append((.02 if m else 1.0, ["tick"]))
        return m

    def apply(self, op):
        vc = self.vc
        k = op[0]
        self.ops.append(op)
        self.last = tuple(op[:2])
        if k == "step":
            vc.step(op[1])
        elif k == "startbatch":
            vc.start_batch(op[1])
        elif k == "jobexit":
            vc.job_exit(vc.jobprocs[op[1]])
        elif k == "spawn" and op[1] == "resubmit":
            self.begin_resubmit(op)
        elif k == "oddstate":
            vc.set_odd(op[1], op[2])
        elif k == "spawn":
            vc.step_no += 1
            vc.spawn_user(op[1], *op[2:])
        elif k == "kill":
            vc.kill(op[1])
        elif k == "killin":
            vc.procs[op[1]].kill_in = op[2]
            vc.procs[op[1]].late = len(op) > 3 and op[3] == "late"
            vc.step(op[1])
        elif k == "failext":
            vc.procs[op[1]].fail_ext = op[2]
            vc.procs[op[1]].fail_ext_cmd = op[3] if len(op) > 3 else None
        elif k == "failwrite":
            vc.procs[op[1]].fail_write = op[2]
            vc.procs[op[1]].late = len(op) > 3 and op[3] == "late"
            vc.step(op[1])
        elif k == "hangext":
            vc.hang(op[1], op[2])
        elif k == "tick":
            vc.tick()
        elif k == "locktimeout":
            vc.procs[op[1]].lock_timeout = True
            vc.step(op[1])
        elif k == "nodelost":
            vc.node_lost(op[1])
        elif k == "breaklock":
            vc.break_lock(vc.cluster_lock())
        elif k == "noise":
            vc.squeue_noise = ["99999  RUNNING", "88888 PENDING"]
        self.after_op()

    # ------------------------------------------------------------------ online monitors
    def after_op(self):
        vc = self.vc
        new = vc.trace[self.n_events_seen:]
        self.n_events_seen = len(vc.trace)
        for e in new:
            kind = e[1]
            if kind == "start":
                self.on_start(e)
            elif kind == "wstart":
                self.on_wstart(e)
            elif kind == "row" and vc.procs[e[2]].kind == "worker":
                for prop in ("C03", "C08", "C01"):
                    self.bad(prop, "multinode.worker_row", f"node {vc.procs[e[2]].env.get('SLURM_NODEID')} of the multi-node batch "
                             f"{vc.procs[e[2]].batch} (not the manager node) recorded a result {tuple(e[4])} in {e[3]}: every node of the "
                             "allocation runs the job, one result per job must be recorded")
            elif kind == "sbatch" and e[4] is not None:
                self.on_sbatch(e)
            elif kind == "spawn" and e[3] == "submit":
                self.holders.add(e[2])              # Cluster.create: submitter from birth
            elif kind == "promote" and e[3]:
                self.on_promote(e[2])
            elif kind in ("demote", "procexit", "kill", "killin"):
                self.holders.discard(e[2])
            elif kind == "markcanceled" and self.alive_at_mark is None:
                self.alive_at_mark = {h for h, b in vc.slurm.items() if b["state"] in ("pending", "running")}
        # status snapshot whenever the cluster lock is free
        if self.mode == "resubmit" and any(p.kind == "resubmit" and p.state == "ready" for p in vc.procs.values()):
            self.resubmitted_since_prev = True
        elif not os.path.exists(vc.cluster_lock()) and not self.sc.get("local"):
            st = vc.read_status()
            if st is not None and st != self.prev_status:
                self.check_status(st)
                self.prev_status = st

    def on_start(self, e):
        _, _, pid, batch, name, argv = e
        j = jid(name)
        rows = {r[1] for r in self.vc.read_rows()}
        missing = [b for b in self.sc["jobs"][j]["blockers"] if b not in rows]
        if missing:
            for prop in self.order_props():
                self.bad(prop, "start.before_blocker", f"job {j} started (batch {batch}) while blockers {missing} have no recorded outcome")
        # per-node process limit
        live = sum(1 for jp in self.vc.jobprocs if jp.node == pid and jp.exited is None and jp.returncode is None)
        lim = self.node_workers(batch)
        if lim is not None and live > lim:
            self.bad("C06", "node.workers", f"{live} job processes running on the node of batch {batch}, limit {lim}")

    def on_wstart(self, e):
        """a job's copy started on a non-manager node of a multi-node allocation: the node's own queue must respect the
        process limit, start each job once, and start it only after the node's own copies of its in-batch blockers ended
        and every blocker outside the batch has a recorded outcome"""
        _, _, pid, batch, name, argv = e
        j = jid(name)
        mine = [jp for jp in self.vc.jobprocs if jp.node == pid]
        if sum(1 for jp in mine if jp.name == name) > 1:
            self.bad("C01", "multinode.started_twice", f"job {j} was started twice on one node of the multi-node batch {batch}")
        live = sum(1 for jp in mine if jp.exited is None and jp.returncode is None)
        lim = self.node_workers(batch)
        if lim is not None and live > lim:
            self.bad("C06", "node.workers", f"{live} job processes running on a non-manager node of batch {batch}, limit {lim}")
        b = next((x for x in self.vc.slurm.values() if x["batch"] == batch), None)
        inb = {k for k, _ in b["jobs"]} if b else set()
        rows = {r[1] for r in self.vc.read_rows()}
        ended_here = {jid(jp.name) for jp in mine if jp.returncode is not None or jp.exited is not None}
        canceled_here = set()      # flagged jobs canceled in the node's queue never get a process
        missing = [x for x in self.sc["jobs"][j]["blockers"] if (x in inb and x not in ended_here and x not in rows and x not in canceled_here)
                   or (x not in inb and x not in rows)]
        if missing:
            started_here = {jid(jp.name) for jp in mine}
            missing = [x for x in missing if x not in inb or x in started_here or not self.sc["jobs"][x]["cancel"]]
        if missing:
            for prop in self.order_props():
                self.bad(prop, "multinode.start_before_blocker", f"job {j} started on a non-manager node of batch {batch} while blockers {missing} "
                         "have neither ended on that node nor a recorded outcome")

    def order_props(self):
        """properties whose text demands dependency order in this mode"""
        return {"faults": ["C11", "C02"], "batchfaults": ["C02", "C12"], "flaky": ["C02", "C12"],
                "nodefaults": ["C02", "C12", "C11"]}.get(self.mode, ["C02"])

    def on_promote(self, pid):
        """C10/C01 mechanism: only one promoted submitter at a time.  A process that was promoted, is alive and has not
        demoted still holds the role - a second promotion meanwhile means two processes mutate the state
        (not judged under injected kills/failures: there a dead or failed holder is taken care of by C11)."""
        vc = self.vc
        others = sorted(h for h in self.holders if h != pid and vc.procs[h].state == "ready")
        self.holders.add(pid)
        if others and self.mode in ("plain", "busy", "cancel", "resubmit", "hooks"):
            msg = (f"{vc.procs[pid].kind} process {pid} was promoted to submitter while process(es) {others} "
                   f"({', '.join(vc.procs[h].kind for h in others)}) are alive, were promoted earlier and have not demoted")
            self.bad("C01", "role.two_live_holders", msg)
            if self.mode == "cancel":
                self.bad("C14", "cancel.role_taken_from_live_submitter", msg)

    def node_workers(self, batch):
        sc = self.sc
        if sc.get("local"):
            g = sc["groups"][0]
            nj = len(sc["jobs"])
            cpus = multiprocessing.cpu_count()
        else:
            b = next((x for x in self.vc.slurm.values() if x["batch"] == batch), None)
            if b is None or not b["jobs"]:
                return None
            g = self.groups_in_force()[sc["jobs"][b["jobs"][0][0]]["group"]]
            nj = len(b["jobs"])
            cpus = sc.get("cpus", 4)
        return min(nj, g["procs"] if g.get("procs") is not None else cpus)

    def on_sbatch(self, e):
        if self.mode == "resubmit":
            self.check_batch_against_group(e)
        mn = self.max_nodes_in_force()
        if mn is None:
            return
        active = sum(1 for b in self.vc.slurm.values() if b["state"] in ("pending", "running"))
        if active > mn:
            self.bad("C06", "hpc.cap", f"{active} batches queued or running after an sbatch, max-nodes is {mn}")

    def check_status(self, st):
        if self.mode in ("faults",):
            return
        n = len(self.sc["jobs"])
        states = {k: s for k, s, _ in st["jobs"]}
        done = sum(1 for s in states.values() if s == "done")
        sub = sum(1 for s in states.values() if s in ("submitted", "done"))
        p = "C09"
        if not (st["completed"] <= st["submitted"] <= st["num"] == n):
            self.bad(p, "status.order", f"completed={st['completed']} submitted={st['submitted']} total={st['num']}")
        if st["completed"] != done:
            self.bad(p, "status.completed_count", f"completed_jobs={st['completed']} but {done} jobs are marked done")
        if st["submitted"] != sub:
            self.bad(p, "status.submitted_count", f"submitted_jobs={st['submitted']} but {sub} jobs are submitted or done")
        if st["cver"] != st["cverfile"] or st["jver"] != st["jverfile"]:
            self.bad(p, "status.version_files", f"version files disagree with the files' versions: {st['cver']}/{st['cverfile']} {st['jver']}/{st['jverfile']}")
        rows = {r[1] for r in self.vc.read_rows()}
        for k, s, bl in st["jobs"]:
            if s == "done" and k not in rows:
                self.bad(p, "status.done_without_result", f"job {k} is marked done but has no recorded result")
            if s != "not_submitted" and bl:
                self.bad(p, "status.blockers_after_submit", f"job {k} is {s} but still lists blockers {bl}")
        prev = self.prev_status
        if prev is not None and not self.resubmitted_since_prev:
            order = {"not_submitted": 0, "submitted": 1, "done": 2}
            if st["submitted"] < prev["submitted"] or st["completed"] < prev["completed"]:
                self.bad(p, "status.counter_decreased", f"counters went from {prev['submitted']}/{prev['completed']} to {st['submitted']}/{st['completed']}")
            pst = {k: (s, bl) for k, s, bl in prev["jobs"]}
            for k, s, bl in st["jobs"]:
                if order[s] < order[pst[k][0]]:
                    self.bad(p, "status.state_regressed", f"job {k} went from {pst[k][0]} to {s}")
                if not set(bl) <= set(pst[k][1]):
                    self.bad(p, "status.blockers_grew", f"job {k} remaining blockers grew from {pst[k][1]} to {bl}")
            if prev["complete"] and not st["complete"]:
                self.bad(p, "status.complete_reverted", "a complete submission became incomplete")
            if st["cver"] < prev["cver"] or st["jver"] < prev["jver"]:
                self.bad(p, "status.version_decreased", "a version number decreased")
            cfg_same = all(st[x] == prev[x] for x in ("submitter", "submitted", "completed", "complete", "canceled"))
            js_same = st["jobs"] == prev["jobs"] and st["ids"] == prev["ids"] and st["batch_index"] == prev["batch_index"]
            if not cfg_same and st["cver"] <= prev["cver"]:
                self.bad(p, "status.version_not_bumped", "cluster config changed without a version increase")
            if not js_same and st["jver"] <= prev["jver"]:
                self.bad(p, "status.version_not_bumped", "job status changed without a version increase")
        self.resubmitted_since_prev = False
        self.snaps.append(st)

    resubmitted_since_prev = False
    user_busy = 0

    # ------------------------------------------------------------------ schedule
    def choose(self, menu):
        tot = sum(w for w, _ in menu)
        x = self.rng.random() * tot
        for w, op in menu:
            x -= w
            if x <= 0:
                return op
        return menu[-1][1]

    def maybe_extra(self):
        """mode-specific user commands / faults injected with small probability at each op"""
        vc, rng, mode = self.vc, self.rng, self.mode
        if self.sc.get("oddStates"):
            x = self.maybe_odd_state()
            if x is not None:
                return x
        if mode == "resubmit" and self.sc.get("resub", {}).get("lose") and not self.resubs and not self.lost_done and rng.random() < .02:
            c = [h for h, b in vc.slurm.items() if b["state"] == "running" and not vc.procs[b["node"]].holding
                 and vc.procs[b["node"]].state == "ready" and vc.procs[b["node"]].at[0] != "WAIT"]
            c += [h for h, b in vc.slurm.items() if b["state"] == "pending"]
            if c:
                self.lost_done = True
                return ["nodelost", rng.choice(c)]
        x = self.maybe_boundary_fault()
        if x is not None:
            return x
        # user commands are issued against an existing submission: only after submit-jobs has returned - or while it is
        # stuck in a scheduler command (the submission exists by then; the user opens a second terminal)
        if vc.procs and vc.procs[1].state == "ready" and mode in ("busy", "cancel"):
            if mode == "cancel" and vc.procs[1] in vc.hung():
                return self.maybe_user_reaction()
            return None
        x = self.maybe_user_reaction()
        if x is not None:
            return x
        if mode == "busy" and rng.random() < .04:
            return ["spawn", rng.choice(["trysubmit", "trysubmit", "showstatus"])]
        if mode == "busy" and rng.random() < .08 and self.user_busy < 6 and \
                [b["state"] for b in vc.slurm.values() if b["state"] in ("pending", "running")] == ["running"]:
            # the user looks again when the run is nearly over: a round concurrent with the end of the last batch
            self.user_busy += 1
            return ["spawn", "trysubmit"]
        if mode == "busy" and rng.random() < .02:
            return ["noise"]
        if mode == "cancel" and self.cancel_info is None and rng.random() < .05 and len(vc.trace) > 3 and \
                not (self.hang_plan and not self.hangs_done and self.rng2.random() < .8):
            # (a run that plans a stuck scheduler command mostly waits for it: that is when users reach for cancel-jobs)
            self.cancel_info = {"at": vc.step_no}
            self.cancel_runs += 1
            return ["spawn", "cancel", rng.random() < .6]
        if mode == "cancel" and self.cancel_info is not None and rng.random() < .03:
            return ["spawn", rng.choice(["trysubmit", "showstatus"])]
        if mode in BATCHFAULT_MODES and vc.procs and vc.procs[1].state != "ready" and self.user_busy < 4 and rng.random() < \
                (.08 if [b["state"] for b in vc.slurm.values() if b["state"] in ("pending", "running")] == ["running"] else .01):
            # the user may look at any time (try-submit-jobs is what show-status offers), also while batches die
            self.user_busy += 1
            return ["spawn", "trysubmit"]
        if mode == "batchfaults":
            r = rng.random()
            if r < .05:
                c = [p for p in vc.live() if p.kind != "node" and p.at[0] == "EXT" and p.at[1].startswith("sbatch")]
                if c:
                    return ["failext", rng.choice(c).pid, 1]
            elif r < .09:
                c = [h for h, b in vc.slurm.items() if b["state"] == "running" and not vc.procs[b["node"]].holding
                     and vc.procs[b["node"]].state == "ready" and vc.procs[b["node"]].at[0] != "WAIT"]
                c += [h for h, b in vc.slurm.items() if b["state"] == "pending"]
                if c:
                    return ["nodelost", rng.choice(c)]
        if mode == "faults" and not self.fault_done and len(self.ops) >= self.fault_after:
            subs = [p for p in vc.live() if p.kind in ("submit", "trysubmit") and vc.enabled(p.pid)]
            family = self.fault_family if len(self.ops) < 120 else "generic"
            nested = [p for p in subs if p.holding and p.at[0] == "ACQ"]
            if nested and family != "midround" and rng.random() < (.35 if family == "nested" else .25):
                # about to enter a section under two locks (moving a node's results into the consolidated file):
                # the process dies / the filesystem fails at one of the first mutations inside it
                p = rng.choice(nested)
                self.fault_done = True
                self.fault_kind = rng.choice(["killin", "failwrite"])
                # the section mutates twice: open(consolidated file, append), remove(node file).  Fault points: before the
                # open, after the open (file opened, nothing written yet), before the removal
                k = rng.randrange(0, 3)
                if k == 2:
                    self.fault_kind += ".late"
                    return [self.fault_kind.split(".")[0], p.pid, 0, "late"]
                return [self.fault_kind, p.pid, k]
            midround = [p for p in subs if p.at[0] == "EXT" and str(p.at[1]).startswith("sbatch")]
            if midround and family != "nested" and self.rng2.random() < (.35 if family == "midround" else .1):
                # in the middle of the submit phase: an sbatch is about to run; the same step then writes the three files of
                # the round's next batch, if any (config, run script, sbatch script) - with a batch already on the HPC
                p = self.rng2.choice(midround)
                self.fault_done = True
                kind = self.rng2.choice(["kill", "killin", "failwrite", "failwrite", "failext"])
                self.fault_kind = kind
                if kind == "kill":
                    return ["kill", p.pid]
                if kind == "failext":
                    return ["failext", p.pid, 1]
                return [kind, p.pid, self.rng2.randrange(0, 3)] + self.late_flavour()
            if subs and family == "generic" and rng.random() < .12:
                p = rng.choice(subs)
                self.fault_done = True
                kind = rng.choice(["kill", "kill", "killin", "killin", "failext", "failwrite", "locktimeout", "squeue7"])
                self.fault_kind = kind
                if kind == "kill":
                    return ["kill", p.pid]
                if kind == "killin":
                    return ["killin", p.pid, rng.randrange(0, 9)] + self.late_flavour()
                if kind == "failext":
                    return ["failext", p.pid, rng.choice([1, 1, 2, 7])]
                if kind == "squeue7":
                    return ["failext", p.pid, 7, "squeue"]
                if kind == "failwrite":
                    return ["failwrite", p.pid, rng.randrange(0, 9)] + self.late_flavour()
                if kind == "locktimeout":
                    return ["locktimeout", p.pid]
        if mode == "faults" and self.fault_done and self.vc.break_stale and rng.random() < .05:
            lock = vc.cluster_lock()
            if os.path.exists(lock):
                try:
                    owner = open(lock).read().strip()
                except OSError:
                    owner = ""
                pid = int(owner.split("@")[0]) if "@" in owner else None
                if pid is None or vc.procs[pid].state != "ready":
                    return ["breaklock"]
        return None

    # ------------------------------------------------------------------ faults at the process boundary (second stream)
    def maybe_boundary_fault(self):
        """scheduler commands that hang or fail transiently, filesystem faults on the nodes"""
        vc, rng, mode = self.vc, self.rng2, self.mode
        sched = ("squeue", "sbatch", "scancel")

        def at_ext(p, cmds=sched):
            return p.at[0] == "EXT" and str(p.at[1]).split(" ")[0] in cmds
        if self.hang_plan and self.hangs_done < 3 and not vc.hang_active():
            # a submitter round (it holds the role) or cancel-jobs stuck in a scheduler command
            c = [p for p in vc.live() if p.kind in ("submit", "trysubmit", "cancel", "resubmit") and at_ext(p) and p.hang_until is None]
            if c and rng.random() < (.25 if mode == "cancel" else .12):
                self.hangs_done += 1
                return ["hangext", rng.choice(c).pid, rng.choice(HANG_SECONDS)]
        if mode == "cancel":
            c = [p for p in vc.live() if p.kind == "cancel" and at_ext(p, ("scancel",)) and p.fail_ext == 0]
            if c and rng.random() < .08:
                return ["failext", rng.choice(c).pid, 1, "scancel"]       # transient controller error
        if mode == "nodefaults" and self.node_faults < 3:
            # the node is about to append a result (finished or canceled job) to its results file
            c = [p for p in vc.live() if p.kind == "node" and p.at[0] == "ACQ" and "results_batch_" in str(p.at[1])
                 and not p.lock_timeout and vc.enabled(p.pid)]
            if c and rng.random() < .15:
                self.node_faults += 1
                p = rng.choice(c)
                kind = rng.choice(["locktimeout", "locktimeout", "failwrite", "failwrite.late"])
                self.fault_kind = "node." + kind
                if kind == "locktimeout":
                    return ["locktimeout", p.pid]
                return ["failwrite", p.pid, 0] + (["late"] if kind.endswith("late") else [])
        if mode == "flaky" and self.flaky_faults < 4:
            c = [p for p in vc.live() if p.kind in ("submit", "trysubmit") and at_ext(p, ("squeue", "sbatch")) and p.fail_ext == 0]
            if c and rng.random() < .2:
                self.flaky_faults += 1
                p = rng.choice(c)
                if at_ext(p, ("squeue",)):
                    self.fault_kind = "flaky.squeue"
                    return ["failext", p.pid, rng.choice([1, 2, 7, 7, 7]), "squeue"]
                self.fault_kind = "flaky.sbatch"
                return ["failext", p.pid, 1, "sbatch"]
        return None

    def maybe_user_reaction(self):
        """what the user does when a command did not do its job: cancel-jobs again; resubmit-jobs without waiting"""
        vc, rng, mode = self.vc, self.rng2, self.mode
        users_busy = any(p.kind in ("cancel", "resubmit") for p in vc.live())
        if mode == "cancel" and not users_busy:
            if self.cancel_info is None and vc.hang_active() and len(vc.trace) > 3 and rng.random() < .3:
                # a submitter round is stuck: the moment at which users reach for cancel-jobs
                self.cancel_info = {"at": vc.step_no}
                self.cancel_runs += 1
                return ["spawn", "cancel", rng.random() < .6]
            if self.cancel_info is not None and self.cancel_runs < MAX_CANCEL_RUNS and rng.random() < .08 and self.cancel_unfinished():
                self.cancel_runs += 1
                return ["spawn", "cancel", rng.random() < .6]
        if mode == "resubmit" and self.immediate_resub and not users_busy and rng.random() < .5:
            st = vc.read_status()
            if st and st["complete"] and st["submitter"] is None and len(self.resubs) < self.sc.get("resub", {}).get("times", 0) \
                    and any(p.kind == "node" for p in vc.live()) and not any(p.kind != "node" for p in vc.live()) \
                    and not any(jp.exited is None and jp.returncode is None and vc.procs[jp.node].state == "ready" for jp in vc.jobprocs):
                # the completion flag is on disk, batches of the finished epoch are still listed by squeue
                op = self.plan_resubmit()
                if op is not None:
                    return op + ["now"]
        return None

    def late_flavour(self):
        """half of the file faults strike after the open succeeded: the file is created / truncated, the first write fails
        (quota, ENOSPC) or never reaches the disk (kill before the buffer is flushed)"""
        if self.rng2.random() < .5:
            self.fault_kind += ".late"
            return ["late"]
        return []

    def cancel_unfinished(self):
        """the user looks at show-status / squeue after cancel-jobs returned: not marked canceled (it gave up waiting for
        the submitter role), or batches are still queued or running (a scancel failed)"""
        st = self.vc.read_status()
        if st is None or st["complete"]:
            return False
        return not st["canceled"] or any(b["state"] in ("pending", "running") for b in self.vc.slurm.values())

    def run(self):
        vc = self.vc
        vc.install()
        try:
            if "ops" in self.case:
                self.replay(self.case["ops"])
            else:
                self.explore()
            self.final_checks()
        finally:
            vc.uninstall()
        return self.result()

    def replay(self, ops):
        for op in ops:
            try:
                if op[0] == "step" and not self.vc.enabled(op[1]):
                    continue
                if op[0] == "startbatch" and self.vc.slurm.get(op[1], {}).get("state") != "pending":
                    continue
                if op[0] == "jobexit" and (op[1] >= len(self.vc.jobprocs) or self.vc.jobprocs[op[1]].exited is not None):
                    continue
                if op[0] == "oddstate" and self.vc.slurm.get(op[1], {}).get("state") not in ("pending", "running"):
                    continue
                if op[0] == "nodelost" and self.vc.slurm.get(op[1], {}).get("state") not in ("pending", "running"):
                    continue
                if op[0] in ("kill", "killin", "failext", "failwrite", "locktimeout", "hangext") and (op[1] not in self.vc.procs or self.vc.procs[op[1]].state != "ready"):
                    continue
                self.apply(list(op))
            except KeyError:
                continue
        self.drain()

    def explore(self):
        self.apply(["spawn", "submit", True] if self.sc.get("local") else ["spawn", "submit"])
        while len(self.ops) < self.max_ops():
            if self.force_pid is not None:
                if self.forced_step():
                    continue
                self.force_pid = None
            extra = self.maybe_extra()
            if extra is not None:
                self.apply(extra)
                continue
            menu = self.menu()
            if not menu:
                if not self.at_quiescence():
                    break
                continue
            self.apply(self.choose(menu))

    def forced_step(self):
        """the process `force_pid` runs on until its first scheduler poll (or until it ends / has to wait)"""
        vc, pid = self.vc, self.force_pid
        if pid not in vc.procs or not vc.enabled(pid):
            return False
        if any(e[1] in ("squeue", "sbatch") and e[2] == pid for e in vc.trace):
            return False
        self.apply(["step", pid])
        return True

    def drain(self):
        """after an explicit op list: run to quiescence with the documented recovery"""
        while len(self.ops) < self.max_ops():
            menu = self.menu()
            if not menu:
                if not self.at_quiescence():
                    break
                continue
            self.apply(menu[0][1])

    def at_quiescence(self):
        """no enabled op.  Returns True if a user command was spawned (documented recovery), False to stop."""
        vc = self.vc
        st = vc.read_status()
        if self.sc.get("local"):
            return False
        blocked = [p for p in vc.live()]
        if st is None:
            return False
        if st["complete"]:
            return self.mode == "resubmit" and not blocked and self.next_resubmit(st)
        if blocked:
            # live processes but nothing enabled: somebody waits for a lock marker nobody will release
            self.deadlocked = True
            if self.vc.break_stale and os.path.exists(vc.cluster_lock()):
                self.apply(["breaklock"])
                return True
            # give the user a chance anyway (their process will block too) - stop instead
            return False
        if self.mode == "cancel" and self.cancel_info is not None and self.cancel_runs < MAX_CANCEL_RUNS and self.cancel_unfinished():
            # cancel-jobs gave up ("Failed to get promoted to submitter"): the user runs it again
            self.cancel_runs += 1
            self.apply(["spawn", "cancel", True])
            return True
        if self.user_trysubmits >= MAX_USER_TRYSUBMITS * len(self.epoch_info):      # per (resubmission) epoch
            return False
        self.user_trysubmits += 1
        before = (sum(1 for e in vc.trace if e[1] == "sbatch"), st["complete"])
        self.quiescent_checks.append({"at": len(vc.trace), "before": before, "st": st})
        self.apply(["spawn", "trysubmit"])
        return True

    deadlocked = False

    # ------------------------------------------------------------------ end-of-trace oracles
    def final_checks(self):
        vc, sc, mode = self.vc, self.sc, self.mode
        tr = vc.trace
        n = len(sc["jobs"])
        jobs = {j["id"]: j for j in sc["jobs"]}
        faulty = mode in ("faults",) + BATCHFAULT_MODES
        P1 = "C11" if mode == "faults" else "C01"
        # node-side filesystem faults are failures "on login node or compute node" of C11's quantifier as well
        PX = ["C11"] if mode == "nodefaults" else []
        if mode == "resubmit":
            return self.final_checks_resubmit()       # epoch-aware versions of the checks below
        # ---- placements and starts (C01 / C11)
        placed = {}
        by_idx = {}
        for e in tr:
            if e[1] == "sbatch":
                _, _, pid, bidx, hid, jl, groups, acct = e
                key = (pid, bidx)
                if bidx in by_idx and by_idx[bidx] != pid:
                    self.bad(P1, "batch.id_reused", f"batch identifier {bidx} used by processes {by_idx[bidx]} and {pid}")
                    for px in PX + (["C01"] if P1 != "C01" else []):
                        self.bad(px, "batch.id_reused", f"batch identifier {bidx} used twice")
                by_idx.setdefault(bidx, pid)
                for k, _bl in jl:
                    placed.setdefault(k, set()).add(key)
        for k, keys in placed.items():
            if len(keys) > 1 and not self.any_resubmit():
                self.bad(P1, "job.two_batches", f"job {k} was placed in batches {sorted(b for _, b in keys)}")
                for px in PX + (["C01"] if P1 != "C01" else []) + (["C12"] if mode in BATCHFAULT_MODES else []):
                    self.bad(px, "job.two_batches", f"job {k} was placed in batches {sorted(b for _, b in keys)}")
        starts = {}
        for e in tr:
            if e[1] == "start":
                starts[jid(e[4])] = starts.get(jid(e[4]), 0) + 1
        for k, c in starts.items():
            if c > 1 and not self.any_resubmit():
                self.bad(P1, "job.started_twice", f"job {k} was started {c} times")
                for px in PX + (["C01"] if P1 != "C01" else []):
                    self.bad(px, "job.started_twice", f"job {k} was started {c} times")
        if not faulty:
            # a job canceled by a submitter round (it was not yet submitted: the row goes straight into the consolidated
            # file) is never handed to the HPC; a job canceled on its node is in that node's batch and nowhere else (C01)
            both = sorted({jid(e[4][0]) for e in tr if e[1] == "row" and e[4][2] == "canceled" and e[3] == "processed_results.csv"} & set(placed))
            if both:
                self.bad("C01", "job.canceled_and_placed", f"jobs {both} were canceled by a submitter before submission and also handed to the HPC in a batch")
        rows = vc.read_rows()
        # ---- rows: never lost (C11/C08 flavour), canceled rows (C04)
        written = [e for e in tr if e[1] == "row"]
        on_disk = {}
        for r in rows:
            on_disk[(r[1], r[2], r[3])] = on_disk.get((r[1], r[2], r[3]), 0) + 1
        if not self.any_resubmit():
            for e in written:
                key = (jid(e[4][0]), int(e[4][1]), e[4][2])
                if on_disk.get(key, 0) < 1:
                    for px in [("C11" if mode == "faults" else "C12" if mode in BATCHFAULT_MODES else "C03")] + PX + (["C08"] if mode in ("plain", "busy") else []):
                        self.bad(px, "row.lost", f"the result {key} was written but is on disk nowhere at the end")
        exits = {}
        for e in tr:
            if e[1] == "jobexit":
                exits[jid(e[3])] = e[4]
        per_job = {}
        for r in rows:
            per_job.setdefault(r[1], []).append(r)
        for k, rs in per_job.items():
            for r in rs:
                if r[3] == "canceled":
                    if not jobs[k]["cancel"] or r[2] == 0 or starts.get(k):
                        self.bad("C04", "cancel.wrong", f"job {k} has a canceled result but flag={jobs[k]['cancel']} rc={r[2]} starts={starts.get(k, 0)}")
                    fb = [b for b in jobs[k]["blockers"] if any(x[2] != 0 for x in per_job.get(b, []))]
                    if not fb:
                        self.bad("C04", "cancel.without_failed_blocker", f"job {k} was canceled but none of its blockers failed or was canceled")
                elif r[3] == "finished":
                    if k not in exits or exits[k] != r[2]:
                        self.bad("C12" if mode in BATCHFAULT_MODES else "C03", "row.fabricated", f"job {k} has a finished result rc={r[2]} but its process exit was {exits.get(k)}")
            if len({(r[2], r[3]) for r in rs}) > 1 or (len(rs) > 1 and not faulty):
                for px in ["C03" if not faulty else P1] + PX:
                    self.bad(px, "row.duplicate", f"job {k} has {len(rs)} results on disk: {[(r[0], r[2], r[3]) for r in rs]}")
        # started flagged job whose blocker had failed at start time is covered online by C02; C04: flagged job started although a blocker failed
        for k, c in starts.items():
            if jobs[k]["cancel"] and self.ref[k][0] == "canceled" and not faulty and mode != "cancel":
                self.bad("C04", "cancel.missed", f"flagged job {k} was started although a blocker failed or was canceled")
        st = vc.read_status() if not sc.get("local") else None
        complete = bool(st and st["complete"]) or (sc.get("local") and os.path.exists(os.path.join(vc.out, "results.json")))
        results = None
        try:
            results = json.load(open(os.path.join(vc.out, "results.json")))
        except Exception:
            pass
        # ---- completion-related (C03/C04/C05/C12/C14)
        mc = [e for e in tr if e[1] == "markcomplete"]
        if len(mc) > 1 + self.count_resubmits():
            self.bad("C05", "complete.twice", f"the submission was marked complete {len(mc)} times")
        for e in mc:
            # summary written before the flag, by the same process
            prior = [x for x in tr if x[0] <= e[0] and x[1] == "summary" and x[2] == e[2]]
            if not prior:
                self.bad("C05", "complete.flag_before_summary", "the completion flag was set before the results summary was written")
        if mc and not self.any_resubmit():
            last_mc = mc[0][0]
            late = [e for e in tr if e[1] == "sbatch" and e[0] > last_mc]
            if late:
                self.bad("C05", "complete.sbatch_after", f"a batch was submitted after the submission was complete (batch {late[0][3]})")
        plain = mode in ("plain", "busy", "local", "hooks", "hookslocal")
        if plain and not self.dry():
            if not complete:
                if not self.deadlocked or True:
                    self.bad("C05", "progress.incomplete", f"the fault-free run did not complete after {self.user_trysubmits} try-submit-jobs at quiescence")
                    self.bad("C03", "progress.incomplete", "the fault-free run did not complete")
            elif results is not None:
                self.check_final_results(results, "C03")
                if not sc.get("local"):
                    # C08 at system level: every recorded result is reported as newly completed to exactly one submitter round
                    reported = collections.Counter(j for e in tr if e[1] == "persist" for j in e[5])
                    for k in sorted({r[1] for r in vc.read_rows()}):
                        if reported[k] != 1:
                            self.bad("C08", "reported.not_once", f"the result of job {k} was reported as newly completed to {reported[k]} "
                                     "submitter rounds (update_job_status calls), expected exactly one")
                if results["missing_jobs"] and mc:
                    self.bad("C05", "complete.jobs_without_result", f"the completion flag was set in a fault-free run while jobs "
                             f"{sorted(jid(m) for m in results['missing_jobs'])} have no result")
        if plain and not self.dry() and not sc.get("local"):
            for q in self.quiescent_checks:
                after_sb = sum(1 for e in tr if e[1] == "sbatch")
                # progress of this particular try-submit: events after q["at"] until the next quiescent point
                nxt = [x["at"] for x in self.quiescent_checks if x["at"] > q["at"]]
                end = nxt[0] if nxt else len(tr)
                seg = tr[q["at"]:end]
                if not any(e[1] == "sbatch" for e in seg) and not any(e[1] == "markcomplete" for e in seg):
                    self.bad("C05", "progress.stuck_round", "try-submit-jobs at a quiescent, incomplete state neither submitted a batch nor completed the submission")
            # a round leaves an unblocked job unsubmitted only when the node limit is reached
            self.check_rounds_leave_only_when_full()
        if mode in BATCHFAULT_MODES:
            if not complete and not self.deadlocked:
                self.bad("C12", "progress.incomplete", f"the submission did not reach completion after {self.user_trysubmits} try-submit-jobs (batch faults only)")
            if complete and results is not None:
                self.check_final_results(results, "C12", expect_ref=False)
        if mode == "faults" and self.fault_kind == "squeue7" and not self.other_faults():
            if not complete:
                self.bad("C11", "squeue.transient_not_recovered", "after a transient squeue failure the submission did not complete with further try-submit-jobs")
            elif results is not None:
                self.check_final_results(results, "C11")
        if mode == "cancel":
            self.check_cancel(tr, rows, complete, results)
        if mode in ("hooks", "hookslocal") or (mode == "flaky" and sc.get("lifecycle")):
            self.check_hooks(tr, complete)
        self.complete = complete
        self.results = results

    def dry(self):
        return any(g.get("dryRun") for g in self.sc["groups"])

    def any_resubmit(self):
        return any(op[0] == "spawn" and op[1] == "resubmit" for op in self.ops)

    def count_resubmits(self):
        return sum(1 for op in self.ops if op[0] == "spawn" and op[1] == "resubmit")

    def other_faults(self):
        return any(op[0] in ("kill", "killin", "failwrite", "locktimeout", "nodelost") for op in self.ops)

    def check_final_results(self, results, prop, expect_ref=True):
        sc = self.sc
        n = len(sc["jobs"])
        res = results["results"]
        names = [jid(r["name"]) for r in res]
        missing = sorted(jid(m) for m in results["missing_jobs"])
        if len(names) != len(set(names)):
            self.bad(prop, "results.duplicate_entry", f"results.json holds several entries for a job: {sorted(names)}")
        rows_disk = {}
        for r in self.vc.read_rows():
            rows_disk[r[1]] = (r[2], r[3])
        if expect_ref:
            if missing:
                self.bad(prop, "results.missing", f"jobs {missing} are reported missing although every batch ran to its end")
                for k in missing:       # C04: the cancel rule is exact — a doomed flagged job gets a canceled result, every other job runs
                    exp = self.ref.get(k)
                    if exp and exp[0] == "canceled":
                        self.bad("C04", "cancel.not_recorded", f"flagged job {k} has a failed/canceled blocker but got no canceled result (it is missing at completion)")
                    elif exp and exp[0] == "finished":
                        self.bad("C04", "run.never_started", f"job {k} must run (reference {exp}) once its blockers have outcomes, but it has no result at completion")
            for r in res:
                k = jid(r["name"])
                cls = "canceled" if r["status"] == "canceled" else "finished"
                exp = self.ref[k]
                if (cls, r["return_code"] if cls == "finished" else 1) != (exp[0], exp[1] if exp[0] == "finished" else 1):
                    self.bad("C04" if "canceled" in (cls, exp[0]) else prop, "results.classification",
                             f"job {k}: result ({cls}, rc={r['return_code']}) but evaluating the graph in topological order gives {exp}")
                    if prop != "C04" and "canceled" in (cls, exp[0]):
                        self.bad(prop, "results.classification", f"job {k}: result ({cls}) differs from the reference {exp}")
            if sorted(names) != list(range(n)) and not missing:
                self.bad(prop, "results.count", f"results.json has entries for {sorted(names)}, expected one per job 0..{n - 1}")
        else:
            have = set(rows_disk)
            if sorted(set(names)) != sorted(have):
                self.bad(prop, "results.not_rows", f"results.json lists {sorted(set(names))} but results on disk exist for {sorted(have)}")
            if missing != sorted(set(range(n)) - have):
                self.bad(prop, "results.missing_wrong", f"missing_jobs={missing} but jobs without a result are {sorted(set(range(n)) - have)}")
            for r in res:
                k = jid(r["name"])
                if k in rows_disk and (r["return_code"], r["status"]) != rows_disk[k]:
                    self.bad(prop, "results.altered", f"job {k}: summary says {(r['return_code'], r['status'])}, the recorded result is {rows_disk[k]}")
        summ = results["results_summary"]
        tot = summ["num_successful"] + summ["num_failed"] + summ["num_canceled"] + summ["num_missing"]
        if tot != n:
            self.bad(prop, "results.tally", f"tallies sum to {tot}, there are {n} jobs")

    def check_rounds_leave_only_when_full(self):
        """C05: at the end of a round that ran its submit phase, an unsubmitted job whose blockers all have
        outcomes exists only if the node limit is reached (judged on the round's own persisted view)."""
        mn = self.sc["maxNodes"]
        tr = self.vc.trace
        rows_by_step = None
        for e in tr:
            if e[1] != "persist":
                continue
            pid = e[2]
            # status right after this persist = the next snapshot whose jver changed; approximate with the
            # arguments: ids persisted = queue.outstanding after the submit phase
            ids = e[6]
            st = next((s for s in self.snaps if s["ids"] == list(ids) and s["batch_index"] == e[7]), None)
            if st is None:
                continue
            if mn is not None and len(ids) >= mn:
                continue
            if st["canceled"]:
                continue
            left = [k for k, s, bl in st["jobs"] if s == "not_submitted" and not bl]
            if left:
                self.bad("C05", "round.left_unblocked_job", f"a round left jobs {left} unsubmitted although their blockers all have outcomes and only {len(ids)} batches are active (max-nodes {mn})")
                return

    def check_cancel(self, tr, rows, complete, results):
        mk = [e for e in tr if e[1] == "markcanceled"]
        if not mk:
            return
        t = mk[0][0]
        late = [e for e in tr if e[1] == "sbatch" and e[0] > t]
        if late:
            self.bad("C14", "cancel.sbatch_after_cancel", f"batch {late[0][3]} was handed to the HPC after the submission was marked canceled")
        # every batch active when cancel-jobs read the ids was asked to be canceled
        cpid = mk[0][2]
        scan = {e[3] for e in tr if e[1] == "scancel" and e[2] == cpid}
        prom = [e for e in tr if e[1] == "promote" and e[2] == cpid and e[3]]
        if prom:
            tprom = prom[-1][0]
            # batches accepted before the cancel process was promoted and not ended by then
            active = set()
            for e in tr:
                if e[1] == "sbatch" and e[4] is not None and e[0] < tprom:
                    active.add(e[4])
            ended = set()
            for e in tr:
                if e[0] < tprom and e[1] == "procexit" and e[3] == "node":
                    pid = e[2]
                    ended |= {h for h, b in self.vc.slurm.items() if b["node"] == pid}
                if e[0] < tprom and e[1] in ("nodelost",):
                    ended.add(e[2])
            need = {h for h in active - ended}
            # only those still listed as active in the persisted ids matter to cancel-jobs; ids persisted are a superset of active
            notasked = sorted(need - scan)
            if notasked:
                self.bad("C14", "cancel.batch_not_cancelled", f"batches {notasked} were queued or running when cancel-jobs ran but were not passed to scancel")
        # every batch that was queued or running when the flag was written had been asked to be canceled by then; one handed
        # to the HPC afterwards (which must not happen at all) is asked later, if ever
        asked_by_mark = {e[3] for e in tr if e[1] == "scancel" and e[0] <= t}
        asked_ever = {e[3] for e in tr if e[1] == "scancel"}
        never = sorted(((self.alive_at_mark or set()) - asked_by_mark) | ({e[4] for e in late if e[4] is not None} - asked_ever))
        if never:
            self.bad("C14", "cancel.alive_batch_never_cancelled", f"batches {never} were queued or running at/after the moment the submission "
                     "was marked canceled and no scancel was issued for them")
        if complete and results is not None:
            self.check_final_results(results, "C14", expect_ref=False)
        # "jobs that never ran are reported missing": a canceled submission must still reach completion once nothing is alive
        if (not complete and self.mode == "cancel" and not self.deadlocked and self.user_trysubmits >= 3 and not self.vc.live()
                and not any(b["state"] in ("pending", "running") for b in self.vc.slurm.values())):
            self.bad("C14", "cancel.never_completes", f"the submission is marked canceled, no batch is alive, {self.user_trysubmits} "
                     "try-submit-jobs ran at quiescence, but it never completes: results.json is never written and the jobs that never "
                     "ran are never reported missing")

    def check_hooks(self, tr, complete):
        sc = self.sc
        life = sc.get("lifecycle", {})
        hooks = [e for e in tr if e[1] == "hook"]
        first_sb = next((e[0] for e in tr if e[1] == "sbatch"), None)
        first_start = next((e[0] for e in tr if e[1] == "start"), None)
        def named(n):
            return [e for e in hooks if e[3] == n]
        for e in hooks:
            if e[4] != self.vc.out:
                self.bad("C16", "hook.env", f"{e[3]} ran with JADE_RUNTIME_OUTPUT={e[4]!r}, expected {self.vc.out!r}")
        for n in ("setup", "teardown", "node_setup", "node_teardown"):
            if n not in life and named(n):
                self.bad("C16", "hook.unconfigured", f"{n} command ran although it is not configured")
        if "setup" in life:
            s = named("setup")
            if len(s) != 1:
                self.bad("C16", "setup.count", f"setup command ran {len(s)} times")
            else:
                lim = first_sb if not sc.get("local") else first_start
                if lim is not None and s[0][0] > lim:
                    self.bad("C16", "setup.late", "setup command ran after the first batch was handed to the HPC / first job started")
                if s[0][6] != "submit":
                    self.bad("C16", "setup.where", f"setup command ran in a {s[0][6]} process")
        if "teardown" in life:
            t = named("teardown")
            mcs = [e for e in tr if e[1] == "markcomplete"]
            if complete and len(t) != 1:
                self.bad("C16", "teardown.count", f"teardown command ran {len(t)} times for one completion")
            for x in t:
                summ = [e for e in tr if e[1] == "summary" and e[0] <= x[0]]
                if not summ:
                    self.bad("C16", "teardown.early", "teardown ran before the results summary (not every job had an outcome)")
                if any(m[0] < x[0] for m in mcs):
                    self.bad("C16", "teardown.after_flag", "teardown ran after the completion flag was set")
                if len(x) > 8 and x[8] and self.mode not in ("cancel",):
                    self.bad("C16", "teardown.while_batches_run", f"the teardown command ran while batches {list(x[8])} were still queued or "
                             "running with jobs that had no outcome yet (not every job had an outcome)")
            if complete and not sc.get("local") and not mcs:
                pass
        batches = {}
        for e in tr:
            if e[1] == "start":
                batches.setdefault(e[3], {"starts": [], "exits": [], "pid": e[2]})["starts"].append(e[0])
        for e in tr:
            if e[1] == "jobexit":
                for b in batches.values():
                    if b["pid"] == e[2]:
                        b["exits"].append(e[0])
        node_pids = {p.pid: p for p in self.vc.procs.values() if p.kind in NODEKINDS}
        local = sc.get("local")
        units = list(node_pids.values()) if not local else [p for p in self.vc.procs.values() if p.kind == "submit"]
        for p in units:
            b = p.batch if not local else 0
            hs = [e for e in hooks if e[2] == p.pid]
            starts = [e[0] for e in tr if e[1] in ("start", "wstart") and e[2] == p.pid]
            exits = [e[0] for e in tr if e[1] == "jobexit" and e[2] == p.pid]
            rowsw = [e[0] for e in tr if e[1] == "row" and e[2] == p.pid]
            finished = p.state == "exited"
            if "node_setup" in life:
                ns = [e for e in hs if e[3] == "node_setup"]
                if len(ns) > 1 or (starts and len(ns) != 1):
                    self.bad("C16", "node_setup.count", f"node setup ran {len(ns)} times for batch {b}")
                if ns and starts and ns[0][0] > min(starts):
                    self.bad("C16", "node_setup.late", f"node setup ran after a job of batch {b} had started")
                for e in ns:
                    g = self.batch_group(b)
                    if g is not None and e[5] != g:
                        self.bad("C16", "hook.env", f"node setup of batch {b} ran with JADE_SUBMISSION_GROUP={e[5]!r}, expected {g!r}")
            if "node_teardown" in life:
                nt = [e for e in hs if e[3] == "node_teardown"]
                if len(nt) > 1 or (finished and len(nt) != 1):
                    self.bad("C16", "node_teardown.count", f"node teardown ran {len(nt)} times for batch {b} (node finished={finished})")
                if nt and (any(x > nt[0][0] for x in starts) or any(x > nt[0][0] for x in rowsw)):
                    self.bad("C16", "node_teardown.early", f"node teardown ran before all jobs of batch {b} had ended")
            if not local and finished:
                kids = [e for e in tr if e[1] == "spawn" and e[3] == "trysubmit" and self.vc.procs[e[2]].parent == p.pid]
                dist = True
                if not kids and dist:
                    self.bad("C16", "hooks.block_trysubmit", f"the node of batch {b} finished without invoking try-submit-jobs")
            if nt_late_check(self, p, hs, exits, tr):
                self.bad("C16", "node_teardown.early", f"node teardown ran on a node of batch {b} before all its job processes had ended")
            if finished and not local and p.kind == "node":
                bj = next((x["jobs"] for x in self.vc.slurm.values() if x["node"] == p.pid), ())
                have = {r[1] for r in self.vc.read_rows()}
                lost = [k for k, _ in bj if k not in have]
                if lost:
                    self.bad("C16", "hooks.block_rows", f"batch {b} finished but jobs {lost} have no recorded result")

    def batch_group(self, b):
        x = next((x for x in self.vc.slurm.values() if x["batch"] == b), None)
        if self.sc.get("local"):
            return "g0"
        if x is None or not x["jobs"]:
            return None
        return f"g{self.sc['jobs'][x['jobs'][0][0]]['group']}"

    # ------------------------------------------------------------------ odd scheduler state words
    def maybe_odd_state(self):
        """real SLURM lists live batches under words JADE does not know (SUSPENDED, REQUEUED, RESIZING, ...):
        now and then a pending/running batch is listed under such a word for a while, then under its normal word"""
        vc, rng = self.vc, self.rng
        r = rng.random()
        if r < .05:
            c = [h for h, b in vc.slurm.items() if b["state"] in ("pending", "running") and not b.get("odd")]
            if c:
                h = rng.choice(c)
                return ["oddstate", h, rng.choice(vc.ODD_PENDING if vc.slurm[h]["state"] == "pending" else vc.ODD_RUNNING)]
        elif r < .08:
            c = [h for h, b in vc.slurm.items() if b["state"] in ("pending", "running") and b.get("odd")]
            if c:
                return ["oddstate", rng.choice(c), None]
        return None

    # ------------------------------------------------------------------ resubmission epochs (mode `resubmit`)
    def max_ops(self):
        return MAX_OPS * (1 + self.sc.get("resub", {}).get("times", 0)) if self.mode == "resubmit" else MAX_OPS

    def groups_in_force(self):
        """submission-group parameters in force: the configured ones until a `resubmit-jobs -s FILE` replaced them"""
        g = self.epoch_info[-1]["groups"]
        return g["groups"] if g else self.sc["groups"]

    def max_nodes_in_force(self):
        g = self.epoch_info[-1]["groups"]
        return g["maxNodes"] if g else self.sc["maxNodes"]

    def outcomes_on_disk(self):
        out = {j["id"]: ("missing", None) for j in self.sc["jobs"]}
        for r in self.vc.read_rows():
            out[r[1]] = ("canceled", 1) if r[3] == "canceled" else ("finished", r[2])
        return out

    def row_times(self):
        """job -> (exec time, completion time) of its recorded result, as numbers"""
        from vcluster import REAL_OPEN
        out = {}
        files = [Path(self.vc.out) / "processed_results.csv"] + sorted((Path(self.vc.out) / "results").glob("results_batch_*.csv"))
        for f in files:
            try:
                lines = REAL_OPEN(f).read().split("\n")
            except OSError:
                continue
            for l in lines[1:]:
                parts = l.strip().split(",")
                if len(parts) >= 5:
                    try:
                        out[jid(parts[0])] = (float(parts[3]), float(parts[4]))
                    except ValueError:
                        out[jid(parts[0])] = (parts[3], parts[4])
        return out

    def load_results(self):
        try:
            from vcluster import REAL_OPEN
            return json.load(REAL_OPEN(os.path.join(self.vc.out, "results.json")))
        except Exception:
            return None

    def next_resubmit(self, st):
        """the submission is complete and idle: the user reruns jobs with `resubmit-jobs` (flags as the CLI allows)"""
        op = self.plan_resubmit()
        if op is None:
            return False
        self.apply(op)
        return True

    def plan_resubmit(self):
        sc, rng = self.sc, self.rng
        plan = sc.get("resub") or {}
        if len(self.resubs) >= plan.get("times", 0):
            return None
        failed, missing, successful = rng.random() < .8, rng.random() < .7, rng.random() < .25
        gi = len(self.resubs) if rng.random() < plan.get("regroupProb", .4) else None
        prev = self.outcomes_on_disk()
        jobs = {j["id"]: j for j in sc["jobs"]}
        if any(o[0] == "missing" for o in prev.values()):
            # --no-missing while jobs have no result: documented, unfixed defects of resubmit-jobs (known_findings.json,
            # C13 resubmit.no_missing.*; resubmit suite) - not the subject of this mode
            missing = True
        R = rerun_closure(sc, resubmit_selection(prev, failed, missing, successful))
        if not R and rng.random() < .8:
            successful = True
            R = rerun_closure(sc, resubmit_selection(prev, failed, missing, successful))
        if not failed and any(jobs[k]["cancel"] and any(b not in R and _bad(prev[b]) for b in jobs[k]["blockers"]) for k in R):
            # a flagged job would be rerun while a failed blocker of it is not: JADE then runs it (it only looks at
            # blockers that are rerun) - reported separately, not generated here
            failed = True
        return ["spawn", "resubmit", failed, missing, successful, gi]

    def begin_resubmit(self, op):
        """bookkeeping of one `resubmit-jobs` invocation (also on replay): close the epoch that just ended, work out
        from the flags and the recorded outcomes what must be rerun, then start the real command"""
        vc, sc = self.vc, self.sc
        failed, missing, successful = bool(op[2]), bool(op[3]), bool(op[4])
        gi = op[5] if len(op) > 5 else None
        st = vc.read_status()
        # "now": issued right after the completion flag appeared - nodes of the finished epoch may still be alive (teardown,
        # not yet reaped: their batches are still listed by squeue), but no other command is running
        now = len(op) > 6 and op[6] == "now"
        idle = not vc.live() or (now and not any(p.kind != "node" for p in vc.live()))
        accept = bool(st and st["complete"] and st["submitter"] is None and idle)
        prev = self.outcomes_on_disk()
        R = rerun_closure(sc, resubmit_selection(prev, failed, missing, successful))
        path, groups = None, None
        if gi is not None and 0 <= gi < len(sc.get("regroups", [])):
            try:
                path = vc.edited_groups_file(len(self.resubs), sc["regroups"][gi]["groups"], sc["regroups"][gi]["maxNodes"])
                groups = sc["regroups"][gi]
            except OSError:
                path = None
        if accept:
            self.close_epoch()
        vc.step_no += 1
        p = vc.spawn_user("resubmit", failed, missing, successful, path)
        if now:
            self.force_pid = p.pid      # resubmit-jobs gets to its first scheduler poll before the old nodes are gone
            self.resub_now_alive = getattr(self, "resub_now_alive", 0) + sum(1 for b in vc.slurm.values() if b["state"] in ("pending", "running"))
        self.resubs.append({"pid": p.pid, "accept": accept, "R": R, "prev": prev, "flags": (failed, missing, successful),
                            "gi": gi if path else None, "times": self.row_times(), "at": len(vc.trace)})
        if accept:
            e = len(self.epoch_info)
            self.epoch_info.append({"R": R, "prev": prev, "expected": reference_epoch(sc, prev, R, e), "pid": p.pid,
                                    "groups": groups if groups else self.epoch_info[-1]["groups"],
                                    "times": self.resubs[-1]["times"]})

    def epoch_bounds(self):
        """trace index ranges of the epochs: epoch e >= 1 starts at the e-th prepare_for_resubmission"""
        tr = self.vc.trace
        cuts = [0] + [i for i, e in enumerate(tr) if e[1] == "prepare"] + [len(tr)]
        return [(cuts[i], cuts[i + 1]) for i in range(len(cuts) - 1)]

    def close_epoch(self):
        """the submission is complete: its results against the expected outcome of the epoch that just ended"""
        sc = self.sc
        e = len(self.epoch_info) - 1
        info = self.epoch_info[e]
        if info.get("closed"):
            return
        info["closed"] = True
        props = ["C03"] + (["C13"] if e >= 1 else [])
        n = len(sc["jobs"])

        def bad(key, msg, extra=()):
            for p in list(props) + list(extra):
                self.bad(p, key, f"epoch {e}: {msg}")
        bounds = self.epoch_bounds()
        lo, hi = bounds[e] if e < len(bounds) else (len(self.vc.trace), len(self.vc.trace))
        lost = any(x[1] in ("nodelost", "kill", "killin") for x in self.vc.trace[lo:hi])
        results = self.load_results()
        disk = self.outcomes_on_disk()
        if results is None:
            bad("results.absent", "the submission is complete but results.json cannot be read")
            return
        names = [jid(r["name"]) for r in results["results"]]
        if len(names) != len(set(names)):
            bad("results.duplicate_entry", f"results.json holds several entries for a job: {sorted(names)}")
        rows = {}
        for r in self.vc.read_rows():
            rows.setdefault(r[1], []).append(r)
        for k, rs in rows.items():
            if len(rs) > 1:
                bad("row.duplicate", f"job {k} has {len(rs)} results on disk: {[(r[0], r[2], r[3]) for r in rs]}")
        have = {k for k, o in disk.items() if o[0] != "missing"}
        if sorted(set(names)) != sorted(have):
            bad("results.not_rows", f"results.json lists {sorted(set(names))} but results on disk exist for {sorted(have)}")
        missing = sorted(jid(m) for m in results["missing_jobs"])
        if missing != sorted(set(range(n)) - have):
            bad("results.missing_wrong", f"missing_jobs={missing} but jobs without a result are {sorted(set(range(n)) - have)}")
        for r in results["results"]:
            k = jid(r["name"])
            o = ("canceled", 1) if r["status"] == "canceled" else ("finished", r["return_code"])
            if k in have and o != disk[k] and not (o[0] == "canceled" and disk[k][0] == "canceled"):
                bad("results.altered", f"job {k}: summary says {o}, the recorded result is {disk[k]}")
        summ = results["results_summary"]
        tot = summ["num_successful"] + summ["num_failed"] + summ["num_canceled"] + summ["num_missing"]
        if tot != n:
            bad("results.tally", f"tallies sum to {tot}, there are {n} jobs")
        # results of jobs that were not rerun are preserved
        times = self.row_times()
        for k in range(n):
            if e >= 1 and k not in info["R"]:
                if disk[k] != info["prev"][k]:
                    bad("resubmit.row_changed", f"job {k} was not rerun but its result changed from {info['prev'][k]} to {disk[k]}")
                elif k in info.get("times", {}) and times.get(k) != info["times"][k]:
                    bad("resubmit.row_changed", f"job {k} was not rerun but the times of its result changed from {info['times'][k]} to {times.get(k)}")
        if lost or info["expected"] is None:
            return
        exp = info["expected"]
        for k in range(n):
            if exp[k][0] == "missing":
                continue
            if disk[k][0] == "missing":
                bad("results.missing", f"job {k} has no result although every batch ran to its end (expected {exp[k]})")
            elif disk[k] != exp[k]:
                extra = ["C04"] if "canceled" in (disk[k][0], exp[k][0]) else []
                bad("results.classification", f"job {k}: result {disk[k]} but evaluating the graph in topological order "
                    f"(rerun set {sorted(info['R'])}, others keep their results) gives {exp[k]}", extra)

    def check_batch_against_group(self, e):
        """C07 at system level: the batch just accepted by the scheduler against the group parameters in force
        (after `resubmit-jobs -s FILE`: the edited ones, for the cut of the batch AND for both scripts)"""
        from jadeenv import walltime_str
        sc = self.sc
        _, _, pid, bidx, hid, jl, gnames, acct = e
        G = self.groups_in_force()
        info = next((x[4] for x in reversed(self.vc.trace) if x[1] == "sbatchinfo" and x[2] == pid and x[3] == bidx), {})
        if info.get("parse_error"):
            self.bad("C07", "batch.unreadable", f"batch {bidx}: {info['parse_error']}")
            return
        gids = sorted({sc["jobs"][k]["group"] for k, _ in jl})
        if not jl:
            self.bad("C07", "batch.empty", f"batch {bidx} holds no job")
            return
        if len(gids) != 1:
            self.bad("C07", "batch.mixed_groups", f"batch {bidx} holds jobs of groups {gids}")
            return
        gi = gids[0]
        g = G[gi]
        names = {k for k, _ in jl}
        if g["timeBased"]:
            total = sum(sc["jobs"][k]["est"] for k in names)
            limit = g["wallSec"] / 60 * g["procs"]
            if total > limit:
                self.bad("C07", "batch.time_limit", f"batch {bidx} of group {gi}: estimates sum to {total} min, the limit in force is {limit} min")
        elif len(jl) > g["batchSize"]:
            self.bad("C07", "batch.size_limit", f"batch {bidx} of group {gi} holds {len(jl)} jobs, per-node batch size in force is {g['batchSize']}")
        for k, bl in jl:
            if bl and not (g["tryAdd"] and set(bl) <= names):
                self.bad("C07", "batch.blocked_job", f"batch {bidx}: job {k} has unfinished blockers {sorted(bl)} (try-add-blocked in force: {g['tryAdd']})")
        want = {"account": f"acct{gi}", "time": walltime_str(g["wallSec"]), "partition": g.get("partition"), "nprocs": g.get("procs")}
        got = {k: info.get(k) for k in want}
        if got != want:
            self.bad("C07", "batch.group_params", f"batch {bidx} of group {gi} was submitted with {got}, the parameters in force are {want}")

    def final_checks_resubmit(self):
        vc, sc = self.vc, self.sc
        tr = vc.trace
        jobs = {j["id"]: j for j in sc["jobs"]}
        st = vc.read_status()
        complete = bool(st and st["complete"])
        bounds = self.epoch_bounds()
        by_pid = {r["pid"]: r for r in self.resubs}
        # ---- each resubmit-jobs invocation: refused / rerun set / blockers written (C13)
        for r in self.resubs:
            preps = [e for e in tr if e[1] == "prepare" and e[2] == r["pid"]]
            ex = next((e for e in tr if e[1] == "procexit" and e[2] == r["pid"]), None)
            if not r["accept"]:
                if preps:
                    self.bad("C13", "resubmit.not_refused", "resubmit-jobs reset a submission that was not complete and idle")
                continue
            if ex is not None and ex[5]:
                self.bad("C13", "resubmit.failed", f"resubmit-jobs {r['flags']} on a complete submission failed: {ex[5]}")
            if len(preps) != 1:
                if ex is not None and not ex[5]:
                    self.bad("C13", "resubmit.not_prepared", f"resubmit-jobs on a complete submission reset it {len(preps)} times (exit {ex[4]})")
                continue
            if set(preps[0][3]) != r["R"]:
                self.bad("C13", "resubmit.rerun_set", f"flags {r['flags']}, recorded outcomes {r['prev']}: rerun set {sorted(preps[0][3])}, "
                         f"selected jobs and their dependents are {sorted(r['R'])}")
            want = {k: tuple(sorted(set(jobs[k]["blockers"]) & r["R"])) for k in r["R"] if set(jobs[k]["blockers"]) & r["R"]}
            if dict(preps[0][4]) != want and set(preps[0][3]) == r["R"]:
                self.bad("C13", "resubmit.blockers_written", f"rerun set {sorted(r['R'])}: blockers written {dict(preps[0][4])}, "
                         f"configured blockers inside the rerun set are {want}")
        # ---- per epoch: one batch, one start, only rerun jobs, dependency order against THIS epoch's rows
        by_idx = {}
        for e, (lo, hi) in enumerate(bounds):
            seg = tr[lo:hi]
            if e == 0:
                R, P = set(jobs), ["C01"]
            else:
                r = by_pid.get(seg[0][2]) if seg else None
                R = r["R"] if r and r["accept"] else set(seg[0][3])
                P = ["C01", "C13"]
            placed, starts = {}, {}
            rows_at = {}
            for i, x in enumerate(seg):
                if x[1] == "sbatch":
                    _, _, pid, bidx, hid, jl, groups, acct = x
                    if bidx in by_idx and by_idx[bidx] != (e, pid):
                        for p in P:
                            self.bad(p, "batch.id_reused", f"batch identifier {bidx} used in epoch {by_idx[bidx][0]} and again in epoch {e}")
                    by_idx.setdefault(bidx, (e, pid))
                    for k, _bl in jl:
                        placed.setdefault(k, set()).add((pid, bidx))
                elif x[1] == "row":
                    rows_at.setdefault(jid(x[4][0]), i)
                elif x[1] == "start":
                    k = jid(x[4])
                    starts[k] = starts.get(k, 0) + 1
                    late = [b for b in jobs[k]["blockers"] if b in R and b not in rows_at]
                    gone = [b for b in jobs[k]["blockers"] if b not in R and e >= 1 and
                            self.epoch_info[min(e, len(self.epoch_info) - 1)]["prev"].get(b, ("missing",))[0] == "missing"]
                    if late or gone:
                        for p in ["C02"] + (["C13"] if e >= 1 else []):
                            self.bad(p, "epoch.start_before_blocker", f"epoch {e}: job {k} started before its blockers {late + gone} "
                                     f"had an outcome in this epoch (rerun set {sorted(R)})")
            for k, keys in placed.items():
                if len(keys) > 1:
                    for p in P:
                        self.bad(p, "job.two_batches", f"epoch {e}: job {k} was placed in batches {sorted(b for _, b in keys)}")
            for k, c in starts.items():
                if c > 1:
                    for p in P:
                        self.bad(p, "job.started_twice", f"epoch {e}: job {k} was started {c} times")
            extra = sorted((set(placed) | set(starts)) - R)
            if extra:
                for p in P:
                    self.bad(p, "epoch.unselected_job_rerun", f"epoch {e}: jobs {extra} were batched or started but are not in the rerun set {sorted(R)}")
            mcs = [x for x in seg if x[1] == "markcomplete"]
            if len(mcs) > 1:
                self.bad("C05", "complete.twice", f"epoch {e}: the submission was marked complete {len(mcs)} times")
            for m in mcs:
                if not any(x[1] == "summary" and x[2] == m[2] and x[0] <= m[0] for x in seg):
                    self.bad("C05", "complete.flag_before_summary", f"epoch {e}: the completion flag was set before the results summary was written")
                if any(x[1] == "sbatch" and x[0] > m[0] for x in seg):
                    self.bad("C05", "complete.sbatch_after", f"epoch {e}: a batch was submitted after the submission was complete")
            lost = any(x[1] in ("nodelost", "kill", "killin") for x in seg)
            if mcs and not lost:
                canceled = {jid(x[4][0]) for x in seg if x[1] == "row" and x[4][2] == "canceled"}
                for k in sorted(canceled & set(starts)):
                    self.bad("C04", "cancel.wrong", f"epoch {e}: job {k} has a canceled result but was started")
                notrun = sorted(k for k in R if not starts.get(k) and k not in canceled)
                if notrun:
                    for p in P:
                        self.bad(p, "epoch.job_not_rerun", f"epoch {e}: jobs {notrun} of the rerun set {sorted(R)} were neither started nor canceled")
        # ---- the last epoch
        expected_epochs = 1 + sum(1 for r in self.resubs if r["accept"])
        if not complete:
            why = f"did not complete after {self.user_trysubmits} try-submit-jobs at quiescence (epoch {len(bounds) - 1})"
            for p in ("C05", "C03") + (("C13",) if len(bounds) > 1 else ()):
                self.bad(p, "progress.incomplete", f"the fault-free run {why}")
        elif len(self.epoch_info) == expected_epochs and not vc.live():
            self.close_epoch()
        self.complete = complete
        self.results = self.load_results()

    # ------------------------------------------------------------------ result
    def result(self):
        vc = self.vc
        kinds = {}
        for e in vc.trace:
            kinds[e[1]] = kinds.get(e[1], 0) + 1
        nb = len({(e[2], e[3]) for e in vc.trace if e[1] == "sbatch"})
        cross = 0
        for e in vc.trace:
            if e[1] == "sbatch":
                ids = {k for k, _ in e[5]}
                for k, bl in e[5]:
                    pass
        for j in self.sc["jobs"]:
            pass
        refused = sum(1 for e in vc.trace if e[1] == "promote" and not e[3])
        obs = {
            "checks": self.checks, "ops": self.ops, "n_ops": len(self.ops), "events": kinds, "batches": nb,
            "complete": getattr(self, "complete", False), "user_trysubmits": self.user_trysubmits, "refused_promotions": refused,
            "fault": self.fault_kind, "deadlocked": self.deadlocked, "style": self.style,
            "errors": [e[5] for e in vc.trace if e[1] == "procexit" and e[5]][:5],
            "unknown_ext": [e for e in vc.trace if e[1] == "unknown_ext"][:3],
            "lockset": lockset_audit(self),
            "scancel_fail": sorted({f"{e[4]}.{'live' if e[5] else 'gone'}" for e in vc.trace if e[1] == "scancelfail"}),
            "cancel_runs": self.cancel_runs,
            "cancel_gave_up": sum(1 for e in vc.trace if e[1] == "procexit" and e[3] == "cancel" and e[4] == 1 and
                                  not any(x[1] == "markcanceled" and x[2] == e[2] for x in vc.trace)),
            "resubmit_now": sum(1 for op in self.ops if op[0] == "spawn" and op[1] == "resubmit" and len(op) > 6 and op[6] == "now"),
            "resubmit_now_alive": getattr(self, "resub_now_alive", 0),
            "late_faults": sum(1 for e in vc.trace if e[1] in ("killin", "failwrite") and e[-1] == "late"),
            "worker_outlives_manager": sum(1 for i, e in enumerate(vc.trace) if e[1] == "procexit" and e[3] == "node"
                                           and any(x[1] == "batchended" and x[3] == e[2] and
                                                   any(y[1] == "procexit" and y[3] == "worker" for y in vc.trace[i + 1:i + 1 + k])
                                                   for k, x in enumerate(vc.trace[i + 1:]))),
            "worker_trysubmit_while_manager_runs": sum(
                1 for e in vc.trace if e[1] == "spawn" and e[3] == "trysubmit" and vc.procs[e[2]].parent is not None
                and vc.procs[vc.procs[e[2]].parent].kind == "worker"
                and any(x[1] == "procexit" and x[3] == "node" and x[0] > e[0] and vc.procs[x[2]].batch == vc.procs[vc.procs[e[2]].parent].batch
                        for x in vc.trace)),
        }
        hist = translate(self)
        return {"model": None, "obs": obs, "hist": hist}


SUBKINDS = ("submit", "trysubmit", "cancel")

CLUSTER_FILES = ("cluster_config.json", "job_status.json", "config_version.txt", "job_status_version.txt")
# sections in which the unchanged code mutates these files without the lock, by design:
#   create  - Cluster.create of submit-jobs writes the two version files before anybody else knows the directory
#   prepare - Cluster.prepare_for_resubmission ("Locking is not required": complete submission, role held)
#   reset   - ResultsAggregator.clear_results_for_resubmission rewrites processed_results.csv (same situation)
UNLOCKED_BY_DESIGN = {"create": CLUSTER_FILES, "prepare": CLUSTER_FILES, "reset": ("processed_results.csv",)}


def nt_late_check(run, p, hs, exits, tr):
    """node teardown before the last job process of that node ended (decides for nodes that record no rows, too)"""
    nt = [e for e in hs if e[3] == "node_teardown"]
    return bool(nt) and any(x > nt[0][0] for x in exits)


def lockset_audit(run):
    """DESIGN 5.4: every mutation of a result file happens under that file's own lock, every mutation of the cluster
    files under the cluster lock (the system model treats these sections as atomic).  Returns the breaches."""
    if run.sc.get("local"):
        return []            # one process, no protocol (the cluster files are deleted at the end, unlocked)
    out = []
    inside = {}              # pid -> stack of open sections
    for e in run.vc.trace:
        if e[1] == "sect":
            st = inside.setdefault(e[2], [])
            if e[4] == "begin":
                st.append(e[3])
            elif st:
                st.pop()
            continue
        if e[1] != "mut":
            continue
        _, _, pid, base, how, holding = e
        if base == "processed_results.csv" or (base.startswith("results_batch_") and base.endswith(".csv")):
            need = base + ".lock"
        elif base in CLUSTER_FILES:
            need = "cluster_config.json.lock"
        else:
            continue
        if need in holding:
            continue
        if any(base in UNLOCKED_BY_DESIGN.get(t, ()) for t in inside.get(pid, [])):
            continue
        kind = run.vc.procs[pid].kind
        msg = f"lockset: {kind} process {pid} mutated {base} ({how}) without holding {need} (held: {list(holding)})"
        if msg not in out:
            out.append(msg)
    return out[:5]


def translate(run):
    """real event history -> ops for Jade.Sys.step (+ what was observed, for comparison)"""
    vc, sc = run.vc, run.sc
    if sc.get("local") or any(g.get("dryRun") for g in sc["groups"]):
        # local mode has no cluster protocol (one in-process JobRunner); dry-run hands nothing to the HPC
        return {"scn": None, "events": [], "expected": [], "final": {}}
    if any(e[1] in ("prepare",) for e in vc.trace) or any(p.kind == "resubmit" for p in vc.procs.values()):
        # the system model has no resubmission (C13 is a component-level proof): the oracles decide
        return "skip"
    if any(e[1] == "scancelfail" and e[4] == "transient" and e[5] for e in vc.trace):
        # the model's `scancel` ends the batch (assumption of C14: "scancel of a listed id ends that batch"); a scancel that
        # fails transiently on a LIVE batch leaves it running, which no op of the model expresses: the oracles decide
        return "skip"
    tr = vc.trace
    kinds = {p.pid: p.kind for p in vc.procs.values()}
    evs, exp = [], []
    WILD = "*"

    def emit(op, expected=WILD, **kw):
        d = {"op": op}
        d.update(kw)
        evs.append(d)
        exp.append(expected)

    def srow(r):
        return [r[0], r[1], r[2] == "canceled"]

    seen_sbatch = set()
    n = len(tr)

    def wrote_cfg_after(i, pid):
        """did process pid write cluster_config.json right after event i (before its next own non-file event)?"""
        for x in tr[i + 1:]:
            if x[2] != pid:
                continue
            if x[1] == "mut":
                if x[3] == "cluster_config.json" and x[4].startswith("open-w"):
                    return True
            elif x[1] in ("acq", "rel"):
                continue
            else:
                return False
        return False

    promoted = set()
    deferred = {}

    def batch_ends_later(i, pid):
        return any(x[1] == "batchended" and x[3] == pid for x in tr[i + 1:])

    for i, e in enumerate(tr):
        k = e[1]
        if k in ("demote", "markcomplete", "markcanceled") and not wrote_cfg_after(i, e[2]):
            continue          # killed / failed before the file was written: nothing happened
        if k in ("kill", "killin", "failwrite") and kinds.get(e[2]) in SUBKINDS:
            # died / failed inside `_move_results` after the copy, before the removal
            step_evs = [x for x in tr[:i] if x[0] == e[0] and x[2] == e[2]]
            copied = [j_ for j_, x in enumerate(step_evs) if x[1] == "mut" and x[3] == "processed_results.csv" and x[4].startswith("open-a")]
            if copied and not any(x[1] in ("move", "row") for x in step_evs[copied[-1]:]):
                locks = [x[3] for x in step_evs if x[1] == "acq" and x[3].startswith("results_batch_")]
                if locks:
                    emit("collectCopy", None, p=e[2], b=int(locks[-1].split("_")[2].split(".")[0]))
        if k in ("kill", "killin", "failwrite") and kinds.get(e[2]) in SUBKINDS and e[2] not in promoted:
            # killed inside the promotion section after the file write: the role is taken
            same = [x for x in tr[:i] if x[0] == e[0] and x[2] == e[2] and x[1] == "mut" and x[3] == "cluster_config.json" and x[4].startswith("open-w")]
            if same:
                emit("promote", "*", p=e[2])
                promoted.add(e[2])
        if k == "spawn":
            _, _, pid, kind, host = e
            if kind in SUBKINDS:
                emit("spawnSub", None, p=pid, isCancel=(kind == "cancel"))
                if kind == "submit":
                    emit("promote", True, p=pid)     # Cluster.create: submitter from birth
                    promoted.add(pid)
        elif k == "promote":
            emit("promote", bool(e[3]), p=e[2])
            if e[3]:
                promoted.add(e[2])
        elif k == "squeue":
            pid = e[2]
            if kinds.get(pid) in SUBKINDS and kinds.get(pid) != "cancel" and e[3] != "FAILED":
                # only the poll of a submitter round (the first successful squeue of the process)
                if not any(x[1] == "squeue" and x[2] == pid and x[3] != "FAILED" for x in tr[:i]):
                    emit("poll", WILD, p=pid, listed=[int(x) for x in e[3] if str(x).isdigit()])
        elif k == "move":
            b = int(e[3].split("_")[-1].split(".")[0])
            emit("collectFile", [srow(r) for r in e[4]], p=e[2], b=b)
        elif k == "collect":
            pid = e[2]
            ks = []
            for x in tr[i + 1:]:
                if x[2] != pid:
                    continue
                if x[1] == "row" and x[3] == "processed_results.csv":
                    ks.append(jid(x[4][0]))
                elif x[1] in ("acq", "rel", "mut"):
                    continue
                else:
                    break
            emit("passEnd", WILD, p=pid, ks=ks)
        elif k == "row":
            _, _, pid, fname, (name, rc, status) = e
            if fname == "processed_results.csv":
                emit("cancelRow", None, p=pid, j=jid(name))
            elif status == "canceled":
                emit("nodeCancel", None, p=pid, j=jid(name))
            else:
                emit("nodeRow", int(rc), p=pid, j=jid(name))
        elif k == "mut" and e[3] == "submitter.lock":
            if e[4] == "touch":
                emit("mark", None, p=e[2])
            elif e[4] == "remove":
                nxt = next((x for x in tr[i + 1:] if x[2] == e[2] and x[1] in ("summary", "demote", "procexit", "kill", "killin", "failwrite", "locktimeout")), None)
                dec = WILD if nxt is None or nxt[1] in ("kill", "killin", "procexit", "failwrite", "locktimeout") else (nxt[1] == "summary")
                emit("unmark", dec, p=e[2])
        elif k == "sbatch":
            _, _, pid, bidx, hid, jl, groups, acct = e
            if (pid, bidx) in seen_sbatch:
                continue
            seen_sbatch.add((pid, bidx))
            emit("sbatch", {"bid": bidx, "handed": [sorted(bl) for _, bl in jl]}, p=pid, jobs=[x for x, _ in jl], hid=hid)
        elif k == "persist":
            _, _, pid, sub, can, done, ids, bi = e
            wrote = []
            for x in tr[i + 1:]:
                if x[2] != pid:
                    continue
                if x[1] == "mut":
                    wrote.append(x[3])
                elif x[1] in ("acq", "rel"):
                    continue
                else:
                    break
            args = {"pend": sorted(sub), "cancels": sorted(can), "newly": sorted(done), "ids": sorted(int(x) for x in ids), "bidx": bi}
            if "job_status.json" in wrote:
                emit("persist", args, p=pid)
            else:
                # the process died / failed between the files: only what was written counts
                if "cluster_config.json" in wrote:
                    emit("persistCfg", "*", p=pid)
        elif k == "summary":
            _, _, pid, missing, rows = e
            emit("summary", WILD, p=pid, _missing=list(missing), _rows=sorted(srow(r) for r in rows))
        elif k == "markcomplete":
            emit("flag", None, p=e[2])
        elif k == "markcanceled":
            emit("markCanceled", None, p=e[2])
        elif k == "scancel":
            emit("scancel", None, p=e[2], h=e[3])
        elif k == "demote":
            emit("demote", None, p=e[2])
        elif k == "procexit":
            if e[3] == "node" and batch_ends_later(i, e[2]):
                deferred[e[2]] = ("exit", e[2])       # srun still waits for the other nodes: the batch stays listed
            elif e[3] in SUBKINDS or e[3] == "node":
                emit("exit", WILD, p=e[2])
        elif k == "batchended":
            d = deferred.pop(e[3], None)
            if d:
                emit(d[0], WILD, p=d[1])
        elif k == "startbatch":
            _, _, hid, bidx, npid = e
            b = vc.slurm[hid]
            g = sc["groups"][sc["jobs"][b["jobs"][0][0]]["group"]] if b["jobs"] else {"procs": 1}
            w = min(len(b["jobs"]), g["procs"] if g.get("procs") is not None else sc.get("cpus", 4))
            emit("startBatch", {"bid": bidx, "jobs": [[x, sorted(bl)] for x, bl in b["jobs"]]}, p=npid, h=hid, workers=w)
        elif k == "start":
            emit("nodeStart", None, p=e[2], j=jid(e[4]))
        elif k in ("kill", "killin"):
            if kinds.get(e[2]) == "worker":
                continue
            if kinds.get(e[2]) == "node" and batch_ends_later(i, e[2]):
                deferred[e[2]] = ("kill", e[2])
            else:
                emit("kill", WILD, p=e[2])
        elif k == "nodelost" and e[3] is None:
            emit("batchLost", WILD, h=e[2])
    # final observations
    st = vc.read_status()
    final = {"marker": vc.marker(), "starts": [jid(e[4]) for e in tr if e[1] == "start"],
             "completions": sum(1 for ev in evs if ev["op"] == "flag")}
    rows = []
    try:
        from vcluster import REAL_OPEN
        lines = REAL_OPEN(os.path.join(vc.out, "processed_results.csv")).read().split("\n")[1:]
        rows = [[jid(l.split(",")[0]), int(l.split(",")[1]), l.split(",")[2] == "canceled"] for l in lines if l.strip()]
        final["processed"] = rows
    except Exception:
        final["processed"] = None
    if st is not None:
        final["disk"] = {"jobs": [[s_, bl] for _, s_, bl in st["jobs"]], "ids": sorted(int(x) for x in st["ids"]), "bidx": st["batch_index"],
                         "submitted": st["submitted"], "completed": st["completed"], "complete": st["complete"], "canceled": st["canceled"]}
        final["submitter_set"] = st["submitter"] is not None
    else:
        final["disk"] = None
    scn = {"n": len(sc["jobs"]), "blockers": [j["blockers"] for j in sc["jobs"]], "flags": [j["cancel"] for j in sc["jobs"]],
           "rc": [j["rc"] for j in sc["jobs"]], "maxNodes": sc["maxNodes"] if sc["maxNodes"] is not None else sys.maxsize}
    return {"scn": scn, "events": evs, "expected": exp, "final": final}


def _run_case(case):
    try:
        with scratch_dir("jadevc-") as d:
            return Run(case, str(d)).run()
    except Exception as e:  # noqa
        return {"harness_exception": f"{type(e).__name__}: {e}", "tb": traceback.format_exc()[-1500:]}


class SystemSuite(Suite):
    name = "system"
    case_timeout = 120

    def cases(self, rng, tier, prop):
        modes = MODES_BY_PROP.get(prop, ["plain"])
        n = {"quick": 120, "thorough": 2500}[tier]
        if prop in ("C11", "C12"):
            n = {"quick": 200, "thorough": 4000}[tier]
        if prop == "C11" and tier == "quick":
            n = 450       # the single fault must coincide with rare moments (mid-round, later collection rounds); a case is cheap
        if prop == "C06" and tier == "thorough":
            n = 1500      # C06's queue and batch suites take most of the thorough budget; resubmission epochs cost 2-3 cases each
        extra = sum(1 for m in modes if m in ADDED_MODES.get(prop, ()))
        if 0 < extra < len(modes):
            n = n * len(modes) // (len(modes) - extra)      # the other modes keep their number of cases
        out = []
        for i in range(n):
            mode = modes[i % len(modes)]
            sc = gen_scenario(rng, mode)
            if prop in ("C03", "C04", "C02", "C08") and mode in ("plain", "busy") and i % 3 == 2:
                from suites import sysgen
                sc = sysgen.cancel_chain(rng)        # structured family: failing root + flagged chains across batches
                add_multinode(sc, mode)
            if mode == "flaky" and prop == "C16" and "teardown" not in sc.get("lifecycle", {}):
                # C16 under scheduler failures is about the teardown command: always configured
                sc["lifecycle"] = dict(sc.get("lifecycle", {}), teardown="hook teardown")
                sc.setdefault("hook_rc", {"teardown": 0, "node_teardown": 0})
            if mode == "resubmit" and prop == "C07":
                sc["resub"]["regroupProb"] = 1.0             # C07: every resubmission passes an edited groups file (-s)
            out.append({"op": "system.trace", "sc": sc, "mode": mode, "seed": rng.randrange(1 << 30),
                        "breakStale": (i % 2 == 1) if mode == "faults" else False})
        return out

    def impl(self, case):
        return _run_case(case)

    def impl_many(self, cases):
        if not cases:
            return []
        workers = min(14, max(1, (os.cpu_count() or 2) - 2))
        ctx = multiprocessing.get_context("fork")
        with ctx.Pool(workers, maxtasksperchild=25) as pool:
            return pool.map(_run_case, cases, chunksize=2)

    def view(self, result):
        return result.get("model")

    def model_from_result(self, case, result):
        h = result.get("hist")
        if not h or h == "skip" or case["sc"].get("local") or any(g.get("dryRun") for g in case["sc"]["groups"]):
            return {"op": "system.trace", "scn": {"n": 0, "blockers": [], "flags": [], "rc": [], "maxNodes": 1}, "events": []}
        # fault-free modes: replay through stepP (the extra guards collectedAll / roundDone of Model/SystemPlain.lean)
        plain = case.get("mode") in ("plain", "busy") and not any(e["op"] in ("scancel", "markCanceled") or (e["op"] == "spawnSub" and e.get("isCancel")) for e in h["events"])
        return {"op": "system.trace", "scn": h["scn"], "events": h["events"], "plain": plain}

    def agree(self, model, result):
        return not self.diff(model, result)

    def diff(self, model, result):
        """differences between the model's replay and the observed history (empty = agreement)"""
        h = result.get("hist")
        # lockset breaches: the atomic sections of the model no longer hold in the code (a broken tie, not an oracle hit)
        lock = list((result.get("obs") or {}).get("lockset") or [])
        if not h or h == "skip" or not model.get("outs") and not h["events"]:
            return lock
        if len(h["events"]) == 0:
            return lock
        if "driver_error" in model:
            return [f"driver: {model['driver_error']}"]
        d = lock
        if model["rejected"] is not None:
            i = model["rejected"]
            d.append(f"event {i} not accepted by the model: {h['events'][i]} (process at {model.get('procAt')}); previous: {h['events'][max(0, i - 4):i]}")
            return d
        for i, (o, e, ev) in enumerate(zip(model["outs"], h["expected"], h["events"])):
            if ev["op"] == "summary":
                # A duplicate row in the consolidated file (left by a submitter that failed between copy and removal in
                # `_move_results`) can make len(results) == num_jobs although a job has no result: the unchanged
                # `_handle_completion` then reports no missing job at all (findings/f9e_duplicate_row_masks_missing.py,
                # reported; outside the quantifiers of C11/C12).  On such histories only the rows are compared.
                dup = len({r[0] for r in ev["_rows"]}) != len(ev["_rows"])
                if sorted(o["rows"]) != ev["_rows"] or (o["missing"] != ev["_missing"] and not dup):
                    d.append(f"event {i} summary: model {o} observed missing={ev['_missing']} rows={ev['_rows']}")
                continue
            if e == "*" or o == "stutter":
                continue
            if o != e:
                d.append(f"event {i} {ev}: model computed {o}, observed {e}")
        f = h["final"]
        faulty = any(ev["op"] in ("kill", "persistCfg") for ev in h["events"]) or result["obs"].get("fault")
        if faulty and f["disk"] is not None:
            # counters are written from memory by a later demote after a failed write: not modelled
            for k in ("submitted", "completed"):
                f["disk"].pop(k, None)
                model["disk"].pop(k, None)
        if f["disk"] is not None and model["disk"] != f["disk"]:
            d.append(f"final status: model {model['disk']} observed {f['disk']}")
        if f["disk"] is not None and (model["submitter"] is not None) != f["submitter_set"]:
            d.append(f"final submitter field: model {model['submitter']} observed set={f['submitter_set']}")
        if model["marker"] != f["marker"]:
            d.append(f"final marker: model {model['marker']} observed {f['marker']}")
        if f["processed"] is not None and model["processed"] != f["processed"]:
            d.append(f"consolidated rows: model {model['processed']} observed {f['processed']}")
        if model["starts"] != f["starts"]:
            d.append(f"starts: model {model['starts']} observed {f['starts']}")
        if model["completions"] != f["completions"]:
            d.append("completions differ")
        return d

    def oracle(self, case, result):
        if "harness_exception" in result:
            return []
        return [Violation(p, k, m) for p, k, m in result["obs"]["checks"]]

    def tags(self, case, result):
        if "obs" not in result:
            return []
        o = result["obs"]
        t = [f"mode.{case['mode']}"]
        if o["batches"] >= 2:
            t.append("batches>=2")
        else:
            t.append("trivial.batches<2")
        if o["refused_promotions"]:
            t.append("promotion.refused")
        if o["user_trysubmits"]:
            t.append("user.trysubmit")
        if o["complete"]:
            t.append("complete")
        if o["fault"]:
            t.append(f"fault.{o['fault']}")
        if o["deadlocked"]:
            t.append("deadlocked")
        if o["events"].get("row", 0) and any(1 for _ in [0]):
            pass
        if o["events"].get("collect", 0) > 2:
            t.append("rounds>2")
        if o["errors"]:
            t.append("proc.error")
        if o["events"].get("oddstate"):
            t.append("squeue.odd_state_word")
        if o["events"].get("prepare"):
            t.append(f"resubmit.epochs={1 + o['events']['prepare']}")
        if o["events"].get("startworker"):
            t.append("multinode.batches")
            if o["events"].get("wstart"):
                t.append("multinode.worker_started_jobs")
            if o.get("worker_outlives_manager"):
                t.append("multinode.worker_outlives_manager")
            if o.get("worker_trysubmit_while_manager_runs"):
                t.append("multinode.worker_trysubmit_while_manager_runs")
        if case["sc"].get("sharedHosts"):
            t.append("hosts.shared")
        if o.get("style") == "slowext":
            t.append("style.slowext")
        if o["events"].get("hangext"):
            t.append("ext.hang")
        if o["events"].get("tick"):
            t.append("ext.hang.tick")
        for k in o.get("scancel_fail", []):
            t.append(f"scancel.fail.{k}")
        if o.get("cancel_gave_up"):
            t.append("cancel.gave_up_waiting_for_role")
        if o.get("cancel_runs", 0) > 1:
            t.append("cancel.rerun")
        if o.get("resubmit_now"):
            t.append("resubmit.immediately")
        if o.get("resubmit_now_alive"):
            t.append("resubmit.immediately.old_batches_listed")
        if o.get("late_faults"):
            t.append("fault.file.after_open")
        return t

    def shrink(self, case):
        # re-run with the recorded explicit ops, dropping suffixes/chunks
        ops = case.get("ops")
        if ops is None:
            return
        n = len(ops)
        for cut in (n // 2, n * 3 // 4, n - 5, n - 1):
            if 0 < cut < n:
                yield dict(case, ops=ops[:cut])


SUITE = SystemSuite()
