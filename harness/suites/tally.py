"""Suite `tally` (C20): the real `JobSubmitter._handle_completion/_build_results/write_results_summary` and
`ResultsSummary` (`get_results_by_type`, `show_results`, `missing_jobs`) vs Model/Reports.lean.

`tally.run`: a real configuration with the configured job names, result rows appended to the real results
file by the real `ResultsAggregator`, then `_handle_completion` (writes results.json) and `ResultsSummary`.
`tally.summary`: `ResultsSummary` on a given results.json (also rows the submitter would have refused).
"""
import contextlib
import io
import json
import re

from common import Suite, Violation, err_enum, quiet, scratch_dir

JOBS = ["job_1", "job_2", "job_3", "a", "b", "sim-10", "x.y", "Job_1", "j4", "j5", "j6", "j7", "j8", "j9", "j10", "j11"]
RCS_BAD = [1, 1, 2, 127, 255, -9, 3]
ODD_STATUS = ["missing", "Finished", "", "FINISHED", "cancelled"]


def is_valid_row(r):
    return r["status"] == "finished" or (r["status"] == "canceled" and r["rc"] != 0)


def truth_class(r):
    """independent classification of a (valid) row"""
    if r["status"] == "canceled":
        return "canceled"
    return "successful" if r["rc"] == 0 else "failed"


class _Cluster:
    class config:
        pipeline_stage_num = None

    def mark_complete(self):
        self.completed = True


class TallySuite(Suite):
    name = "tally"

    # ------------------------------------------------------------------ generators
    def cases(self, rng, tier, prop):
        count = {"quick": 700, "thorough": 8000}[tier]
        out = []
        # every outcome alone, and all four together
        for oc in ("ok", "failed", "canceled", "missing"):
            out.append(self._mk(rng, ["job_1"], [oc]))
        out.append(self._mk(rng, ["job_1", "job_2", "job_3", "a"], ["ok", "failed", "canceled", "missing"]))
        for _ in range(count):
            n = rng.choice([1, 1, 2, 3, 4, 5, 6, 8, 12, 16])
            configured = rng.sample(JOBS, n)
            w = rng.choice([(6, 2, 1, 1), (1, 1, 1, 1), (1, 0, 0, 0), (0, 1, 2, 0), (2, 2, 2, 4), (0, 0, 0, 1), (3, 1, 3, 0)])
            ocs = rng.choices(["ok", "failed", "canceled", "missing"], weights=w, k=n)
            c = self._mk(rng, configured, ocs)
            r = rng.random()
            if r < .05 and c["rows"]:
                rng.choice(c["rows"]).update(rc=0, status="canceled")          # asserts
            elif r < .09 and c["rows"]:
                rng.choice(c["rows"])["status"] = rng.choice(ODD_STATUS)          # asserts
            elif r < .13 and c["rows"]:
                d = dict(rng.choice(c["rows"]))                                     # a job collected twice
                d["rc"] = rng.choice([0, 1])
                d["status"] = "finished"
                c["rows"].insert(rng.randint(0, len(c["rows"])), d)
            elif r < .16:
                c["rows"].append({"name": "ghost", "rc": rng.choice([0, 1]), "status": "finished"})  # not configured
            if rng.random() < .3:
                # ResultsSummary on the same rows as a given file (also reaches rows `_build_results` refuses)
                names = {r_["name"] for r_ in c["rows"]}
                c = {"op": "tally.summary", "rows": c["rows"], "missing": sorted(x for x in configured if x not in names),
                     "configured": configured}
            out.append(c)
        return out

    def _mk(self, rng, configured, ocs):
        rows = []
        for name, oc in zip(configured, ocs):
            if oc == "ok":
                rows.append({"name": name, "rc": 0, "status": "finished"})
            elif oc == "failed":
                rows.append({"name": name, "rc": rng.choice(RCS_BAD), "status": "finished"})
            elif oc == "canceled":
                rows.append({"name": name, "rc": rng.choice([1, 1, 1, 2]), "status": "canceled"})
        rng.shuffle(rows)
        return {"op": "tally.run", "configured": list(configured), "rows": rows}

    # ------------------------------------------------------------------ implementation
    def impl(self, case):
        with quiet(), scratch_dir() as out:
            try:
                if case["op"] == "tally.run":
                    return self._run(case, out)
                return self._summary(case, out)
            except AssertionError as e:
                return {"error": err_enum(e)}

    def _run(self, case, out):
        from jade.enums import JobCompletionStatus
        from jade.extensions.generic_command import GenericCommandConfiguration, GenericCommandParameters
        from jade.jobs.job_submitter import JobSubmitter
        from jade.jobs.results_aggregator import ResultsAggregator
        from jade.models import HpcConfig, SubmitterParams
        from jade.result import Result
        config = GenericCommandConfiguration()
        for name in case["configured"]:
            config.add_job(GenericCommandParameters(command="true", name=name))
        config.assign_default_submission_group(SubmitterParams(
            hpc_config=HpcConfig(hpc_type="local", hpc={}), generate_reports=False, resource_monitor_type="none"))
        sub = JobSubmitter(config, str(out), True)
        agg = ResultsAggregator.create(str(out))
        valid = {s.value for s in JobCompletionStatus}
        for i, r in enumerate(case["rows"]):
            st = JobCompletionStatus(r["status"]) if r["status"] in valid else r["status"]
            agg.append_result(Result(r["name"], r["rc"], st, 1.5 + i, 1700000000.0 + i, None if i % 2 else str(100 + i)))
        sub._handle_completion(_Cluster())
        data = json.loads((out / "results.json").read_text())
        res = {"summary": data["results_summary"], "missing": sorted(data["missing_jobs"])}
        res.update(self._read_summary(out))
        return res

    def _summary(self, case, out):
        from jade.result import Result, serialize_results
        from jade.utils.utils import dump_data
        rows = [Result(r["name"], r["rc"], r["status"], 1.5 + i, 1700000000.0 + i, None) for i, r in enumerate(case["rows"])]
        dump_data({"jade_version": "x", "timestamp": "09/26/2026 12:00:00", "base_directory": str(out), "results_summary": {},
                   "missing_jobs": case["missing"], "results": serialize_results(rows)}, str(out / "results.json"))
        return self._read_summary(out)

    @staticmethod
    def _read_summary(out):
        from jade.result import ResultsSummary
        rs = ResultsSummary(str(out))
        by = {k: [x.name for x in v] for k, v in rs.get_results_by_type().items()}
        buf = io.StringIO()
        try:
            with contextlib.redirect_stdout(buf):
                rs.show_results()
            text = buf.getvalue()
            shown = {}
            for key, label in (("successful", "Num successful"), ("failed", "Num failed"), ("canceled", "Num canceled"),
                               ("missing", "Num missing"), ("total", "Total")):
                m = re.search(rf"^{label}: (\d+)$", text, flags=re.M)
                shown[key] = int(m.group(1)) if m else None
        except AssertionError as e:
            shown = {"error": err_enum(e)}
        return {"byType": by, "shown": shown}

    def model_case(self, case):
        if case["op"] == "tally.summary":
            return {"op": case["op"], "rows": case["rows"], "missing": case["missing"]}
        return case

    # ------------------------------------------------------------------ direct oracle
    def oracle(self, case, result):
        rows, configured = case["rows"], case["configured"]
        names = [r["name"] for r in rows]
        if not (all(is_valid_row(r) for r in rows) and len(set(names)) == len(names) and set(names) <= set(configured)):
            return []  # outside the property's hypothesis (refused rows, a job collected twice, unknown job)
        v = []
        if not isinstance(result, dict) or "error" in result or "harness_exception" in result:
            return [Violation("C20", "tally.crash", f"results summary failed on a valid result set {rows}: {result!r}")]
        truth = {"successful": [], "failed": [], "canceled": []}
        for r in rows:
            truth[truth_class(r)].append(r["name"])
        missing = sorted(set(configured) - set(names))
        if case["op"] == "tally.run":
            s = result["summary"]
            got = {k: s.get("num_" + k) for k in ("successful", "failed", "canceled")}
            exp = {k: len(x) for k, x in truth.items()}
            if got != exp:
                v.append(Violation("C20", "tally.count.wrong", f"rows {rows}: results_summary counts {got}, true {exp}"))
            if result["missing"] != missing or s.get("num_missing") != len(missing):
                v.append(Violation("C20", "tally.missing.wrong", f"configured {configured}, rows for {names}: missing reported {result['missing']} (num_missing={s.get('num_missing')}), true {missing}"))
            if sum(x or 0 for x in got.values()) + (s.get("num_missing") or 0) != len(configured):
                v.append(Violation("C20", "tally.partition", f"the four tallies {got}+{s.get('num_missing')} do not add up to the {len(configured)} configured jobs"))
        by = result["byType"]
        if {k: sorted(x) for k, x in by.items()} != {k: sorted(x) for k, x in truth.items()}:
            v.append(Violation("C20", "tally.bytype.wrong", f"rows {rows}: get_results_by_type gives {by}, true {truth}"))
        sh = result["shown"]
        exp_sh = {"successful": len(truth["successful"]), "failed": len(truth["failed"]), "canceled": len(truth["canceled"]),
                  "missing": len(missing), "total": len(configured)}
        if sh != exp_sh:
            v.append(Violation("C20", "tally.shown.wrong", f"rows {rows}: show_results prints {sh}, true {exp_sh}"))
        return v

    def tags(self, case, result):
        rows = case["rows"]
        if not rows and not case["configured"]:
            return ["trivial.empty"]
        t = [case["op"]]
        names = [r["name"] for r in rows]
        if isinstance(result, dict) and "error" in result:
            t.append("tally.assertion")
        if isinstance(result, dict) and isinstance(result.get("shown"), dict) and "error" in result["shown"]:
            t.append("tally.show.assertion")
        if len(set(names)) != len(names):
            t.append("tally.duplicateRow")
        if not set(names) <= set(case["configured"]):
            t.append("tally.unknownJob")
        if all(is_valid_row(r) for r in rows) and rows:
            for k in sorted({truth_class(r) for r in rows}):
                t.append("tally.has." + k)
        if set(case["configured"]) - set(names):
            t.append("tally.has.missing")
        if any(r["status"] == "canceled" and r["rc"] == 0 for r in rows):
            t.append("tally.canceledRc0")
        if any(r["status"] not in ("finished", "canceled") for r in rows):
            t.append("tally.oddStatus")
        return t

    def shrink(self, case):
        out = []
        for i in range(len(case["rows"])):
            c = dict(case)
            c["rows"] = case["rows"][:i] + case["rows"][i + 1:]
            if case["op"] == "tally.summary":
                gone = case["rows"][i]["name"]
                if gone in case["configured"] and gone not in [r["name"] for r in c["rows"]]:
                    c["missing"] = sorted(set(case["missing"]) | {gone})
            out.append(c)
        for i in range(len(case["configured"])):
            if len(case["configured"]) > 1:
                gone = case["configured"][i]
                c = dict(case)
                c["configured"] = case["configured"][:i] + case["configured"][i + 1:]
                c["rows"] = [r for r in case["rows"] if r["name"] != gone]
                if case["op"] == "tally.summary":
                    c["missing"] = [m for m in case["missing"] if m != gone]
                out.append(c)
        for i, r in enumerate(case["rows"]):
            if r["rc"] not in (0, 1):
                c = dict(case)
                c["rows"] = case["rows"][:i] + [dict(r, rc=1)] + case["rows"][i + 1:]
                out.append(c)
        return out


SUITE = TallySuite()
